#!/bin/bash
# Build /repo with the verification guard OFF in a scratch directory outside /repo and /verif, run the
# repository's ctest suite and compare the set of passing tests with /root/.vp/BASELINE.json.
set -u
D=$(mktemp -d /tmp/verif-baseline-XXXXXX)
trap 'rm -rf "$D"' EXIT
cd "$D" || exit 2
cmake -G Ninja -S /repo -B "$D/b" -DCMAKE_BUILD_TYPE=RelWithDebInfo -DCMAKE_CXX_FLAGS=-Wno-error >"$D/cmake.log" 2>&1 || { tail -30 "$D/cmake.log"; exit 2; }
cmake --build "$D/b" -j16 >"$D/build.log" 2>&1 || { tail -40 "$D/build.log"; echo "BASELINE: build failed"; exit 1; }
ctest --test-dir "$D/b" -j16 --timeout 900 --output-junit "$D/junit.xml" >"$D/ctest.log" 2>&1
python3 - "$D/junit.xml" <<'PY'
import json, sys, xml.etree.ElementTree as ET
base = json.load(open('/root/.vp/BASELINE.json'))
want = set(n.split('::')[0] for n in base['stable_pass'])
root = ET.parse(sys.argv[1]).getroot()
passed = set()
for tc in root.iter('testcase'):
    ok = tc.find('failure') is None and tc.find('error') is None and tc.get('status', 'run') in ('run', 'passed')
    if ok:
        passed.add(tc.get('name'))
missing = sorted(want - passed)
print("BASELINE: %d/%d baseline tests pass with the guard off" % (len(want & passed), len(want)))
if missing:
    print("BASELINE: failing:", missing[:20])
    sys.exit(1)
PY
