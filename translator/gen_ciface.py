#!/usr/bin/env python3
"""Regenerate coq/gen/Gen_CIface.v from
 (a) src/soplex_interface.h / .cpp : the declared C functions, the C++ members each definition calls through the
     handle (in source order), the basis-status codes documented in the header comments;
 (b) src/soplex.h, src/soplex/spxsolver.h : the enumerator integers as written in the C++ headers (what a C user
     has to look up, since soplex_interface.h defines no constants);
 (c) the dump of harness C20 ("table"): the enumerators as compiled and what the compiled C functions do with each
     code (which parameter SoPlex_set*Param(code) changes, what SoPlex_getStatus / SoPlex_basis*Status return for
     each C++ enumerator, what SoPlex_setRational selects)."""
import os
import re
import sys

sys.path.insert(0, os.path.dirname(os.path.dirname(os.path.abspath(__file__))))
import vlib

MISSING = -99999          # a value that can never agree: marks a row whose source could not be found

DIM_QUERIES = {"numCols", "numRows", "numColsRational", "numRowsRational"}

DOC_PHRASES = [("upper bound", "ON_UPPER"), ("lower bound", "ON_LOWER"), ("fixed to its identical bounds", "FIXED"),
               ("free and fixed to zero", "ZERO"), ("is basic", "BASIC"), ("nothing known", "UNDEFINED")]


def strip_comments(t):
    t = re.sub(r"/\*.*?\*/", "", t, flags=re.S)
    return re.sub(r"//.*", "", t)


def scrape_interface():
    src = os.path.join(vlib.REPO, "src")
    h = open(os.path.join(src, "soplex_interface.h")).read()
    cpp = open(os.path.join(src, "soplex_interface.cpp")).read()
    declared = re.findall(r"\b(SoPlex_\w+)\s*\(", strip_comments(h))
    # definitions: name, body (brace matching)
    body_src = strip_comments(cpp)
    defined = []
    for m in re.finditer(r"\b(SoPlex_\w+)\s*\([^;{]*\)\s*\{", body_src):
        i = m.end()
        depth = 1
        while i < len(body_src) and depth > 0:
            if body_src[i] == "{":
                depth += 1
            elif body_src[i] == "}":
                depth -= 1
            i += 1
        body = body_src[m.end():i]
        members = re.findall(r"\bso\s*->\s*(\w+)\s*\(", body)
        # pure dimension queries used to size a temporary are not part of a wrapper's effect
        if len(members) > 1:
            members = [x for x in members if x not in DIM_QUERIES] or members
        defined.append((m.group(1), members))
    # documented basis-status codes (header comments)
    doc = {}
    for kind, fn in (("rowstatus", "SoPlex_basisRowStatus"), ("colstatus", "SoPlex_basisColStatus")):
        m = re.search(r"/\*\*((?:(?!\*/).)*?)\*/\s*int\s+%s" % fn, h, re.S)
        rows = []
        if m:
            for code, text in re.findall(r"(-?\d+)\s*->\s*([^\n]*)", m.group(1)):
                name = None
                for ph, en in DOC_PHRASES:
                    if ph in text:
                        name = en
                        break
                rows.append((name or ("?" + text.strip()[:20]), int(code)))
        doc[kind] = rows
    return declared, defined, doc


def scrape_enum(txt, tail):
    """enumerators (name -> integer) of  typedef enum { ... } <tail>;  or  enum <tail> { ... };  honouring implicit values"""
    m = re.search(r"typedef enum\s*\{([^}]*)\}\s*%s\s*;" % tail, txt) or re.search(r"enum\s+%s\s*\{([^}]*)\}" % tail, txt)
    out = {}
    if not m:
        return out
    body = strip_comments(re.sub(r"///.*", "", m.group(1)))
    nxt = 0
    for part in body.split(","):
        part = part.strip()
        if not part or part.startswith("#"):
            continue
        mm = re.match(r"(\w+)\s*(?:=\s*(-?\d+))?$", part)
        if not mm:
            continue
        v = int(mm.group(2)) if mm.group(2) is not None else nxt
        out[mm.group(1)] = v
        nxt = v + 1
    return out


def scrape_headers():
    src = os.path.join(vlib.REPO, "src")
    sh = open(os.path.join(src, "soplex.h")).read()
    sv = open(os.path.join(src, "soplex", "spxsolver.h")).read()
    res = {"BP": scrape_enum(sh, "BoolParam"), "IP": scrape_enum(sh, "IntParam"), "RP": scrape_enum(sh, "RealParam"),
           "ST": scrape_enum(sv, "Status"), "VS": scrape_enum(sv, "VarStatus"), "IV": {}}
    for m in re.finditer(r"/// values for parameter (\w+)\s*enum\s*\{([^}]*)\}\s*;", sh):
        body = re.sub(r"///.*", "", m.group(2))
        for name, val in re.findall(r"(\w+)\s*=\s*(-?\d+)", body):
            res["IV"][name] = int(val)
    return res


def parse_table(text):
    t = {"BP": {}, "IP": {}, "RP": {}, "IV": {}, "ST": {}, "VS": {}, "CIP": {}, "CGI": {}, "CBP": {}, "CRP": {}, "CST": {},
         "CVSrow": {}, "CVScol": {}, "CSR": {}}
    for line in text.splitlines():
        w = line.split()
        if not w:
            continue
        k = w[0]
        if k in ("BP", "IP", "RP", "IV", "ST", "VS"):
            t[k][w[1]] = int(w[2])
        elif k in ("CIP", "CGI", "CBP", "CRP", "CST"):
            t[k][int(w[1])] = int(w[2])
        elif k == "CVS":
            t["CVS" + w[1]][int(w[2])] = int(w[3])
        elif k == "CSR":
            t["CSR"][w[1]] = w[2]
    return t


def coq_str(s):
    return '"%s"' % s.replace('"', "")


def build_rows(hdr, tab, doc):
    rows = []

    def add(kind, name, d, c, s):
        rows.append((kind, name, d, c, s))

    for kind, key, ck, count in (("boolparam", "BP", "CBP", "BOOLPARAM_COUNT"), ("intparam", "IP", "CIP", "INTPARAM_COUNT"),
                                 ("realparam", "RP", "CRP", "REALPARAM_COUNT")):
        for name, d in hdr[key].items():
            cpp = tab[key].get(name, MISSING)
            if name == count:
                add(kind + "-count", name, d, cpp, cpp)
                continue
            add(kind, name, d, cpp, tab[ck].get(d, MISSING))
            if kind == "intparam":
                add("getintparam", name, d, cpp, tab["CGI"].get(d, MISSING))
        for name in tab[key]:
            if name not in hdr[key]:
                add(kind, name, MISSING, tab[key][name], MISSING)
    for name, d in hdr["ST"].items():
        add("status", name, d, tab["ST"].get(name, MISSING), tab["CST"].get(d, MISSING))
    for name in tab["ST"]:
        if name not in hdr["ST"]:
            add("status", name, MISSING, tab["ST"][name], MISSING)
    # basis status codes: the C header documents them in comments; the C++ header defines the enumerators
    for name, d in hdr["VS"].items():
        add("varstatus-enum", name, d, tab["VS"].get(name, MISSING), tab["VS"].get(name, MISSING))
    for kind in ("rowstatus", "colstatus"):
        if not doc.get(kind):
            add(kind, "undocumented", MISSING, 0, 0)
        for name, d in doc.get(kind, []):
            add(kind, name, d, tab["VS"].get(name, MISSING), tab["CVS" + kind[:3]].get(d, MISSING))
    # the codes SoPlex_setRational selects, and the enumerators used by the C test program
    for name in ("READMODE_RATIONAL", "SOLVEMODE_RATIONAL", "CHECKMODE_RATIONAL", "SYNCMODE_AUTO"):
        try:
            s = int(tab["CSR"].get(name, MISSING))
        except ValueError:
            s = MISSING
        add("setrational", name, hdr["IV"].get(name, MISSING), tab["IV"].get(name, MISSING), s)
    for name in ("FEASTOL", "OPTTOL"):
        add("setrational-tol", name, 0, 0, 0 if tab["CSR"].get(name) == "0:0" else MISSING)
    for name in ("OBJSENSE_MINIMIZE", "OBJSENSE_MAXIMIZE"):
        add("intvalue", name, hdr["IV"].get(name, MISSING), tab["IV"].get(name, MISSING), tab["IV"].get(name, MISSING))
    return rows


def generate(table_text, out_path):
    declared, defined, doc = scrape_interface()
    hdr = scrape_headers()
    tab = parse_table(table_text)
    rows = build_rows(hdr, tab, doc)
    txt = "(* GENERATED by translator/gen_ciface.py from soplex_interface.h/.cpp, soplex.h, spxsolver.h and the compiled table - do not edit *)\n"
    txt += "From Coq Require Import ZArith List String.\nFrom SV Require Import CIfaceModel.\nImport ListNotations.\nLocal Open Scope Z_scope.\nLocal Open Scope string_scope.\n\n"
    txt += "Definition gen_declared : list string :=\n  [ " + ";\n    ".join(coq_str(n) for n in declared) + " ].\n\n"
    txt += "Definition gen_wraps : list wrap_row :=\n  [ " + ";\n    ".join(
        "(%s, [%s])" % (coq_str(n), "; ".join(coq_str(x) for x in ms)) for n, ms in defined) + " ].\n\n"
    txt += "Definition gen_codes : list code_row :=\n  [ " + ";\n    ".join(
        "{| cr_kind := %s; cr_name := %s; cr_doc := (%d); cr_cpp := (%d); cr_cside := (%d) |}" % (coq_str(k), coq_str(n), d, c, s)
        for k, n, d, c, s in rows) + " ].\n\n"

    def iv(n):
        return tab["IV"].get(n, MISSING)

    def ip(n):
        return tab["IP"].get(n, MISSING)
    txt += ("Definition gen_rational_codes : rational_codes :=\n  {| rc_readmode := ((%d), (%d)); rc_solvemode := ((%d), (%d)); "
            "rc_checkmode := ((%d), (%d)); rc_syncmode := ((%d), (%d)); rc_feastol := (%d); rc_opttol := (%d) |}.\n" % (
                ip("READMODE"), iv("READMODE_RATIONAL"), ip("SOLVEMODE"), iv("SOLVEMODE_RATIONAL"), ip("CHECKMODE"),
                iv("CHECKMODE_RATIONAL"), ip("SYNCMODE"), iv("SYNCMODE_AUTO"), tab["RP"].get("FEASTOL", MISSING),
                tab["RP"].get("OPTTOL", MISSING)))
    os.makedirs(os.path.dirname(out_path), exist_ok=True)
    old = open(out_path).read() if os.path.exists(out_path) else None
    if old != txt:
        with open(out_path, "w") as f:
            f.write(txt)
    bad = [r for r in rows if not (r[2] == r[3] == r[4])]
    return {"declared": declared, "defined": defined, "rows": rows, "bad_rows": bad, "doc": doc, "table": tab}


if __name__ == "__main__":
    exe = vlib.build_harness("C20")
    rc, out, err = vlib.sh([exe, "table"], timeout=300)
    info = generate(out, os.path.join(vlib.COQ, "gen", "Gen_CIface.v"))
    print(len(info["declared"]), "declared;", len(info["defined"]), "defined;", len(info["rows"]), "code rows; bad:", info["bad_rows"])
