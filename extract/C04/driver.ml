(* Model runner for C04 / C14: the extracted basis-descriptor and BAS-file model (coq/BasisModel.v, BasisFileModel.v).
   Input: blocks "BLP id" + "V r|c lo up mobj" lines + optional "N r|c names..." + "Q tag kind args"; one answer line
   "A tag key=value ..." per query, in the vocabulary of harness/C04.cpp (status letters, record lists). *)
open Zutil

let q_of_string s : Model.q =
  let z = Q.of_string s in
  { Model.qnum = z_of_zarith (Q.num z); Model.qden = pos_of_zarith (Q.den z) }
let ext s = if s = "inf" || s = "-inf" then None else Some (q_of_string s)

let coq_ascii (c : char) : Model.ascii =
  let n = Char.code c in
  let b i = (n lsr i) land 1 = 1 in
  Model.Ascii (b 0, b 1, b 2, b 3, b 4, b 5, b 6, b 7)
let char_of_ascii (Model.Ascii (b0, b1, b2, b3, b4, b5, b6, b7)) =
  let v b i = if b then 1 lsl i else 0 in
  Char.chr (v b0 0 + v b1 1 + v b2 2 + v b3 3 + v b4 4 + v b5 5 + v b6 6 + v b7 7)
let coq_string (s : string) : Model.string =
  let r = ref Model.EmptyString in
  for i = String.length s - 1 downto 0 do r := Model.String (coq_ascii s.[i], !r) done;
  !r
let rec ocaml_string (s : Model.string) : string =
  match s with
  | Model.EmptyString -> ""
  | Model.String (a, t) -> String.make 1 (char_of_ascii a) ^ ocaml_string t

let vs_of_char = function
  | 'U' -> Model.ON_UPPER | 'L' -> Model.ON_LOWER | 'F' -> Model.FIXED | 'Z' -> Model.ZERO | 'B' -> Model.BASIC
  | _ -> Model.UNDEFINED
let char_of_vs = function
  | Model.ON_UPPER -> 'U' | Model.ON_LOWER -> 'L' | Model.FIXED -> 'F' | Model.ZERO -> 'Z' | Model.BASIC -> 'B'
  | Model.UNDEFINED -> '?'
let ds_of_char = function
  | 'l' -> Model.P_ON_LOWER | 'u' -> Model.P_ON_UPPER | 'z' -> Model.P_FREE | 'f' -> Model.P_FIXED
  | 'E' -> Model.D_FREE | 'U' -> Model.D_ON_UPPER | 'L' -> Model.D_ON_LOWER | 'B' -> Model.D_ON_BOTH
  | _ -> Model.D_UNDEFINED
let char_of_ds = function
  | Model.P_ON_LOWER -> 'l' | Model.P_ON_UPPER -> 'u' | Model.P_FREE -> 'z' | Model.P_FIXED -> 'f'
  | Model.D_FREE -> 'E' | Model.D_ON_UPPER -> 'U' | Model.D_ON_LOWER -> 'L' | Model.D_ON_BOTH -> 'B'
  | Model.D_UNDEFINED -> 'X'

let explode s = List.init (String.length s) (String.get s)
let arg s = if s = "-" then "" else s
let vsl s = List.map vs_of_char (explode (arg s))
let dsl s = List.map ds_of_char (explode (arg s))
let str_vs l = String.concat "" (List.map (fun x -> String.make 1 (char_of_vs x)) l)
let str_ds l = String.concat "" (List.map (fun x -> String.make 1 (char_of_ds x)) l)
let b x = if x then "1" else "0"

let tag_name = function Model.XU -> "XU" | Model.XL -> "XL" | Model.UL -> "UL" | Model.LL -> "LL"
let tag_of = function "XU" -> Model.XU | "XL" -> Model.XL | "UL" -> Model.UL | _ -> Model.LL
let str_recs l =
  String.concat ";" (List.map (fun r ->
      tag_name r.Model.r_tag ^ ":" ^ ocaml_string r.Model.r_col ^
      (match r.Model.r_row with None -> "" | Some x -> ":" ^ ocaml_string x)) l)
let recs_of s =
  List.filter_map (fun t ->
      if t = "" then None else
        match String.split_on_char ':' t with
        | [k; c] -> Some { Model.r_tag = tag_of k; Model.r_col = coq_string c; Model.r_row = None }
        | [k; c; r] -> Some { Model.r_tag = tag_of k; Model.r_col = coq_string c; Model.r_row = Some (coq_string r) }
        | _ -> None) (String.split_on_char ';' (arg s))

let str_ind l = String.concat "" (List.map (fun z -> string_of_z z ^ ",") l)

let () =
  let lines = read_lines (open_in Sys.argv.(1)) in
  let rows = ref [] and cols = ref [] and rn = ref None and cn = ref None in
  let lp () = { Model.b_rows = List.rev !rows; Model.b_cols = List.rev !cols } in
  let names use = if use = "1" then (!rn, !cn) else (None, None) in
  List.iter (fun l ->
      match split_ws l with
      | [] -> ()
      | "BLP" :: id :: _ ->
        rows := []; cols := []; rn := None; cn := None;
        Printf.printf "CASE %s\n" id
      | "V" :: k :: lo :: up :: o :: _ ->
        let v = { Model.v_lo = ext lo; Model.v_up = ext up; Model.v_mobj = q_of_string o } in
        if k = "r" then rows := v :: !rows else cols := v :: !cols
      | "N" :: k :: ns ->
        let l = Some (List.map coq_string ns) in
        if k = "r" then rn := l else cn := l
      | "Q" :: tag :: kind :: args ->
        let p = lp () in
        let out =
          match kind, args with
          | "setbasis", [loaded; r; c] ->
            (match Model.sp_setBasis p (loaded = "1") (vsl r) (vsl c) with
             | None -> "exc=1"
             | Some st ->
               let (gr, gc) = Model.sp_getBasis p st in
               let m = List.length p.Model.b_rows and n = List.length p.Model.b_cols in
               let pr = List.init m (fun i -> Model.sp_rowStatus p st (nat_of_int i)) in
               let pc = List.init n (fun j -> Model.sp_colStatus p st (nat_of_int j)) in
               let d = match st with
                 | Model.Inside d -> Printf.sprintf " drows=%s, dcols=%s," (str_ds d.Model.d_rows) (str_ds d.Model.d_cols)
                 | _ -> "" in
               Printf.sprintf "exc=0 has=%s rows=%s, cols=%s, prow=%s, pcol=%s, ind=%s;%s" (b (Model.sp_hasBasis st))
                 (str_vs gr) (str_vs gc) (str_vs pr) (str_vs pc) (str_ind (Model.sp_getBasisInd p st)) d)
          | "enum", [loaded; rowrep; al] ->
            (* every status array over the alphabet, in the order of the harness (last position fastest) *)
            let m = List.length p.Model.b_rows and n = List.length p.Model.b_cols in
            let len = m + n in
            let k = String.length al in
            let idx = Array.make len 0 in
            let fin = ref false in
            let buf = Buffer.create 65536 in
            while not !fin do
              let rs = String.init m (fun i -> al.[idx.(i)]) and cs = String.init n (fun j -> al.[idx.(m + j)]) in
              let r = List.map vs_of_char (explode rs) and c = List.map vs_of_char (explode cs) in
              let show x = if x = "" then "-" else x in
              Buffer.add_string buf (Printf.sprintf "E %s %s" (show rs) (show cs));
              (match Model.sp_setBasis p (loaded = "1") r c with
               | None -> Buffer.add_string buf " x=1"
               | Some st ->
                 let (gr, gc) = Model.sp_getBasis p st in
                 let pr = List.init m (fun i -> Model.sp_rowStatus p st (nat_of_int i)) in
                 let pc = List.init n (fun j -> Model.sp_colStatus p st (nat_of_int j)) in
                 Buffer.add_string buf (Printf.sprintf " x=0 h=%s g=%s,%s p=%s,%s i=%s" (b (Model.sp_hasBasis st))
                                          (str_vs gr) (str_vs gc) (str_vs pr) (str_vs pc) (str_ind (Model.sp_getBasisInd p st)));
                 (match st with
                  | Model.Inside d -> Buffer.add_string buf (Printf.sprintf " d=%s,%s" (str_ds d.Model.d_rows) (str_ds d.Model.d_cols))
                  | _ -> ()));
              let (mr, mc) = Model.mark_fixed p r c in
              Buffer.add_string buf (Printf.sprintf " v=%s | vc=%s zf=%s mf=%s,%s\n" (b (Model.isBasisValid_rep (rowrep = "1") p r c))
                                       (b (Model.isBasisValid p r c)) (b (Model.zero_only_free p r c)) (str_vs mr) (str_vs mc));
              let j = ref (len - 1) in
              let carry = ref true in
              while !carry && !j >= 0 do
                idx.(!j) <- idx.(!j) + 1;
                if idx.(!j) = k then (idx.(!j) <- 0; decr j) else carry := false
              done;
              if !carry then fin := true
            done;
            print_string (Buffer.contents buf);
            "done"
          | "nobasis", [] ->
            let st = Model.NoBasis in
            let (gr, gc) = Model.sp_getBasis p st in
            let m = List.length p.Model.b_rows and n = List.length p.Model.b_cols in
            let pr = List.init m (fun i -> Model.sp_rowStatus p st (nat_of_int i)) in
            let pc = List.init n (fun j -> Model.sp_colStatus p st (nat_of_int j)) in
            Printf.sprintf "has=0 rows=%s, cols=%s, prow=%s, pcol=%s, ind=%s;" (str_vs gr) (str_vs gc) (str_vs pr) (str_vs pc)
              (str_ind (Model.sp_getBasisInd p st))
          | "valid", [rowrep; r; c] ->
            Printf.sprintf "valid=%s" (b (Model.isBasisValid_rep (rowrep = "1") p (vsl r) (vsl c)))
          | "markfixed", [r; c] ->
            let (mr, mc) = Model.mark_fixed p (vsl r) (vsl c) in
            Printf.sprintf "valid=%s zerofree=%s rows=%s, cols=%s," (b (Model.isBasisValid p (vsl r) (vsl c)))
              (b (Model.zero_only_free p (vsl r) (vsl c))) (str_vs mr) (str_vs mc)
          | "loaddesc", [r; c] ->
            let d = { Model.d_rows = dsl r; Model.d_cols = dsl c } in
            let o = Model.loadDesc p d in
            let o2 = Model.loadDesc_rowrep p d in
            Printf.sprintf "valid_in=%s valid_out=%s drows=%s, dcols=%s, rowrep_same=%s idem=%s" (b (Model.isDescValid p d))
              (b (Model.isDescValid p o)) (str_ds o.Model.d_rows) (str_ds o.Model.d_cols) (b (o = o2)) (b (Model.loadDesc p o = o))
          | "removed", [which; r; c; mask] ->
            (* SPxBasisBase::removedRows / removedCols: descriptor before, mask of removed entries (1 = removed) *)
            let d = { Model.d_rows = dsl r; Model.d_cols = dsl c } in
            let mk = List.map (fun ch -> ch = '1') (List.init (String.length mask) (String.get mask)) in
            (match (if which = "rows" then Model.removed_rows d mk else Model.removed_cols d mk) with
             | None -> "dropped"
             | Some o -> Printf.sprintf "kept drows=%s, dcols=%s," (str_ds o.Model.d_rows) (str_ds o.Model.d_cols))
          | "added", [which; r; c] ->
            (* SPxBasisBase::addedRows / addedCols: descriptor before; the LP of this block is the LP after the addition *)
            let d = { Model.d_rows = dsl r; Model.d_cols = dsl c } in
            let o = if which = "rows" then Model.added_rows p d else Model.added_cols p d in
            Printf.sprintf "kept drows=%s, dcols=%s," (str_ds o.Model.d_rows) (str_ds o.Model.d_cols)
          | "removed1", [which; r; c; idx] ->
            let d = { Model.d_rows = dsl r; Model.d_cols = dsl c } in
            let k = nat_of_int (int_of_string idx) in
            (match (if which = "rows" then Model.removed_row d k else Model.removed_col d k) with
             | None -> "dropped"
             | Some o -> Printf.sprintf "kept drows=%s, dcols=%s," (str_ds o.Model.d_rows) (str_ds o.Model.d_cols))
          | "descvalid", [r; c] ->
            let d = { Model.d_rows = dsl r; Model.d_cols = dsl c } in
            Printf.sprintf "valid=%s freeok=%s" (b (Model.isDescValid p d)) (b (Model.free_ok p d))
          | "write", [r; c; use; cpx] ->
            (* kernel SPxBasisBase::writeBasis with explicit names (user or default) and the format flag *)
            let d = { Model.d_rows = dsl r; Model.d_cols = dsl c } in
            let (urn, ucn) = names use in
            let m = nat_of_int (List.length p.Model.b_rows) and n = nat_of_int (List.length p.Model.b_cols) in
            let rnl = match urn with Some l -> l | None -> Model.default_names (coq_string "C") m in
            let cnl = match ucn with Some l -> l | None -> Model.default_names (coq_string "x") n in
            "recs=" ^ str_recs (Model.writeBasis p d rnl cnl (cpx = "1")) ^ ";"
          | "writefile", [r; c; use; cpx] ->
            let d = { Model.d_rows = dsl r; Model.d_cols = dsl c } in
            let (urn, ucn) = names use in
            "recs=" ^ str_recs (Model.writeBasisFile p d urn ucn (cpx = "1")) ^ ";"
          | "writeout", [r; c; use; cpx] ->
            let (urn, ucn) = names use in
            "recs=" ^ str_recs (Model.writeBasisFileOutside p (vsl r) (vsl c) urn ucn (cpx = "1")) ^ ";"
          | "read", [use; mode; recs] ->
            let (urn, ucn) = names use in
            let res = if mode = "impl" then Model.readBasisFile p urn ucn (recs_of recs)
              else Model.readBasisFile_intended p urn ucn (recs_of recs) in
            (match res with
             | None -> "ok=0"
             | Some d ->
               let (gr, gc) = Model.getBasis d in
               Printf.sprintf "ok=1 drows=%s, dcols=%s, rows=%s, cols=%s," (str_ds d.Model.d_rows) (str_ds d.Model.d_cols)
                 (str_vs gr) (str_vs gc))
          | _ -> "badquery" in
        Printf.printf "A %s %s %s\n" tag kind out
      | _ -> ())
    lines
