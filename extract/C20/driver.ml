(* C20 model runner.  Input: one line per C call, built by checks/C20.py from the harness transcript:
     <op> pre=<rows,cols,hassol,hasrat,scaled,ratcols,ratrows> rowlen=<k> strlen=<k> args=<raw arguments as echoed by the harness>
   Output: one line per call
     pred=<the converted C++ arguments as the C object must hold them> wr=<caller arrays written> fpok= dimsok= strok= same=
   The conversions and footprints are the extracted Coq functions (module Model); this file only parses and prints. *)
open Zutil

let qz (n : Z.t) (d : Z.t) : Model.q = { Model.qnum = z_of_zarith n; Model.qden = pos_of_zarith d }

(* exact dyadic "m:e" -> Q *)
let q_of_dy (t : string) : Model.q =
  match String.split_on_char ':' t with
  | [m; e] ->
    let m = Z.of_string m and e = int_of_string e in
    if e >= 0 then qz (Z.shift_left m e) Z.one else qz m (Z.shift_left Z.one (-e))
  | _ -> failwith ("bad dyadic " ^ t)

(* Q -> canonical dyadic token (the denominator is a power of two by construction) *)
let dy_of_q (q : Model.q) : string =
  let n = zarith_of_z q.Model.qnum and d = zarith_of_pos q.Model.qden in
  if Z.sign n = 0 then "0:0"
  else begin
    let g = Z.gcd n d in
    let n = ref (Z.div n g) and d = ref (Z.div d g) and e = ref 0 in
    while Z.gt !d Z.one do
      if not (Z.is_even !d) then failwith "not dyadic";
      d := Z.shift_right !d 1; decr e
    done;
    if !e = 0 then while Z.is_even !n do n := Z.shift_right !n 1; incr e done;
    Z.to_string !n ^ ":" ^ string_of_int !e
  end

(* canonical rational -> "n/d" or "n" (mpq_get_str) *)
let rat_str (q : Model.q) : string =
  let n = zarith_of_z q.Model.qnum and d = zarith_of_pos q.Model.qden in
  if Z.equal d Z.one then Z.to_string n else Z.to_string n ^ "/" ^ Z.to_string d

let split c s = if s = "" then [] else String.split_on_char c s
let qlist s = List.map q_of_dy (split ',' s)
let zlist s = List.map z_of_string (split ',' s)
let nat s = nat_of_int (int_of_string s)

let field key toks =
  let p = key ^ "=" in
  let n = String.length p in
  match List.find_opt (fun t -> String.length t >= n && String.sub t 0 n = p) toks with
  | Some t -> String.sub t n (String.length t - n)
  | None -> ""

let svec_str f (v : (Model.nat * Model.q) list) =
  let es = List.map (fun (i, x) -> (int_of_nat i, f x)) v in
  let es = List.sort compare es in
  String.concat "," (List.map (fun (i, s) -> string_of_int i ^ "~" ^ s) es)

let vec_str f v = String.concat "," (List.map f v)

let parse_call (op : string) (args : string) : Model.c_call option =
  let parts = String.split_on_char ';' args in
  let hd = match parts with h :: _ -> split ',' h | [] -> [] in
  let part k = match List.nth_opt parts k with Some s -> s | None -> "" in
  let h k = List.nth hd k in
  let open Model in
  try
    Some (match op with
        | "clearLPReal" -> CClearLPReal | "numRows" -> CNumRows | "numCols" -> CNumCols | "setRational" -> CSetRational
        | "setBoolParam" -> CSetBoolParam (z_of_string (h 0), z_of_string (h 1))
        | "setIntParam" -> CSetIntParam (z_of_string (h 0), z_of_string (h 1))
        | "setRealParam" -> CSetRealParam (z_of_string (h 0), q_of_dy (h 1))
        | "getIntParam" -> CGetIntParam (z_of_string (h 0))
        | "addColReal" -> CAddColReal (qlist (part 1), nat (h 0), z_of_string (h 1), q_of_dy (h 2), q_of_dy (h 3), q_of_dy (h 4))
        | "addRowReal" -> CAddRowReal (qlist (part 1), nat (h 0), z_of_string (h 1), q_of_dy (h 2), q_of_dy (h 3))
        | "addColRational" ->
          CAddColRational (zlist (part 1), zlist (part 2), nat (h 0), z_of_string (h 1), z_of_string (h 2), z_of_string (h 3),
                           z_of_string (h 4), z_of_string (h 5), z_of_string (h 6), z_of_string (h 7))
        | "addRowRational" ->
          CAddRowRational (zlist (part 1), zlist (part 2), nat (h 0), z_of_string (h 1), z_of_string (h 2), z_of_string (h 3),
                           z_of_string (h 4), z_of_string (h 5))
        | "removeColReal" -> CRemoveColReal (z_of_string (h 0))
        | "removeRowReal" -> CRemoveRowReal (z_of_string (h 0))
        | "getPrimalReal" -> CGetPrimalReal (nat (h 0))
        | "getDualReal" -> CGetDualReal (nat (h 0))
        | "getRedCostReal" -> CGetRedCostReal (nat (h 0))
        | "getPrimalRationalString" -> CGetPrimalRationalString (nat (h 0))
        | "optimize" -> COptimize | "getStatus" -> CGetStatus | "getSolvingTime" -> CGetSolvingTime
        | "getNumIterations" -> CGetNumIterations | "objValueReal" -> CObjValueReal
        | "objValueRationalString" -> CObjValueRationalString
        | "changeObjReal" -> CChangeObjReal (qlist (part 1), nat (h 0))
        | "changeLhsReal" -> CChangeLhsReal (qlist (part 1), nat (h 0))
        | "changeRhsReal" -> CChangeRhsReal (qlist (part 1), nat (h 0))
        | "changeLowerReal" -> CChangeLowerReal (qlist (part 1), nat (h 0))
        | "changeUpperReal" -> CChangeUpperReal (qlist (part 1), nat (h 0))
        | "changeRangeReal" -> CChangeRangeReal (qlist (part 1), qlist (part 2), nat (h 0))
        | "changeBoundsReal" -> CChangeBoundsReal (qlist (part 1), qlist (part 2), nat (h 0))
        | "changeObjRational" -> CChangeObjRational (zlist (part 1), zlist (part 2), nat (h 0))
        | "changeLhsRational" -> CChangeLhsRational (zlist (part 1), zlist (part 2), nat (h 0))
        | "changeRhsRational" -> CChangeRhsRational (zlist (part 1), zlist (part 2), nat (h 0))
        | "changeRowLhsReal" -> CChangeRowLhsReal (z_of_string (h 0), q_of_dy (h 1))
        | "changeRowRhsReal" -> CChangeRowRhsReal (z_of_string (h 0), q_of_dy (h 1))
        | "changeRowRangeReal" -> CChangeRowRangeReal (z_of_string (h 0), q_of_dy (h 1), q_of_dy (h 2))
        | "changeVarBoundsReal" -> CChangeVarBoundsReal (z_of_string (h 0), q_of_dy (h 1), q_of_dy (h 2))
        | "changeVarLowerReal" -> CChangeVarLowerReal (z_of_string (h 0), q_of_dy (h 1))
        | "changeVarUpperReal" -> CChangeVarUpperReal (z_of_string (h 0), q_of_dy (h 1))
        | "changeVarBoundsRational" ->
          CChangeVarBoundsRational (z_of_string (h 0), z_of_string (h 1), z_of_string (h 2), z_of_string (h 3), z_of_string (h 4))
        | "getLowerReal" -> CGetLowerReal (nat (h 0))
        | "getUpperReal" -> CGetUpperReal (nat (h 0))
        | "getObjReal" -> CGetObjReal (nat (h 0))
        | "basisRowStatus" -> CBasisRowStatus (z_of_string (h 0))
        | "basisColStatus" -> CBasisColStatus (z_of_string (h 0))
        | "getRowVectorReal" -> CGetRowVectorReal (z_of_string (h 0))
        | "getRowVectorRational" -> CGetRowVectorRational (z_of_string (h 0))
        | "getRowBoundsReal" -> CGetRowBoundsReal (z_of_string (h 0))
        | "getRowBoundsRational" -> CGetRowBoundsRational (z_of_string (h 0))
        | "writeFileReal" -> CWriteFileReal Model.Z0
        | "readInstanceFile" -> CReadInstanceFile Model.Z0
        | "readSettingsFile" -> CReadSettingsFile Model.Z0
        | "readBasisFile" -> CReadBasisFile Model.Z0
        | _ -> raise Not_found)
  with _ -> None

(* the converted arguments, printed like the harness prints what the C object holds afterwards *)
let pred_of (ops : Model.cpp_op list) : string =
  let open Model in
  match ops with
  | [XAddColReal (obj, v, up, lo)] ->
    "obj=" ^ dy_of_q obj ^ ";lo=" ^ dy_of_q lo ^ ";up=" ^ dy_of_q up ^ ";vec=" ^ svec_str dy_of_q v
  | [XAddRowReal (lhs, v, rhs)] -> "lhs=" ^ dy_of_q lhs ^ ";rhs=" ^ dy_of_q rhs ^ ";vec=" ^ svec_str dy_of_q v
  | [XAddColRational (obj, v, up, lo)] ->
    "obj=" ^ rat_str obj ^ ";lo=" ^ rat_str lo ^ ";up=" ^ rat_str up ^ ";vec=" ^ svec_str rat_str v
  | [XAddRowRational (lhs, v, rhs)] -> "lhs=" ^ rat_str lhs ^ ";rhs=" ^ rat_str rhs ^ ";vec=" ^ svec_str rat_str v
  | [XChangeObjReal v] | [XChangeLhsReal v] | [XChangeRhsReal v] | [XChangeLowerReal v] | [XChangeUpperReal v] ->
    "v=" ^ vec_str dy_of_q v
  | [XChangeRangeReal (a, b)] | [XChangeBoundsReal (a, b)] -> "v=" ^ vec_str dy_of_q a ^ ";w=" ^ vec_str dy_of_q b
  | [XChangeObjRational v] | [XChangeLhsRational v] | [XChangeRhsRational v] -> "v=" ^ vec_str rat_str v
  | [XChangeLhsRealI (_, v)] | [XChangeRhsRealI (_, v)] | [XChangeLowerRealI (_, v)] | [XChangeUpperRealI (_, v)] -> "v=" ^ dy_of_q v
  | [XChangeRangeRealI (_, a, b)] | [XChangeBoundsRealI (_, a, b)] -> "v=" ^ dy_of_q a ^ ";w=" ^ dy_of_q b
  | [XChangeBoundsRationalI (_, a, b)] -> "v=" ^ rat_str a ^ ";w=" ^ rat_str b
  | [XSetBoolParam (code, b)] -> "bool=" ^ string_of_z code ^ "," ^ (if b then "1" else "0")
  | XSetIntParam (c1, v1) :: XSetIntParam (c2, v2) :: XSetIntParam (c3, v3) :: XSetIntParam (c4, v4) :: _ ->
    "codes=" ^ String.concat "," (List.map string_of_z [c1; v1; c2; v2; c3; v3; c4; v4])
  | _ -> "-"

let range_str (l : int list) =
  match l with
  | [] -> "none"
  | x :: _ ->
    let rec contig prev = function [] -> true | y :: tl -> y = prev + 1 && contig y tl in
    if contig x (List.tl l) then string_of_int x ^ "-" ^ string_of_int (List.nth l (List.length l - 1) + 1)
    else String.concat "+" (List.map string_of_int l)

(* writes to caller arrays, merged per argument *)
let wr_of (fp : Model.access list) (c : Model.c_call) : string =
  let tbl = Hashtbl.create 8 in
  List.iter (fun a ->
      match a.Model.a_buf with
      | Model.BArg k when a.Model.a_wr ->
        let k = int_of_nat k in
        let cur = try Hashtbl.find tbl k with Not_found -> [] in
        Hashtbl.replace tbl k (cur @ List.map int_of_nat a.Model.a_idx)
      | _ -> ()) fp;
  let keys = List.sort compare (Hashtbl.fold (fun k _ acc -> k :: acc) tbl []) in
  let always_listed = match c with
    | Model.CGetPrimalReal _ | Model.CGetDualReal _ | Model.CGetRedCostReal _ -> [0]
    | _ -> [] in
  let keys = List.sort_uniq compare (keys @ always_listed) in
  if keys = [] then "-"
  else String.concat ";" (List.map (fun k ->
      let l = try List.sort_uniq compare (Hashtbl.find tbl k) with Not_found -> [] in
      string_of_int k ^ ":" ^ range_str l) keys)

let b2s b = if b then "1" else "0"

let () =
  let lines = read_lines (open_in Sys.argv.(1)) in
  List.iter (fun l ->
      let toks = split_ws l in
      match toks with
      | [] -> ()
      | "CASE" :: id :: _ -> Printf.printf "CASE %s\n" id
      | op :: rest ->
        let pre = List.map int_of_string (split ',' (field "pre" rest)) in
        let g k = try List.nth pre k with _ -> 0 in
        let ival key = let s = field key rest in if s = "" then 0 else int_of_string s in
        let d = { Model.d_rows = nat_of_int (g 0); Model.d_cols = nat_of_int (g 1); Model.d_hassol = g 2 = 1;
                  Model.d_hasrat = g 3 = 1; Model.d_scaled = g 4 = 1; Model.d_ratcols = nat_of_int (g 5);
                  Model.d_rowlen = nat_of_int (ival "rowlen"); Model.d_strlen = nat_of_int (ival "strlen") } in
        (* the rational row getter addresses the rational LP: its arrays have numColsRational elements *)
        let d = if op = "getRowVectorRational" then { d with Model.d_cols = nat_of_int (g 5) } else d in
        (match parse_call op (field "args" rest) with
         | None -> Printf.printf "%s unmodelled\n" op
         | Some c ->
           let calls = Model.c20_calls c in
           let same = calls = Model.c20_intended c in
           let pred = match calls with Some ops -> pred_of ops | None -> "throws" in
           let fp = Model.footprint c d in
           Printf.printf "%s pred=%s wr=%s fpok=%s dimsok=%s strok=%s valid=%s same=%s\n" op pred (wr_of fp c)
             (b2s (Model.footprint_ok c d)) (b2s (Model.dims_ok c d)) (b2s (Model.ret_string_ok c d))
             (b2s (Model.valid_call c)) (b2s same)))
    lines
