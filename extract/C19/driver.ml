(* C19 model runner: reads the same case file as harness/C19.cpp and prints the same observation lines.
   All semantics live in the extracted module Model; this file only parses operations and prints states. *)
open Zutil

let zi = z_of_int
let iz = int_of_z
let ints l = List.map (fun s -> zi (int_of_string s)) l
let clist f l = String.concat "" (List.map (fun x -> f x ^ ",") l)
let zs = string_of_z

type machine = { init : string list -> string; op : string list -> string }

(* ---------------------------------------------------------------- DataSet<int> / ClassSet<Elem> *)
let set_machine (probe : bool) : machine =
  let d0 = Model.Z0 in
  let st = ref (Model.ds_init d0 (zi 8)) in
  let dump () =
    let s = !st in
    let num = iz s.Model.thenum and size = iz s.Model.thesize in
    let abs = Model.ds_abs d0 s in
    let slot f = String.concat "" (List.init size (fun i ->
        let k = zi i in
        if Model.ds_has_key s k then f k ^ "," else "x,")) in
    ignore num;
    Printf.sprintf "num=%s max=%s size=%s keys=%s elems=%s slots=%s bykey=%s free=%s%s"
      (zs s.Model.thenum) (zs s.Model.themax) (zs s.Model.thesize)
      (clist (fun (k, _) -> zs k) abs) (clist (fun (_, e) -> zs e) abs)
      (slot (fun k -> match Model.ds_number s k with Some n -> zs n | None -> "?"))
      (slot (fun k -> zs (Model.getn d0 s.Model.data k)))
      (clist zs (Model.ds_free s)) (if probe then " raw=0 ovf=0" else "") in
  let init t =
    st := Model.ds_init d0 (zi (match t with _ :: _ :: _ :: m :: _ -> int_of_string m | _ -> 8));
    dump () in
  let op t =
    let c = List.hd t and a = List.tl t in
    let o = match c, a with
      | "add", [v] -> Some (Model.OAdd (zi (int_of_string v)))
      | "addn", vs -> Some (Model.OAddMany (ints vs))
      | "rm", [n] -> Some (Model.ORemove (zi (int_of_string n)))
      | "rmk", [k] -> Some (Model.ORemoveKey (zi (int_of_string k)))
      | "rmp", vs -> Some (Model.ORemovePerm (ints vs))
      | "rmn", vs -> Some (Model.ORemoveNums (ints vs))
      | "rmkn", vs -> Some (Model.ORemoveKeys (ints vs))
      | "clear", [] -> Some Model.OClear
      | "remax", [m] -> Some (Model.OReMax (zi (int_of_string m)))
      | "set", [n; v] -> Some (Model.OSet (zi (int_of_string n), zi (int_of_string v)))
      | "copy", [] -> Some Model.OCopy
      | "assign", [m] -> Some (Model.OAssign (zi (int_of_string m)))
      | _ -> None in
    match o with
    | None -> c ^ " ret=unknown " ^ dump ()
    | Some o ->
      let (s', r) = Model.ds_step d0 !st o in
      st := s';
      let ret = match r with
        | Model.RNone -> "-" | Model.RSkip -> "skip" | Model.RExc -> "exc"
        | Model.RKey k -> "key:" ^ zs k
        | Model.RKeys ks -> "keys:" ^ clist zs ks
        | Model.RPerm p -> "perm:" ^ clist zs p in
      c ^ " ret=" ^ ret ^ " " ^ dump () in
  { init; op }

(* ---------------------------------------------------------------- exact values *)
let q_of_tok t : Model.q =
  match String.split_on_char '/' t with
  | [n; d] -> { Model.qnum = z_of_string n; Model.qden = pos_of_zarith (Z.of_string d) }
  | [n] -> { Model.qnum = z_of_string n; Model.qden = Model.XH }
  | _ -> failwith ("bad rational " ^ t)
let qs (x : Model.q) =
  let r = Model.qred x in
  string_of_z r.Model.qnum ^ "/" ^ Z.to_string (zarith_of_pos r.Model.qden)
let qzero = q_of_tok "0/1"
let is_zero (x : Model.q) = (Model.qred x).Model.qnum = Model.Z0
let n_of_int = nat_of_int
let svs_str (v : Model.svec) = String.concat "" (List.map (fun (i, x) -> string_of_int (int_of_nat i) ^ ":" ^ qs x ^ ";") v)
(* the value of the double 1e-16 (Tolerances::epsilon()) *)
let eps = q_of_tok "2028240960365167/20282409603651670423947251286016"

(* ---------------------------------------------------------------- vectors: register machine *)
let vec_machine (rational : bool) : machine =
  (* SSVectorBase<Rational>::assign(SVectorBase<Rational>) is specialised: it tests v == 0 instead of |v| <= epsilon *)
  let eps_assign = if rational then qzero else eps in
  let d = Array.make 2 [] and sv = Array.make 2 [] and x = Array.make 2 (Model.ss_new Model.O) in
  let dump () =
    let b = Buffer.create 256 in
    Array.iteri (fun r v -> Buffer.add_string b (Printf.sprintf "D%d=%s " r (clist qs v))) d;
    Array.iteri (fun r v -> Buffer.add_string b (Printf.sprintf "S%d=%s " r (svs_str v))) sv;
    Array.iteri (fun r (v : Model.ssvec) ->
        Buffer.add_string b (Printf.sprintf "X%d=%s:%s:%s " r (if v.Model.ss_setup then "S" else "U")
                               (clist qs v.Model.ss_val)
                               (if v.Model.ss_setup then clist (fun i -> string_of_int (int_of_nat i)) v.Model.ss_idx else ""))) x;
    Buffer.contents b in
  let init t =
    let n = match t with _ :: _ :: _ :: m :: _ -> int_of_string m | _ -> 4 in
    for r = 0 to 1 do
      d.(r) <- Model.dv_zero (n_of_int n); sv.(r) <- []; x.(r) <- Model.ss_new (n_of_int n)
    done;
    dump () in
  let reg s = Char.code s.[1] - Char.code '0' in
  let dim v = List.length v in
  let xdim (v : Model.ssvec) = List.length v.Model.ss_val in
  let in_dim (v : Model.svec) n = List.for_all (fun (i, _) -> int_of_nat i < n) v in
  let sorted_strict (v : Model.svec) =
    let rec go = function (a, _) :: ((b, _) :: _ as r) -> int_of_nat a < int_of_nat b && go r | _ -> true in go v in
  let op t =
    let c = List.hd t in
    let a k = List.nth t k in
    let ai k = int_of_string (a k) in
    let ret = ref "-" in
    let skip = ref false in
    let guard b f = if b then f () else skip := true in
    (match c with
     | "dset" -> let r = reg (a 1) in guard (ai 2 >= 0 && ai 2 < dim d.(r)) (fun () -> d.(r) <- Model.dv_set d.(r) (n_of_int (ai 2)) (q_of_tok (a 3)))
     | "dclear" -> let r = reg (a 1) in d.(r) <- Model.dv_clear d.(r)
     | "dadd" -> let r = reg (a 1) and e = reg (a 2) in guard (dim d.(r) = dim d.(e)) (fun () -> d.(r) <- Model.dv_add d.(r) d.(e))
     | "dsub" -> let r = reg (a 1) and e = reg (a 2) in guard (dim d.(r) = dim d.(e)) (fun () -> d.(r) <- Model.dv_sub d.(r) d.(e))
     | "ddot" -> let r = reg (a 1) and e = reg (a 2) in guard (dim d.(r) = dim d.(e)) (fun () -> ret := qs (Model.dv_dot d.(r) d.(e)))
     | "dmadd" -> let r = reg (a 1) and e = reg (a 3) in guard (dim d.(r) = dim d.(e)) (fun () -> d.(r) <- Model.dv_multadd (q_of_tok (a 2)) d.(e) d.(r))
     | "dscale" -> let r = reg (a 1) in d.(r) <- Model.dv_scale (q_of_tok (a 2)) d.(r)
     | "dmaxabs" -> let r = reg (a 1) in guard (dim d.(r) > 0) (fun () -> ret := qs (Model.dv_maxabs d.(r)))
     | "dminabs" -> let r = reg (a 1) in guard (dim d.(r) > 0) (fun () -> match Model.dv_minabs d.(r) with Some m -> ret := qs m | None -> ())
     | "dlen2" -> ret := qs (Model.dv_length2 d.(reg (a 1)))
     | "dredim" -> let r = reg (a 1) in guard (ai 2 >= 0) (fun () -> d.(r) <- Model.dv_redim (n_of_int (ai 2)) d.(r))
     | "daddsv" | "dsubsv" | "dassignsv" | "dsetsv" | "ddotsv" | "sdotd" ->
       let r = reg (a (if c = "sdotd" then 2 else 1)) and s = reg (a (if c = "sdotd" then 1 else 2)) in
       guard (in_dim sv.(s) (dim d.(r))) (fun () ->
           match c with
           | "daddsv" -> d.(r) <- Model.dv_add_sv sv.(s) d.(r)
           | "dsubsv" -> d.(r) <- Model.dv_sub_sv sv.(s) d.(r)
           | "dassignsv" -> d.(r) <- Model.dv_assign_sv sv.(s) d.(r)
           | "dsetsv" -> d.(r) <- Model.dv_set_sv sv.(s) d.(r)
           | _ -> ret := qs (Model.sv_dot_dv sv.(s) d.(r)))
     | "dmaddsv" | "dmsubsv" ->
       let r = reg (a 1) and s = reg (a 3) in
       guard (in_dim sv.(s) (dim d.(r))) (fun () ->
           d.(r) <- (if c = "dmaddsv" then Model.dv_multadd_sv else Model.dv_multsub_sv) (q_of_tok (a 2)) sv.(s) d.(r))
     | "daddss" | "dsubss" | "ddotss" | "dsetss" | "dassignss" ->
       let r = reg (a 1) and y = reg (a 2) in
       guard (dim d.(r) = xdim x.(y) && (c <> "dassignss" || x.(y).Model.ss_setup)) (fun () ->
           match c with
           | "daddss" -> d.(r) <- Model.dv_add_ss x.(y) d.(r)
           | "dsubss" -> d.(r) <- Model.dv_sub_ss x.(y) d.(r)
           | "ddotss" -> ret := qs (Model.dv_dot_ss d.(r) x.(y))
           | "dsetss" -> d.(r) <- Model.dv_set_ss x.(y) d.(r)
           | _ -> d.(r) <- Model.dv_assign_sv (Model.ss_entries x.(y)) d.(r))
     | "dmaddss" -> let r = reg (a 1) and y = reg (a 3) in
       guard (dim d.(r) = xdim x.(y)) (fun () -> d.(r) <- Model.dv_multadd_ss (q_of_tok (a 2)) x.(y) d.(r))
     | "sadd" -> let s = reg (a 1) in guard (ai 2 >= 0) (fun () -> sv.(s) <- Model.sv_add (n_of_int (ai 2)) (q_of_tok (a 3)) sv.(s))
     | "saddn" ->
       let s = reg (a 1) in
       let rec es = function i :: v :: r -> (n_of_int (int_of_string i), q_of_tok v) :: es r | _ -> [] in
       sv.(s) <- Model.sv_add_list (es (List.tl (List.tl t))) sv.(s)
     | "srm" -> let s = reg (a 1) in guard (ai 2 >= 0 && ai 2 < List.length sv.(s)) (fun () -> sv.(s) <- Model.sv_remove (n_of_int (ai 2)) sv.(s))
     | "srmr" | "srmrs" ->
       let s = reg (a 1) in let n = ai 2 and m = ai 3 in
       guard (0 <= n && n <= m && m < List.length sv.(s) && (c = "srmr" || m < List.length sv.(s) - 1)) (fun () ->
           sv.(s) <- Model.sv_remove_range (n_of_int n) (n_of_int m) sv.(s))
     | "sclear" -> sv.(reg (a 1)) <- []
     | "sscale" -> let s = reg (a 1) in guard (not (is_zero (q_of_tok (a 2)))) (fun () -> sv.(s) <- Model.sv_scale (q_of_tok (a 2)) sv.(s))
     | "ssort" -> let s = reg (a 1) in sv.(s) <- Model.sv_sort sv.(s)
     | "sassign" -> let s = reg (a 1) and u = reg (a 2) in guard (s <> u) (fun () -> sv.(s) <- Model.sv_assign sv.(u))
     | "sappend" -> let s = reg (a 1) and u = reg (a 2) in guard (s <> u) (fun () -> sv.(s) <- Model.sv_add_list sv.(u) sv.(s))
     | "sfromd" -> sv.(reg (a 1)) <- Model.sv_of_dv d.(reg (a 2))
     | "sfromss" -> let y = reg (a 2) in guard x.(y).Model.ss_setup (fun () -> sv.(reg (a 1)) <- Model.sv_of_ss x.(y))
     | "sdot" -> let s = reg (a 1) and u = reg (a 2) in
       guard (sorted_strict sv.(s) && sorted_strict sv.(u)) (fun () -> ret := qs (Model.sv_dot_sv sv.(s) sv.(u)))
     | "smaxabs" -> ret := qs (Model.sv_maxabs sv.(reg (a 1)))
     | "sminabs" -> let s = reg (a 1) in guard (sv.(s) <> []) (fun () -> match Model.sv_minabs sv.(s) with Some m -> ret := qs m | None -> ())
     | "slen2" -> ret := qs (Model.sv_length2 sv.(reg (a 1)))
     | "sdim" -> ret := string_of_int (int_of_nat (Model.sv_dim sv.(reg (a 1))))
     | "spos" -> ret := (if ai 2 < 0 then "-1" else match Model.sv_pos sv.(reg (a 1)) (n_of_int (ai 2)) with Some p -> string_of_int (int_of_nat p) | None -> "-1")
     | "sget" -> ret := (if ai 2 < 0 then qs qzero else qs (Model.sv_get sv.(reg (a 1)) (n_of_int (ai 2))))
     | "stimes" -> let s = reg (a 1) and u = reg (a 2) in guard (s <> u) (fun () -> sv.(s) <- Model.sv_assign (Model.sv_times sv.(u) (q_of_tok (a 3))))
     | "sunit" -> guard (ai 2 >= 0) (fun () -> sv.(reg (a 1)) <- Model.sv_unit (n_of_int (ai 2)))
     | "xset" -> let r = reg (a 1) in guard (ai 2 >= 0 && ai 2 < xdim x.(r)) (fun () -> x.(r) <- Model.ss_setvalue eps (n_of_int (ai 2)) (q_of_tok (a 3)) x.(r))
     | "xadd" ->
       let r = reg (a 1) in let i = ai 2 in
       guard (i >= 0 && i < xdim x.(r) && x.(r).Model.ss_setup && is_zero (Model.dv_get x.(r).Model.ss_val (n_of_int i))
              && not (List.exists (fun k -> int_of_nat k = i) x.(r).Model.ss_idx))
         (fun () -> x.(r) <- Model.ss_add (n_of_int i) (q_of_tok (a 3)) x.(r))
     | "xclearidx" -> let r = reg (a 1) in guard (ai 2 >= 0 && ai 2 < xdim x.(r)) (fun () -> x.(r) <- Model.ss_clearidx (n_of_int (ai 2)) x.(r))
     | "xclearnum" -> let r = reg (a 1) in
       guard (x.(r).Model.ss_setup && ai 2 >= 0 && ai 2 < List.length x.(r).Model.ss_idx) (fun () -> x.(r) <- Model.ss_clearnum (n_of_int (ai 2)) x.(r))
     | "xclear" -> let r = reg (a 1) in x.(r) <- Model.ss_clear x.(r)
     | "xsetup" -> let r = reg (a 1) in x.(r) <- Model.ss_do_setup eps x.(r)
     | "xunsetup" -> let r = reg (a 1) in x.(r) <- Model.ss_unsetup x.(r)
     | "xscale" -> let r = reg (a 1) in guard (x.(r).Model.ss_setup && not (is_zero (q_of_tok (a 2)))) (fun () -> x.(r) <- Model.ss_scale (q_of_tok (a 2)) x.(r))
     | "xadddv" | "xsubdv" | "xmadddv" ->
       let r = reg (a 1) and e = reg (a (if c = "xmadddv" then 3 else 2)) in
       guard (xdim x.(r) = dim d.(e)) (fun () ->
           x.(r) <- (match c with
               | "xadddv" -> Model.ss_add_dv eps d.(e) x.(r)
               | "xsubdv" -> Model.ss_sub_dv eps d.(e) x.(r)
               | _ -> Model.ss_multadd_dv eps (q_of_tok (a 2)) d.(e) x.(r)))
     | "xaddsv" | "xsubsv" | "xsetsv" | "xmaddsv" ->
       let r = reg (a 1) and s = reg (a (if c = "xmaddsv" then 3 else 2)) in
       let nodup (v : Model.svec) = let ix = List.map (fun (i, _) -> int_of_nat i) v in List.length (List.sort_uniq compare ix) = List.length ix in
       let indexed = c <> "xmaddsv" || not x.(r).Model.ss_setup ||
                     List.for_all (fun i -> is_zero (Model.dv_get x.(r).Model.ss_val (n_of_int i)) ||
                                            List.exists (fun k -> int_of_nat k = i) x.(r).Model.ss_idx)
                       (List.init (xdim x.(r)) (fun i -> i)) in
       guard (in_dim sv.(s) (xdim x.(r)) && ((c <> "xsetsv" && c <> "xmaddsv") || nodup sv.(s)) && indexed) (fun () ->
           x.(r) <- (match c with
               | "xaddsv" -> Model.ss_add_sv eps sv.(s) x.(r)
               | "xsubsv" -> Model.ss_sub_sv eps sv.(s) x.(r)
               | "xsetsv" -> Model.ss_set_sv eps_assign sv.(s) x.(r)
               | _ -> Model.ss_multadd_sv eps (q_of_tok (a 2)) sv.(s) x.(r)))
     | "xaddss" | "xsubss" | "xdot" | "xassign" ->
       let r = reg (a 1) and y = reg (a 2) in
       guard (r <> y && xdim x.(r) = xdim x.(y) && (c = "xsubss" || c = "xassign" || x.(y).Model.ss_setup)) (fun () ->
           match c with
           | "xaddss" -> x.(r) <- Model.ss_add_ss eps x.(y) x.(r)
           | "xsubss" -> x.(r) <- Model.ss_sub_ss eps x.(y) x.(r)
           | "xdot" -> x.(r) <- Model.ss_do_setup eps x.(r); ret := qs (Model.ss_dot_ss x.(r) x.(y))
           | _ -> x.(r) <- Model.ss_assign_ss eps x.(y) x.(r))
     | "xredim" -> let r = reg (a 1) in guard (ai 2 >= 1) (fun () -> x.(r) <- Model.ss_redim (n_of_int (ai 2)) x.(r))
     | _ -> ret := "unknown");
    c ^ " ret=" ^ (if !skip then "skip" else !ret) ^ " " ^ dump () in
  { init; op }

(* ---------------------------------------------------------------- SVSet / LPRowSet / LPColSet *)
let vset_machine (nscal : int) : machine =
  let d0 : Model.q list * Model.svec = ([], []) in
  let st = ref (Model.ds_init d0 (zi 8)) in
  let dump () =
    let s = !st in
    let size = iz s.Model.thesize in
    let abs = Model.ds_abs d0 s in
    Printf.sprintf "num=%s max=%s keys=%s slots=%s vecs=%s bykey=%s"
      (zs s.Model.thenum) (zs s.Model.themax) (clist (fun (k, _) -> zs k) abs)
      (String.concat "" (List.init size (fun i -> if Model.ds_has_key s (zi i) then
                                                  (match Model.ds_number s (zi i) with Some n -> zs n | None -> "?") ^ "," else "x,")))
      (String.concat "" (List.map (fun (_, (sc, v)) -> clist qs sc ^ svs_str v ^ "|") abs))
      (String.concat "" (List.init size (fun i -> if Model.ds_has_key s (zi i) then
                                                  svs_str (snd (Model.getn d0 s.Model.data (zi i))) ^ "|" else "x|"))) in
  let init t =
    let m = match t with _ :: _ :: _ :: m :: _ -> int_of_string m | _ -> 2 in
    st := Model.ds_init d0 (zi (if m > 0 then m else 8));
    dump () in
  let rec entries = function i :: v :: r -> (n_of_int (int_of_string i), q_of_tok v) :: entries r | _ -> [] in
  let rec split k l = if k = 0 then ([], l) else match l with x :: r -> let (a, b) = split (k - 1) r in (x :: a, b) | [] -> ([], []) in
  let perm_ret p = "perm:" ^ clist zs p in
  let op t =
    let c = List.hd t and a = List.tl t in
    let s = !st in
    let has n = Model.ds_has_num s (zi n) in
    let ret = ref "-" in
    (match c, a with
     | "add", rest ->
       let (sc, es) = split nscal rest in
       let v = Model.sv_assign (entries es) in
       let (s', k) = Model.svs_add d0 s (List.map q_of_tok sc, v) in
       st := s'; ret := "key:" ^ zs k
     | "addself", [] ->
       let elems = List.map snd (Model.ds_abs d0 s) in
       let s1 = Model.svs_ensure d0 s (zi (List.length elems)) in
       let (s2, ks) = List.fold_left (fun (st, ks) e -> let (st', k) = Model.ds_add st e in (st', k :: ks)) (s1, []) elems in
       st := s2; ret := "keys:" ^ clist zs (List.rev ks)
     | "add2", n :: es ->
       let n = int_of_string n in
       if not (has n) then ret := "skip"
       else begin
         let k = Model.ds_key s (zi n) in
         let (sc, v) = Model.getn d0 s.Model.data k in
         st := Model.ds_set_num s (zi n) (sc, Model.sv_add_list (entries es) v)
       end
     | "xtend", [n; m] -> if not (has (int_of_string n)) || int_of_string m < 0 then ret := "skip"
     | "setscal", [n; j; v] ->
       let n = int_of_string n and j = int_of_string j in
       if not (has n) || j >= nscal then ret := "skip"
       else begin
         let k = Model.ds_key s (zi n) in
         let (sc, vec) = Model.getn d0 s.Model.data k in
         st := Model.ds_set_num s (zi n) (List.mapi (fun i x -> if i = j then q_of_tok v else x) sc, vec)
       end
     | "rm", [n] -> if not (has (int_of_string n)) then ret := "skip" else st := Model.ds_remove_num s (zi (int_of_string n))
     | "rmk", [k] ->
       let k = int_of_string k in
       if k < 0 || k >= iz s.Model.thesize || not (Model.ds_has_key s (zi k)) then ret := "skip"
       else (match Model.ds_number s (zi k) with Some n -> st := Model.ds_remove_num s n | None -> ret := "skip")
     | "rmp", vs ->
       let (s', p) = Model.ds_remove_perm s (Model.pad_perm s (ints vs)) in st := s'; ret := perm_ret p
     | "rmn", vs ->
       if List.for_all (fun v -> has (int_of_string v)) vs then begin
         let (s', p) = Model.ds_remove_nums s (ints vs) in st := s'; ret := perm_ret p end
       else ret := "skip"
     | "clear", [] -> st := Model.ds_clear s
     | "remax", [m] -> st := Model.ds_remax d0 s (zi (int_of_string m))
     | "memremax", [_] | "mempack", [] -> ()
     | ("copy" | "assign"), _ when iz s.Model.thenum = 0 -> ret := "skip"
     | "copy", [] -> st := Model.ds_assign d0 (Model.ds_init d0 (zi 8)) s     (* SVSetBase(const SVSetBase&): default set, then operator= *)
     | "assign", [m] ->
       let m = int_of_string m in
       st := Model.ds_assign d0 (Model.ds_init d0 (zi (if m > 0 then m else 8))) s
     | _ -> ret := "unknown");
    c ^ " ret=" ^ !ret ^ " " ^ dump () in
  { init; op }

(* ---------------------------------------------------------------- IdxSet / DIdxSet *)
let idx_machine (dyn : bool) : machine =
  let l = ref [] and mx = ref 4 in
  let dump () =
    Printf.sprintf "size=%d max=%d idx=%s dim=%s pos=%s%s" (List.length !l) !mx (clist zs !l) (zs (Model.is_dim !l))
      (String.concat "" (List.init 8 (fun i -> zs (Model.is_pos !l (zi i)) ^ ",")))
      (if dyn then "" else " under=0") in
  let init t =
    let m = match t with _ :: _ :: _ :: m :: _ -> int_of_string m | _ -> 4 in
    l := []; mx := (if dyn then max 1 m else m); dump () in
  let op t =
    let c = List.hd t and a = List.tl t in
    let size = List.length !l in
    let ret = ref "-" in
    (match c, a with
     | "addidx", [i] ->
       if (not dyn) && size >= !mx then ret := "skip"
       else begin
         if dyn && !mx <= size then mx := iz (Model.dis_setmax (zi size) (zi (size + 1)));
         l := Model.is_add !l (zi (int_of_string i)) end
     | "addn", vs ->
       let n = List.length vs in
       if (not dyn) && size + n > !mx then ret := "skip"
       else begin
         if dyn then mx := iz (Model.dis_room (zi size) (zi !mx) (zi n));
         l := Model.is_add_list !l (ints vs) end
     | "rm", [n] -> let n = int_of_string n in if n < 0 || n >= size then ret := "skip" else l := Model.is_remove_pos !l (zi n)
     | "rmr", [n; m] ->
       let n = int_of_string n and m = int_of_string m in
       if not (0 <= n && n <= m && m < size) || (dyn && n = 0 && m = size - 1) then ret := "skip"
       else l := Model.is_remove_range !l (zi n) (zi m)
     | "clear", [] -> l := []
     | "setmax", [m] -> if not dyn then ret := "skip" else mx := iz (Model.dis_setmax (zi size) (zi (int_of_string m)))
     | "copy", [] -> if not dyn then ret := "skip" else mx := max 1 size
     | "assign", [m] ->
       if not dyn then ret := "skip"
       else mx := iz (Model.dis_setmax (zi 0) (zi size))      (* DIdxSet(m) then setMax(size()) *)
     | _ -> ret := "unknown");
    c ^ " ret=" ^ !ret ^ " " ^ dump () in
  { init; op }

(* ---------------------------------------------------------------- NameSet *)
let name_machine () : machine =
  let st = ref (Model.ds_init Model.Z0 (zi 2)) in
  let nm = ref (Model.nm_init (zi 2) (zi 8)) in
  (* every string is read back from the model's string memory *)
  let show id =
    let cs = Model.nm_name !nm id in
    if cs = [] then "_" else String.concat "" (List.map (fun c -> let c = iz c in if c >= 97 && c <= 122 then String.make 1 (Char.chr c) else "?") cs) in
  let dump () =
    let s = !st in
    let abs = Model.ds_abs Model.Z0 s in
    let size = iz s.Model.thesize in
    Printf.sprintf "num=%s max=%s size=%s mem=%s/%s names=%s keys=%s bykey=%s look=%s" (zs s.Model.thenum) (zs s.Model.themax) (zs s.Model.thesize)
      (zs !nm.Model.nm_used) (zs !nm.Model.nm_max)
      (clist (fun (_, n) -> show n) abs) (clist (fun (k, _) -> zs k) abs)
      (String.concat "" (List.init size (fun i ->
           let k = zi i in
           if Model.ds_has_key s k then
             (match Model.ds_number s k with Some n -> zs n | None -> "?") ^ ":" ^ show (Model.getn Model.Z0 s.Model.data k) ^ ","
           else "x,")))
      (String.concat "" (List.init 12 (fun id ->
           let id = zi id in
           if Model.ns_has s id then
             let k = Model.ns_key s id in
             Printf.sprintf "%s:%s:%s," (zs (Model.ns_number s id)) (zs k) (show (Model.getn Model.Z0 s.Model.data k))
           else "-:-1:-1,"))) in
  let init t =
    let m = match t with _ :: _ :: _ :: m :: _ -> int_of_string m | _ -> 2 in
    let mm = match t with _ :: _ :: _ :: _ :: mm :: _ -> int_of_string mm | _ -> 8 in
    st := Model.ds_init Model.Z0 (zi m);
    nm := Model.nm_init !st.Model.themax (zi mm);
    dump () in
  let distinct l = List.length (List.sort_uniq compare l) = List.length l in
  let op t =
    let c = List.hd t and a = List.tl t in
    let s = !st in
    let ret = ref "-" in
    let valid_key k = k >= 0 && k < iz s.Model.thesize && Model.ds_has_key s (zi k) in
    (* removals: the set changes, the string memory only forgets the removed names *)
    let removed s' = st := s'; nm := Model.nm_keep (Model.ns_names s') !nm in
    (match c, a with
     | "add", [id] ->
       let id = zi (int_of_string id) in
       let (s', k) = Model.ns_add s id in
       (match k with
        | Some k -> nm := Model.nm_add (Model.ns_names s) !nm id; ret := "key:" ^ zs k
        | None -> ret := "none");
       st := s'
     | "rmname", [id] -> removed (Model.ns_remove_name s (zi (int_of_string id)))
     | "rmnum", [n] -> if Model.ds_has_num s (zi (int_of_string n)) then removed (Model.ns_remove_num s (zi (int_of_string n))) else ret := "skip"
     | "rmkey", [k] ->
       if valid_key (int_of_string k) then removed (Model.ns_remove_keys s [zi (int_of_string k)]) else ret := "skip"
     | "rmnums", vs ->
       let v = List.map int_of_string vs in
       if distinct v && List.for_all (fun n -> Model.ds_has_num s (zi n)) v then removed (Model.ns_remove_nums s (List.map zi v))
       else ret := "skip"
     | "rmkeys", vs ->
       let v = List.map int_of_string vs in
       if distinct v && List.for_all valid_key v then removed (Model.ns_remove_keys s (List.map zi v)) else ret := "skip"
     | "rmp", vs ->
       let (s', p) = Model.ns_remove_perm s (Model.pad_perm s (ints vs)) in removed s'; ret := "perm:" ^ clist zs p
     | "clear", [] -> st := Model.ns_clear s; nm := Model.nm_clear !nm
     | "remax", [m] -> st := Model.ns_remax s (zi (int_of_string m))
     | "memremax", [m] -> nm := Model.nm_remax !nm (zi (int_of_string m))
     | "mempack", [] -> nm := Model.nm_pack (Model.ns_names s) !nm
     | _ -> ret := "unknown");
    c ^ " ret=" ^ !ret ^ " " ^ dump () in
  { init; op }

(* ---------------------------------------------------------------- DataHashTable *)
let hash_machine () : machine =
  let t = ref [] in
  let dump () =
    "look=" ^ String.concat "" (List.init 10 (fun i -> match Model.ht_get !t (zi (i - 2)) with Some v -> zs v ^ "," | None -> "-,")) in
  let init _ = t := []; dump () in
  let op tk =
    let c = List.hd tk and a = List.tl tk in
    let ret = ref "-" in
    (match c, a with
     | "add", [k; v] -> if Model.ht_has !t (zi (int_of_string k)) then ret := "skip" else t := Model.ht_add !t (zi (int_of_string k)) (zi (int_of_string v))
     | "rm", [k] -> t := Model.ht_remove !t (zi (int_of_string k))
     | "clear", [] -> t := []
     | "remax", _ | "copy", [] | "assign", [] -> ()
     | _ -> ret := "unknown");
    c ^ " ret=" ^ !ret ^ " " ^ dump () in
  { init; op }

(* ---------------------------------------------------------------- DataArray / Array / ClassArray *)
let arr_machine (kind : int) : machine =
  let l = ref [] in
  let dump () = Printf.sprintf "size=%d capok=1 elems=%s" (List.length !l) (clist zs !l) in
  let init _ = l := []; dump () in
  let op t =
    let c = List.hd t and a = List.tl t in
    let size = List.length !l in
    let ret = ref "-" in
    (match c, a with
     | "append", [v] -> l := !l @ [zi (int_of_string v)]
     | "appendn", vs -> l := !l @ ints vs
     | "insert", i :: vs ->
       let i = int_of_string i in
       if i < 0 || i > size then ret := "skip" else l := Model.arr_insert !l (zi i) (ints vs)
     | "remove", [n; m] ->
       let n = int_of_string n and m = int_of_string m in
       if n < 0 || n >= size || m < 0 || (kind = 2 && n + m > size) then ret := "skip" else l := Model.arr_remove !l (zi n) (zi m)
     | "removelast", [m] ->
       let m = int_of_string m in
       if kind = 1 || m < 0 || m > size then ret := "skip" else l := Model.arr_remove_last !l (zi m)
     | "clear", [] -> l := []
     | "resize", [n] -> let n = int_of_string n in if n < 0 then ret := "skip" else l := Model.arr_resize Model.Z0 !l (zi n)
     | "remax", [_] -> if kind = 1 then ret := "skip"
     | "remaxs", [m] -> if kind = 1 || int_of_string m < size then ret := "skip"
     | "copy", [] | "assign", [_] -> ()
     | _ -> ret := "unknown");
    c ^ " ret=" ^ !ret ^ " " ^ dump () in
  { init; op }

(* ---------------------------------------------------------------- IdList / IsList *)
let list_machine (doubly : bool) : machine =
  let l = ref [] in
  let mem x = List.exists (fun y -> iz y = x) !l in
  let dump () =
    let ids = List.map iz !l in
    Printf.sprintf "len=%d fwd=%s bwd=%s first=%d last=%d find=%s" (List.length ids)
      (clist string_of_int ids) (if doubly then clist string_of_int (List.rev ids) else "-")
      (match ids with x :: _ -> x | [] -> -1) (match List.rev ids with x :: _ -> x | [] -> -1)
      (String.concat "" (List.init 8 (fun i -> if mem i then "1" else "0"))) in
  let init _ = l := []; dump () in
  let op t =
    let c = List.hd t and a = List.map int_of_string (List.tl t) in
    let ok x = x >= 0 && x < 8 in
    let ret = ref "-" in
    (match c, a with
     | "append", [x] -> if not (ok x) || mem x then ret := "skip" else l := Model.lst_append !l (zi x)
     | "prepend", [x] -> if not (ok x) || mem x then ret := "skip" else l := Model.lst_prepend !l (zi x)
     | "insert", [x; y] -> if not (ok x) || not (ok y) || mem x || not (mem y) then ret := "skip" else l := Model.lst_insert_after !l (zi x) (zi y)
     | "remove", [x] -> if not (ok x) || not (mem x) then ret := "skip" else l := Model.lst_remove !l (zi x)
     | "removenext", [x] ->
       let rec has_next = function y :: (_ :: _ as r) -> if iz y = x then true else has_next r | _ -> false in
       if not (ok x) || not (mem x) || not (has_next !l) then ret := "skip" else l := Model.lst_remove_next !l (zi x)
     | "clear", [] -> l := []
     | _ -> ret := "unknown");
    c ^ " ret=" ^ !ret ^ " " ^ dump () in
  { init; op }

let make kind : machine option =
  match kind with
  | "ds" | "cs" -> Some (set_machine false)
  | "csp" -> Some (set_machine true)
  | "vecd" -> Some (vec_machine false)
  | "vecr" -> Some (vec_machine true)
  | "svs" -> Some (vset_machine 0)
  | "lprs" | "lpcs" -> Some (vset_machine 3)
  | "idx" -> Some (idx_machine false)
  | "didx" -> Some (idx_machine true)
  | "ns" -> Some (name_machine ())
  | "ht" -> Some (hash_machine ())
  | "da" -> Some (arr_machine 0)
  | "ar" -> Some (arr_machine 1)
  | "ca" -> Some (arr_machine 2)
  | "isl" -> Some (list_machine false)
  | "idl" -> Some (list_machine true)
  | _ -> None

let () =
  let lines = read_lines (open_in Sys.argv.(1)) in
  let m = ref None in
  List.iter (fun l ->
      match split_ws l with
      | [] -> ()
      | "CASE" :: id :: kind :: _ as t ->
        m := make kind;
        Printf.printf "CASE %s\n" id;
        (match !m with
         | None -> print_string "init unknown-kind\n"
         | Some mm -> Printf.printf "init %s\n" (mm.init t))
      | t ->
        (match !m with
         | None -> ()
         | Some mm -> Printf.printf "%s\n" (mm.op t)))
    lines
