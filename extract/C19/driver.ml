(* C19 model runner: reads the same case file as harness/C19.cpp and prints the same observation lines.
   All semantics live in the extracted module Model; this file only parses operations and prints states. *)
open Zutil

let zi = z_of_int
let iz = int_of_z
let ints l = List.map (fun s -> zi (int_of_string s)) l
let clist f l = String.concat "" (List.map (fun x -> f x ^ ",") l)
let zs = string_of_z

type machine = { init : string list -> string; op : string list -> string }

(* ---------------------------------------------------------------- DataSet<int> / ClassSet<Elem> *)
let set_machine (probe : bool) : machine =
  let d0 = Model.Z0 in
  let st = ref (Model.ds_init d0 (zi 8)) in
  let dump () =
    let s = !st in
    let num = iz s.Model.thenum and size = iz s.Model.thesize in
    let abs = Model.ds_abs d0 s in
    let slot f = String.concat "" (List.init size (fun i ->
        let k = zi i in
        if Model.ds_has_key s k then f k ^ "," else "x,")) in
    ignore num;
    Printf.sprintf "num=%s max=%s size=%s keys=%s elems=%s slots=%s bykey=%s free=%s%s"
      (zs s.Model.thenum) (zs s.Model.themax) (zs s.Model.thesize)
      (clist (fun (k, _) -> zs k) abs) (clist (fun (_, e) -> zs e) abs)
      (slot (fun k -> match Model.ds_number s k with Some n -> zs n | None -> "?"))
      (slot (fun k -> zs (Model.getn d0 s.Model.data k)))
      (clist zs (Model.ds_free s)) (if probe then " raw=0 ovf=0" else "") in
  let init t =
    st := Model.ds_init d0 (zi (match t with _ :: _ :: _ :: m :: _ -> int_of_string m | _ -> 8));
    dump () in
  let op t =
    let c = List.hd t and a = List.tl t in
    let o = match c, a with
      | "add", [v] -> Some (Model.OAdd (zi (int_of_string v)))
      | "addn", vs -> Some (Model.OAddMany (ints vs))
      | "rm", [n] -> Some (Model.ORemove (zi (int_of_string n)))
      | "rmk", [k] -> Some (Model.ORemoveKey (zi (int_of_string k)))
      | "rmp", vs -> Some (Model.ORemovePerm (ints vs))
      | "rmn", vs -> Some (Model.ORemoveNums (ints vs))
      | "rmkn", vs -> Some (Model.ORemoveKeys (ints vs))
      | "clear", [] -> Some Model.OClear
      | "remax", [m] -> Some (Model.OReMax (zi (int_of_string m)))
      | "set", [n; v] -> Some (Model.OSet (zi (int_of_string n), zi (int_of_string v)))
      | "copy", [] -> Some Model.OCopy
      | "assign", [m] -> Some (Model.OAssign (zi (int_of_string m)))
      | _ -> None in
    match o with
    | None -> c ^ " ret=unknown " ^ dump ()
    | Some o ->
      let (s', r) = Model.ds_step d0 !st o in
      st := s';
      let ret = match r with
        | Model.RNone -> "-" | Model.RSkip -> "skip" | Model.RExc -> "exc"
        | Model.RKey k -> "key:" ^ zs k
        | Model.RKeys ks -> "keys:" ^ clist zs ks
        | Model.RPerm p -> "perm:" ^ clist zs p in
      c ^ " ret=" ^ ret ^ " " ^ dump () in
  { init; op }

let make kind : machine option =
  match kind with
  | "ds" | "cs" -> Some (set_machine false)
  | "csp" -> Some (set_machine true)
  | _ -> None

let () =
  let lines = read_lines (open_in Sys.argv.(1)) in
  let m = ref None in
  List.iter (fun l ->
      match split_ws l with
      | [] -> ()
      | "CASE" :: id :: kind :: _ as t ->
        m := make kind;
        Printf.printf "CASE %s\n" id;
        (match !m with
         | None -> print_string "init unknown-kind\n"
         | Some mm -> Printf.printf "init %s\n" (mm.init t))
      | t ->
        (match !m with
         | None -> ()
         | Some mm -> Printf.printf "%s\n" (mm.op t)))
    lines
