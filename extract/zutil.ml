(* conversions between OCaml / zarith values and the inductive types of the extracted module Model
   (positive, Z, nat stay the extracted Coq datatypes; zarith is used only to read and print them) *)
let rec pos_of_zarith (z : Z.t) : Model.positive =
  if Z.equal z Z.one then Model.XH
  else if Z.is_even z then Model.XO (pos_of_zarith (Z.shift_right z 1))
  else Model.XI (pos_of_zarith (Z.shift_right z 1))
let z_of_zarith (z : Z.t) : Model.z =
  if Z.sign z = 0 then Model.Z0
  else if Z.sign z > 0 then Model.Zpos (pos_of_zarith z)
  else Model.Zneg (pos_of_zarith (Z.neg z))
let rec zarith_of_pos = function
  | Model.XH -> Z.one
  | Model.XO p -> Z.shift_left (zarith_of_pos p) 1
  | Model.XI p -> Z.succ (Z.shift_left (zarith_of_pos p) 1)
let zarith_of_z = function
  | Model.Z0 -> Z.zero
  | Model.Zpos p -> zarith_of_pos p
  | Model.Zneg p -> Z.neg (zarith_of_pos p)
let rec nat_of_int n = if n <= 0 then Model.O else Model.S (nat_of_int (n - 1))
let rec int_of_nat = function Model.O -> 0 | Model.S n -> 1 + int_of_nat n
let z_of_int i = z_of_zarith (Z.of_int i)
let z_of_string s = z_of_zarith (Z.of_string s)
let string_of_z z = Z.to_string (zarith_of_z z)
let int_of_z z = Z.to_int (zarith_of_z z)
let split_ws s = List.filter (fun x -> x <> "") (String.split_on_char ' ' s)
let unhex h =
  let n = String.length h / 2 in
  List.init n (fun i -> int_of_string ("0x" ^ String.sub h (2 * i) 2))
let read_lines ic =
  let rec go acc = match input_line ic with l -> go (l :: acc) | exception End_of_file -> List.rev acc in
  go []
