(* C16 model runner: predicts status and iteration count of optimize() under an iteration limit / a raised interrupt flag /
   an exhausted time limit from the event trace of the UNLIMITED solve (recorded by harness/C16.cpp from the solver's own log).
   Input, one prediction per line:
     T <id> iterlimit=<k> intr=<j> time0=<0|1> solves=<seg>/<seg>/...
       seg    = <simplifier result K|N|D|U|V>:<events>     events: S start, P pivot, F flip, W switch, O optimal,
                                                            I infeasible, U unbounded, X fail
       intr=j : the interrupt pointer is given and the flag is up from event j (0-based) of the first inner solve on; -1: no pointer
       time0  : TIMELIMIT 0 - every call of isTimeLimitReached() returns true
   Output:  P <id> status=<status> iters=<n>      computed by the extracted [outer] of coq/LimitsModel.v *)
open Zutil

let kind_of_char = function
  | 'S' -> Model.Start | 'P' -> Model.Pivot | 'F' -> Model.Flip | 'W' -> Model.Switch | 'O' -> Model.Optimal
  | 'I' -> Model.Infeasible | 'U' -> Model.Unbounded | 'X' -> Model.Fail
  | c -> failwith (Printf.sprintf "bad event %c" c)

let simp_of_char = function
  | 'K' -> Model.S_OKAY | 'N' -> Model.S_INFEASIBLE | 'D' -> Model.S_DUAL_INFEASIBLE | 'U' -> Model.S_UNBOUNDED
  | 'V' -> Model.S_VANISHED | c -> failwith (Printf.sprintf "bad simplifier result %c" c)

let status_name = function
  | Model.RUNNING -> "RUNNING" | Model.OPTIMAL -> "OPTIMAL" | Model.INFEASIBLE -> "INFEASIBLE" | Model.UNBOUNDED -> "UNBOUNDED"
  | Model.INForUNBD -> "INForUNBD" | Model.ABORT_ITER -> "ABORT_ITER" | Model.ABORT_TIME -> "ABORT_TIME"
  | Model.ABORT_VALUE -> "ABORT_VALUE" | Model.FAILED -> "FAILED"

let kv w = match String.index_opt w '=' with
  | Some i -> (String.sub w 0 i, String.sub w (i + 1) (String.length w - i - 1))
  | None -> (w, "")

let () =
  let lines = read_lines (open_in Sys.argv.(1)) in
  List.iter (fun l ->
      match split_ws l with
      | "T" :: id :: args ->
        let a = List.map kv args in
        let get k d = try List.assoc k a with Not_found -> d in
        let iterlimit = z_of_string (get "iterlimit" "-1") in
        let intr = int_of_string (get "intr" "-1") in
        let time0 = get "time0" "0" = "1" in
        let segs = List.filter (fun s -> s <> "") (String.split_on_char '/' (get "solves" "")) in
        let solves = List.mapi (fun si seg ->
            let simp = simp_of_char seg.[0] in
            let evs = String.sub seg 2 (String.length seg - 2) in
            let events = List.init (String.length evs) (fun i ->
                { Model.ev_kind = kind_of_char evs.[i];
                  Model.ev_intr = (si = 0 && intr >= 0 && i >= intr);
                  Model.ev_timeup = time0;
                  Model.ev_dual = None }) in
            { Model.in_simp = simp; Model.in_objlim = true; Model.in_events = events }) segs in
        let lim = { Model.max_iters = z_of_int (-1); Model.use_intr = (intr >= 0); Model.use_time = time0;
                    Model.obj_lim = None; Model.maxi = false } in
        let r = Model.outer lim iterlimit solves in
        Printf.printf "P %s status=%s iters=%s\n" id (status_name r.Model.ost) (string_of_z r.Model.oiters)
      | _ -> ())
    lines
