(* C09 model runner.  Reads queries (one per CASE block)
     CASE <id>
     R e,e,...            row exponents read from the implementation
     C e,e,...            column exponents
     LP m=.. n=.. obj=.. lo=.. up=.. lhs=.. rhs=.. robj=.. A=i,j,v;...     the user's LP as stored before scaling
     XC v,...  XR v,...   probe vectors (column-sized, row-sized); optional
     END
   and prints, in the format of harness/C09.cpp, the stored LP the model predicts (stored), its un-scaling (unscaled),
   the getters on the stored LP (get), the solution unscale maps (sol), the scale* functions (sc) and the vector /
   single-index change overloads applied to the user's own bounds (chg / chg1). *)
open Zutil

let dbl_of_tok t : Model.dbl =
  if t = "nan" then Model.DNaN else if t = "inf" then Model.DPInf else if t = "-inf" then Model.DNInf
  else match String.split_on_char ':' t with
    | [m; e] -> Model.DFin (z_of_string m, z_of_string e)
    | _ -> failwith ("bad dbl " ^ t)

let tok_of_dbl (d : Model.dbl) =
  match d with
  | Model.DNaN -> "nan" | Model.DPInf -> "inf" | Model.DNInf -> "-inf"
  | Model.DFin (m, e) ->
    let m = ref (zarith_of_z m) and e = ref (zarith_of_z e) in
    if Z.sign !m = 0 then "0:0" else begin
      while Z.is_even !m do m := Z.shift_right !m 1; e := Z.succ !e done;
      Z.to_string !m ^ ":" ^ Z.to_string !e end

let is_zero (d : Model.dbl) = match d with Model.DFin (m, _) -> Z.sign (zarith_of_z m) = 0 | _ -> false

let splitc c s = List.filter (fun x -> x <> "") (String.split_on_char c s)
let dlist s = List.map dbl_of_tok (splitc ',' s)
let zlist s = List.map z_of_string (splitc ',' s)
let vecs l = String.concat "" (List.map (fun d -> tok_of_dbl d ^ ",") l)

let fields toks =
  List.filter_map (fun t ->
      match String.index_opt t '=' with
      | Some i -> Some (String.sub t 0 i, String.sub t (i + 1) (String.length t - i - 1))
      | None -> None) toks

let get f k = try List.assoc k f with Not_found -> ""

let zero = Model.DFin (Model.Z0, Model.Z0)

let lp_of_fields f : Model.lpD * int * int =
  let m = int_of_string (get f "m") and n = int_of_string (get f "n") in
  let a = Array.make_matrix m n zero in
  List.iter (fun t ->
      match String.split_on_char ',' t with
      | [i; j; v] -> a.(int_of_string i).(int_of_string j) <- dbl_of_tok v
      | _ -> failwith ("bad triplet " ^ t)) (splitc ';' (get f "A"));
  let robj = let r = dlist (get f "robj") in if r = [] then List.init m (fun _ -> zero) else r in
  ({ Model.obj = dlist (get f "obj"); lo = dlist (get f "lo"); up = dlist (get f "up");
     lhs = dlist (get f "lhs"); rhs = dlist (get f "rhs"); robj = robj;
     mat = Array.to_list (Array.map Array.to_list a) }, m, n)

let trips (rows : Model.dbl list list) =
  let b = Buffer.create 256 in
  List.iteri (fun i row ->
      List.iteri (fun j v ->
          if not (is_zero v) then Buffer.add_string b (Printf.sprintf "%d,%d,%s;" i j (tok_of_dbl v))) row) rows;
  Buffer.contents b

let dump (p : Model.lpD) m n sense =
  Printf.sprintf "m=%d n=%d sense=%s obj=%s lo=%s up=%s lhs=%s rhs=%s robj=%s A=%s"
    m n sense (vecs p.Model.obj) (vecs p.Model.lo) (vecs p.Model.up) (vecs p.Model.lhs) (vecs p.Model.rhs)
    (vecs p.Model.robj) (trips p.Model.mat)

let range n = List.init n (fun i -> i)

let () =
  let lines = read_lines (open_in Sys.argv.(1)) in
  Printf.printf "INF %s\n" (tok_of_dbl Model.dinf);
  let r = ref [] and c = ref [] and lpf = ref [] and xc = ref [] and xr = ref [] and id = ref "" in
  List.iter (fun l ->
      match split_ws l with
      | [] -> ()
      | "CASE" :: i :: _ -> id := i; r := []; c := []; lpf := []; xc := []; xr := []
      | "R" :: rest -> r := (match rest with [s] -> zlist s | _ -> [])
      | "C" :: rest -> c := (match rest with [s] -> zlist s | _ -> [])
      | "LP" :: toks -> lpf := fields toks
      | "XC" :: rest -> xc := (match rest with [s] -> dlist s | _ -> [])
      | "XR" :: rest -> xr := (match rest with [s] -> dlist s | _ -> [])
      | "END" :: _ ->
        let (p, m, n) = lp_of_fields !lpf in
        let sense = get !lpf "sense" in
        let r = !r and c = !c in
        Printf.printf "CASE %s\n" !id;
        let s = Model.d_apply_scaling r c p in
        Printf.printf "stored %s\n" (dump s m n sense);
        let u = Model.d_unscale r c s in
        Printf.printf "unscaled %s\n" (dump u m n sense);
        let cols = range n and rows = range m in
        let nat = nat_of_int in
        Printf.printf "get slo=%s sup=%s slhs=%s srhs=%s sobj=%s vlo=%s vup=%s vlhs=%s vrhs=%s vobj=%s ucoef=%s\n"
          (vecs (List.map (fun j -> Model.d_lowerUnscaled c s (nat j)) cols))
          (vecs (List.map (fun j -> Model.d_upperUnscaled c s (nat j)) cols))
          (vecs (List.map (fun i -> Model.d_lhsUnscaled r s (nat i)) rows))
          (vecs (List.map (fun i -> Model.d_rhsUnscaled r s (nat i)) rows))
          (vecs (List.map (fun j -> Model.d_maxObjUnscaled c s (nat j)) cols))
          (vecs (Model.d_getLowerUnscaled c s)) (vecs (Model.d_getUpperUnscaled c s))
          (vecs (Model.d_getLhsUnscaled r s)) (vecs (Model.d_getRhsUnscaled r s))
          (vecs (Model.d_getMaxObjUnscaled c s))
          (trips (List.map (fun i -> List.map (fun j -> Model.d_coefUnscaled r c s (nat i) (nat j)) cols) rows));
        if !xc <> [] || !xr <> [] then begin
          let xc = !xc and xr = !xr in
          Printf.printf "sol primal=%s slacks=%s dual=%s redcost=%s pray=%s dray=%s\n"
            (vecs (Model.d_unscalePrimal c xc)) (vecs (Model.d_unscaleSlacks r xr)) (vecs (Model.d_unscaleDual r xr))
            (vecs (Model.d_unscaleRedCost c xc)) (vecs (Model.d_unscalePrimalray c xc)) (vecs (Model.d_unscaleDualray r xr));
          let nth l k = List.nth l k in
          Printf.printf "sc obj=%s lo=%s up=%s lhs=%s rhs=%s el=%s vobj=%s\n"
            (vecs (List.map (fun j -> Model.d_scaleObj c (nat j) (nth xc j)) cols))
            (vecs (List.map (fun j -> Model.d_scaleLower c (nat j) (nth xc j)) cols))
            (vecs (List.map (fun j -> Model.d_scaleUpper c (nat j) (nth xc j)) cols))
            (vecs (List.map (fun i -> Model.d_scaleLhs r (nat i) (nth xr i)) rows))
            (vecs (List.map (fun i -> Model.d_scaleRhs r (nat i) (nth xr i)) rows))
            (vecs (List.concat (List.map (fun i -> List.map (fun j -> Model.d_scaleElement r c (nat i) (nat j) (nth xc j)) cols) rows)))
            (vecs (List.map (fun j -> Model.d_scaleObj c (nat j) (nth xc j)) cols))
        end;
        Printf.printf "chg lo=%s up=%s lhs=%s rhs=%s\n"
          (vecs (Model.d_changeLower_vec c p.Model.lo)) (vecs (Model.d_changeUpper_vec c p.Model.up))
          (vecs (Model.d_changeLhs_vec r p.Model.lhs)) (vecs (Model.d_changeRhs_vec r p.Model.rhs));
        Printf.printf "chg1 lo=%s up=%s lhs=%s rhs=%s\n"
          (vecs (List.mapi (fun j v -> Model.d_changeLower1 c (nat j) v) p.Model.lo))
          (vecs (List.mapi (fun j v -> Model.d_changeUpper1 c (nat j) v) p.Model.up))
          (vecs (List.mapi (fun i v -> Model.d_changeLhs1 r (nat i) v) p.Model.lhs))
          (vecs (List.mapi (fun i v -> Model.d_changeRhs1 r (nat i) v) p.Model.rhs))
      | _ -> ())
    lines
