(* C08 model runner: replays single post-solve steps with the extracted model of coq/PostsolveModel.v.
   Input (as printed by harness/C08.cpp):
     TRACE <id> ft=<dy> ep=<dy> inf=<dy>
     S <k> <StepName> key=value ...        recorded data of the step
     PRE <k> x=.. y=.. s=.. r=.. cs=.. rs=..   state before execute (doubles as exact dyadics m:e)
   Output: for every PRE line five lines
     M <id> <k> <variant> x=.. y=.. s=.. r=.. cs=.. rs=..     |   M <id> <k> <variant> EXC
   variant 0 = tolerances of the run; 1..4 = tolerances moved by 1e-12 (feastol) / to 0 and 1e-12 (epsilon): a step whose
   outcome depends on the variant sits on a tolerance decision boundary and is not compared by the check.
   Values are printed as hexadecimal doubles (the model computes exact rationals; the nearest double is printed). *)
open Zutil

let q_of_zq (z : Q.t) : Model.q = { Model.qnum = z_of_zarith (Q.num z); Model.qden = pos_of_zarith (Q.den z) }
let zq_of_q (q : Model.q) : Q.t = Q.make (zarith_of_z q.Model.qnum) (zarith_of_pos q.Model.qden)

let zq_of_dy (t : string) : Q.t =
  match String.split_on_char ':' t with
  | [m; e] ->
    let m = Z.of_string m and e = int_of_string e in
    if e >= 0 then Q.of_bigint (Z.shift_left m e) else Q.make m (Z.shift_left Z.one (- e))
  | _ -> if t = "inf" then Q.of_bigint (Z.pow (Z.of_int 10) 400)
    else if t = "-inf" then Q.of_bigint (Z.neg (Z.pow (Z.of_int 10) 400))
    else failwith ("bad dyadic " ^ t)
let q_of_dy t = q_of_zq (zq_of_dy t)

let kv toks =
  List.filter_map (fun w -> match String.index_opt w '=' with
      | Some p -> Some (String.sub w 0 p, String.sub w (p + 1) (String.length w - p - 1))
      | None -> None) toks
let get a k = try List.assoc k a with Not_found -> failwith ("missing field " ^ k)
let getq a k = q_of_dy (get a k)
let getn a k = nat_of_int (int_of_string (get a k))
let getb a k = get a k = "1"
let optn s = let v = int_of_string s in if v < 0 then None else Some (nat_of_int v)
let nonempty l = List.filter (fun x -> x <> "") l
let sv s = if s = "-" then [] else
    List.map (fun e -> match String.split_on_char ':' e with
        | i :: rest -> (nat_of_int (int_of_string i), q_of_dy (String.concat ":" rest))
        | _ -> failwith "bad sparse entry") (nonempty (String.split_on_char ';' s))
let qvec s = List.map q_of_dy (nonempty (String.split_on_char ',' s))
let perm s = if s = "-" then [] else List.map optn (nonempty (String.split_on_char ',' s))
let stat_of_char = function
  | 'U' -> Model.ON_UPPER | 'L' -> Model.ON_LOWER | 'F' -> Model.FIXED | 'Z' -> Model.ZERO | 'B' -> Model.BASIC | _ -> Model.UNDEFINED
let char_of_stat = function
  | Model.ON_UPPER -> 'U' | Model.ON_LOWER -> 'L' | Model.FIXED -> 'F' | Model.ZERO -> 'Z' | Model.BASIC -> 'B' | Model.UNDEFINED -> '?'
let svec_stat s = List.init (String.length s) (fun i -> stat_of_char s.[i])
let ents a = List.filter_map (fun (k, v) -> if k = "e" then Some (String.split_on_char '|' v) else None) a

let step_of name a : Model.step =
  match name with
  | "RowObj" -> Model.RowObjPS (getn a "i", getn a "j")
  | "FreeConstraint" -> Model.FreeConstraintPS (getn a "i", getn a "old_i", sv (get a "row"), getq a "row_obj")
  | "EmptyConstraint" -> Model.EmptyConstraintPS (getn a "i", getn a "old_i", getq a "row_obj")
  | "FixVariable" -> Model.FixVariablePS (getn a "j", getn a "old_j", getq a "val", getq a "obj", getq a "lower", getq a "upper",
                                          getb a "correctIdx", sv (get a "col"))
  | "FixBounds" -> Model.FixBoundsPS (getn a "j", stat_of_char (get a "status").[0])
  | "RowSingleton" -> Model.RowSingletonPS (getn a "i", getn a "old_i", getn a "j", getq a "lhs", getq a "rhs", getq a "obj", sv (get a "col"),
                                            getq a "oldLo", getq a "oldUp", getq a "row_obj")
  | "ForceConstraint" ->
    let es = List.map (function
        | [idx; av; obj; fixed; lo; up; col] ->
          { Model.fe_idx = nat_of_int (int_of_string idx); Model.fe_a = q_of_dy av; Model.fe_obj = q_of_dy obj; Model.fe_fixed = (fixed = "1");
            Model.fe_col = sv col; Model.fe_lo = q_of_dy lo; Model.fe_up = q_of_dy up }
        | _ -> failwith "bad force entry") (ents a) in
    Model.ForceConstraintPS (getn a "i", getn a "old_i", getq a "lRhs", es, getq a "lhs", getq a "rhs", getq a "rowobj")
  | "ZeroObjColSingleton" -> Model.ZeroObjColSingletonPS (getn a "j", getn a "i", getn a "old_j", getq a "lhs", getq a "rhs", getq a "lower",
                                                          getq a "upper", sv (get a "row"))
  | "FreeColSingleton" -> Model.FreeColSingletonPS (getn a "j", getn a "i", getn a "old_j", getn a "old_i", getq a "obj", getq a "lRhs",
                                                    getb a "onLhs", getb a "eqCons", sv (get a "row"))
  | "DoubletonEquation" -> Model.DoubletonEquationPS (getn a "j", getn a "k", getn a "i", getb a "maxSense", getb a "jFixed", getq a "jObj",
                                                      getq a "kObj", getq a "aij", getb a "strictLo", getb a "strictUp", getq a "Lo_j", sv (get a "col"))
  | "DuplicateRows" ->
    let es = List.map (function
        | [idx; sc; ro; eq] -> (((nat_of_int (int_of_string idx), q_of_dy sc), q_of_dy ro), eq = "1")
        | _ -> failwith "bad duprow entry") (ents a) in
    Model.DuplicateRowsPS (getn a "i", getq a "i_rowObj", optn (get a "maxLhsIdx"), optn (get a "minRhsIdx"), getb a "isLast", es, perm (get a "perm"))
  | "DuplicateCols" -> Model.DuplicateColsPS (getn a "j", getn a "k", getq a "loJ", getq a "upJ", getq a "loK", getq a "upK", getq a "scale",
                                              getb a "isFirst", getb a "isLast", perm (get a "perm"))
  | "Aggregation" -> Model.AggregationPS (getn a "j", getn a "i", getn a "old_j", getn a "old_i", getq a "upper", getq a "lower", getq a "obj",
                                          getq a "oldupper", getq a "oldlower", getq a "rhs", sv (get a "row"), sv (get a "col"))
  | "MultiAggregation" -> Model.MultiAggregationPS (getn a "j", getn a "i", getn a "old_j", getn a "old_i", getq a "obj", getq a "const",
                                                    getb a "onLhs", getb a "eqCons", sv (get a "row"), sv (get a "col"))
  | "TightenBounds" -> Model.TightenBoundsPS (getn a "j", getq a "origupper", getq a "origlower")
  | "FreeZeroObjVariable" ->
    let es = List.map (function
        | [row; av; lrhs; ro; rv] ->
          { Model.fz_row = nat_of_int (int_of_string row); Model.fz_a = q_of_dy av; Model.fz_lrhs = q_of_dy lrhs; Model.fz_rowobj = q_of_dy ro;
            Model.fz_rowvec = sv rv }
        | _ -> failwith "bad fz entry") (ents a) in
    Model.FreeZeroObjVariablePS (getn a "j", getn a "old_j", getn a "old_i", getq a "bnd", getb a "loFree", es)
  | _ -> failwith ("unknown step " ^ name)

let hexf (q : Model.q) = Printf.sprintf "%h" (Q.to_float (zq_of_q q))
let show_state (t : Model.st) =
  let v l = String.concat "," (List.map hexf l) ^ "," in
  let s l = String.init (List.length l) (fun i -> char_of_stat (List.nth l i)) in
  Printf.sprintf "x=%s y=%s s=%s r=%s cs=%s, rs=%s," (v t.Model.sx) (v t.Model.sy) (v t.Model.ss) (v t.Model.sr) (s t.Model.scs) (s t.Model.srs)

let () =
  let lines = read_lines (open_in Sys.argv.(1)) in
  let id = ref "" and ft = ref Q.zero and ep = ref Q.zero and inf = ref Q.zero in
  let steps : (string, Model.step) Hashtbl.t = Hashtbl.create 64 in
  let d12 = Q.of_string "1/1000000000000" in
  List.iter (fun l ->
      match split_ws l with
      | "TRACE" :: i :: rest ->
        let a = kv rest in
        id := i; ft := zq_of_dy (get a "ft"); ep := zq_of_dy (get a "ep"); inf := zq_of_dy (get a "inf");
        Hashtbl.reset steps
      | "S" :: k :: name :: rest ->
        (try Hashtbl.replace steps k (step_of name (kv rest))
         with Failure m -> Printf.printf "M %s %s 0 BAD %s\n" !id k m)
      | "PRE" :: k :: rest ->
        (match Hashtbl.find_opt steps k with
         | None -> ()
         | Some p ->
           let a = kv rest in
           let strip s = if String.length s > 0 && s.[String.length s - 1] = ',' then String.sub s 0 (String.length s - 1) else s in
           let t0 = { Model.sx = qvec (get a "x"); Model.sy = qvec (get a "y"); Model.ss = qvec (get a "s"); Model.sr = qvec (get a "r");
                      Model.scs = svec_stat (strip (get a "cs")); Model.srs = svec_stat (strip (get a "rs")) } in
           let variants = [ (!ft, !ep); (Q.sub !ft d12, Q.zero); (Q.add !ft d12, Q.add !ep d12); (Q.sub !ft d12, Q.add !ep d12); (Q.add !ft d12, Q.zero) ] in
           List.iteri (fun vi (f, e) ->
               let c = Model.tol_cmps (q_of_zq f) (q_of_zq e) (q_of_zq !inf) in
               match Model.execute c p t0 with
               | Some t1 -> Printf.printf "M %s %s %d %s\n" !id k vi (show_state t1)
               | None -> Printf.printf "M %s %s %d EXC\n" !id k vi) variants)
      | _ -> ())
    lines
