(* C13 model runner: reads the same case files as harness/C13.cpp (modes mpsline / lpftok) and prints the model's
   observation lines.   modelrun mpsline <eofcheck 0|1> <casefile>   |   modelrun lpftok <casefile> *)
open Zutil

let bytes_of_hex h = if h = "e" then [] else List.map z_of_int (unhex h)
let hex_of_bytes l =
  if l = [] then "e" else String.concat "" (List.map (fun z -> Printf.sprintf "%02x" (int_of_z z)) l)
let fld = function None -> "-" | Some l -> hex_of_bytes l

let section_of_int = function
  | 0 -> Model.SName | 1 -> Model.SObjsen | 2 -> Model.SObjname | 3 -> Model.SRows | 4 -> Model.SColumns
  | 5 -> Model.SRhs | 6 -> Model.SRanges | 7 -> Model.SBounds | _ -> Model.SEndata

let run_mpsline eofcheck file =
  List.iter (fun l ->
      match split_ws l with
      | "CASE" :: id :: sec :: nf :: ncalls :: rest ->
        let bytes = match rest with h :: _ -> bytes_of_hex h | [] -> [] in
        Printf.printf "CASE %s\n" id;
        let fuel = nat_of_int (List.length bytes + 5) in
        let st = ref (Model.fresh_stream bytes) in
        let ps = ref (Model.init_pstate (section_of_int (int_of_string sec)) (nf <> "0")) in
        (try
           for _ = 1 to int_of_string ncalls do
             match Model.readLine eofcheck fuel !st !ps with
             | Model.OutOfFuel -> print_string "hang\n"; raise Exit
             | Model.RetFalse (_, _) -> print_string "ret=0\n"; raise Exit
             | Model.RetTrue (f, st', ps') ->
               st := st'; ps := ps';
               Printf.printf "ret=1 f0=%s f1=%s f2=%s f3=%s f4=%s f5=%s nf=%d int=%d\n"
                 (fld f.Model.f0) (fld f.Model.f1) (fld f.Model.f2) (fld f.Model.f3) (fld f.Model.f4) (fld f.Model.f5)
                 (if ps'.Model.p_newfmt then 1 else 0) (if ps'.Model.p_integer then 1 else 0)
           done
         with Exit -> ())
      | _ -> ())
    (read_lines (open_in file))

let run_lpftok file =
  let cap = Model.c13_lpf_cap in
  List.iter (fun l ->
      match split_ws l with
      | [("V" | "Q") as k; h] ->
        (match Model.lpf_read_value cap (k = "Q") (bytes_of_hex h) with
         | Model.Overflow -> Printf.printf "%s overflow\n" k
         | Model.Done (tok, n) ->
           Printf.printf "%s tok=%s consumed=%d\n" k (match tok with None -> "none" | Some t -> hex_of_bytes t) (int_of_nat n))
      | [("N" | "M") as k; h] ->
        (match Model.lpf_read_colname cap (bytes_of_hex h) with
         | Model.Overflow -> Printf.printf "%s overflow\n" k
         | Model.Done (name, n) -> Printf.printf "%s name=%s consumed=%d\n" k (hex_of_bytes name) (int_of_nat n))
      | ["R"; h] ->
        (match Model.lpf_has_rowname cap (bytes_of_hex h) with
         | Model.Overflow -> print_string "R overflow\n"
         | Model.Done (name, n) ->
           Printf.printf "R name=%s consumed=%d\n" (match name with None -> "none" | Some t -> hex_of_bytes t) (int_of_nat n))
      | ["K"; h; kw] ->
        (match Model.lpf_has_keyword (bytes_of_hex kw) (bytes_of_hex h) with
         | Model.KwOob -> print_string "K oob\n"
         | Model.KwNo -> print_string "K no\n"
         | Model.KwYes n -> Printf.printf "K yes %d\n" (int_of_nat n))
      | [] -> ()
      | _ -> print_string "?\n")
    (read_lines (open_in file))

(* settings lines: the verdict of the proved cursor machine (= SettingsLexer.tokenise, theorem C13_settings_cursor_in_bounds) *)
let run_settok file =
  List.iter (fun l ->
      match split_ws l with
      | [h] ->
        (match Model.c_parse false (bytes_of_hex h @ [z_of_int 0]) with
         | Model.Oob -> print_string "oob\n"
         | Model.Ok (Model.TBlank, _) -> print_string "blank\n"
         | Model.Ok (Model.TError, _) -> print_string "error\n"
         | Model.Ok (Model.TOk (ty, name, v), _) -> Printf.printf "ok %s %s %s\n" (hex_of_bytes ty) (hex_of_bytes name) (hex_of_bytes v))
      | _ -> print_string "?\n")
    (read_lines (open_in file))

let () =
  match Array.to_list Sys.argv with
  | [_; "mpsline"; e; f] -> run_mpsline (e <> "0") f
  | [_; "lpftok"; f] -> run_lpftok f
  | [_; "settok"; f] -> run_settok f
  | _ -> prerr_endline "usage: modelrun mpsline <0|1> <cases> | lpftok <cases>"; exit 2
