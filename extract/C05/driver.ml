(* C05 checker / model runner: module Model is the extraction of coq/BasisInvModel.v.  Reads a query file (argv[1]) and
   prints one verdict line "R tag true|false" per query.  Every decision is taken by an extracted function; this file only
   parses rationals ("p" or "p/q"), keeps named LPs / matrices / vectors / integer lists and sorts index lists.

     LPM  id m n e_0 ...          LP matrix, m rows, n columns, column-major (column 0 first)
     MAT  id rows k e_0 ...       k columns of `rows` entries
     VEC  id e_0 ...              vector of rationals
     ZV   id z_0 ...              list of integers (bind, scale exponents, basis order with row i coded as -1-i)
     SCALE new id r c             new := scale r c id
     Q tag EQLP a b                                   lp_eqb
     Q tag BINDC ids bind | BINDR lp ids bind         bind_colrep / bind_rowrep against the reported bind
     Q tag COL lp bind col k eps | ROW lp bind row k eps | SOLVE lp bind rhs sol eps
         | MULT lp bind v out eps | MULTT lp bind v out eps             the tolerance checkers (eps = 0: exact checkers)
     Q tag INDS coef inds                             check_inds (inds sorted here)
     Q tag INV M Minv | INVB ps bind Binv | INVR ps ids Minv     is_inverse (of a matrix / of basis_matrix ps bind /
                                                      of the row basis rb_matrix ps ids): validates the exact oracle
     Q tag CG kind sc r c ps bind Binv arg obs eps    column-representation glue with the oracle built from Binv
                                                      (kind ROW|COL: arg = index; SOLVE|MULT|MULTT: arg = vector id)
     Q tag RG kind sc r c ps ids Minv arg obs eps     row-representation glue with the oracle built from Minv
                                                      (kinds COLF | SOLVEF | MULTF: the repaired models *_fixed)
   For CG / RG the verdict is check_close eps (model prediction) obs. *)
open Zutil

let q_of_string s : Model.q =
  match String.index_opt s '/' with
  | None -> { Model.qnum = z_of_string s; Model.qden = Model.XH }
  | Some i ->
    let n = String.sub s 0 i and d = String.sub s (i + 1) (String.length s - i - 1) in
    let dz = Z.of_string d in
    if Z.sign dz <= 0 then failwith ("bad denominator " ^ s);
    { Model.qnum = z_of_string n; Model.qden = pos_of_zarith dz }

let lps : (string, Model.lpmat) Hashtbl.t = Hashtbl.create 64
let mats : (string, Model.mat) Hashtbl.t = Hashtbl.create 64
let vecs : (string, Model.vec) Hashtbl.t = Hashtbl.create 64
let zvs : (string, Model.z list) Hashtbl.t = Hashtbl.create 64

let lp id = try Hashtbl.find lps id with Not_found -> failwith ("no lp " ^ id)
let mat id = try Hashtbl.find mats id with Not_found -> failwith ("no matrix " ^ id)
let vec id = try Hashtbl.find vecs id with Not_found -> failwith ("no vector " ^ id)
let zv id = try Hashtbl.find zvs id with Not_found -> failwith ("no int list " ^ id)

let rec take n l = if n = 0 then ([], l) else match l with
    | [] -> failwith "short matrix line"
    | x :: r -> let (a, b) = take (n - 1) r in (x :: a, b)

let rec columns rows k l = if k = 0 then [] else
    let (c, r) = take rows l in c :: columns rows (k - 1) r

let bid_of_z (z : Model.z) : Model.bid =
  let v = int_of_z z in
  if v < 0 then Model.BRow (nat_of_int (-1 - v)) else Model.BCol (nat_of_int v)

let rec zlist_eq a b = match a, b with
  | [], [] -> true
  | x :: a', y :: b' -> Z.equal (zarith_of_z x) (zarith_of_z y) && zlist_eq a' b'
  | _, _ -> false

let nat s = nat_of_int (int_of_string s)
let zero = q_of_string "0"

let () =
  let ic = open_in Sys.argv.(1) in
  let out = Buffer.create 65536 in
  (try
     while true do
       let l = input_line ic in
       match split_ws l with
       | [] -> ()
       | "LPM" :: id :: m :: n :: es ->
         let m = int_of_string m and n = int_of_string n in
         Hashtbl.replace lps id { Model.lm_rows = nat_of_int m; Model.lm_cols = columns m n (List.map q_of_string es) }
       | "MAT" :: id :: m :: k :: es ->
         Hashtbl.replace mats id (columns (int_of_string m) (int_of_string k) (List.map q_of_string es))
       | "VEC" :: id :: es -> Hashtbl.replace vecs id (List.map q_of_string es)
       | "ZV" :: id :: es -> Hashtbl.replace zvs id (List.map z_of_string es)
       | [ "SCALE"; nid; id; r; c ] -> Hashtbl.replace lps nid (Model.scale (zv r) (zv c) (lp id))
       | "Q" :: tag :: kind :: args ->
         let exact e = (Model.qeq_bool e zero) in
         let r =
           match kind, args with
           | "EQLP", [ a; b ] -> Model.lp_eqb (lp a) (lp b)
           | "BINDC", [ ids; bind ] -> zlist_eq (Model.bind_colrep (List.map bid_of_z (zv ids))) (zv bind)
           | "BINDR", [ p; ids; bind ] ->
             let p = lp p in
             zlist_eq (Model.bind_rowrep p.Model.lm_rows (Model.lm_ncols p) (List.map bid_of_z (zv ids))) (zv bind)
           | "COL", [ p; bind; col; k; eps ] ->
             let e = q_of_string eps in
             if exact e then Model.check_binv_col (lp p) (zv bind) (vec col) (nat k)
             else Model.check_binv_col_tol e (lp p) (zv bind) (vec col) (nat k)
           | "ROW", [ p; bind; row; k; eps ] ->
             let e = q_of_string eps in
             if exact e then Model.check_binv_row (lp p) (zv bind) (vec row) (nat k)
             else Model.check_binv_row_tol e (lp p) (zv bind) (vec row) (nat k)
           | "SOLVE", [ p; bind; rhs; sol; eps ] ->
             let e = q_of_string eps in
             if exact e then Model.check_solve (lp p) (zv bind) (vec rhs) (vec sol)
             else Model.check_solve_tol e (lp p) (zv bind) (vec rhs) (vec sol)
           | "MULT", [ p; bind; v; o; eps ] ->
             let e = q_of_string eps in
             if exact e then Model.check_mult (lp p) (zv bind) (vec v) (vec o)
             else Model.check_mult_tol e (lp p) (zv bind) (vec v) (vec o)
           | "MULTT", [ p; bind; v; o; eps ] ->
             let e = q_of_string eps in
             if exact e then Model.check_multT (lp p) (zv bind) (vec v) (vec o)
             else Model.check_multT_tol e (lp p) (zv bind) (vec v) (vec o)
           | "INDS", [ coef; inds ] ->
             let is = List.sort compare (List.map int_of_z (zv inds)) in
             Model.check_inds (vec coef) (List.map nat_of_int is)
           | "INV", [ m; mi ] -> Model.is_inverse (mat m) (mat mi)
           | "INVB", [ ps; bind; mi ] -> Model.is_inverse (Model.basis_matrix (lp ps) (zv bind)) (mat mi)
           | "INVR", [ ps; ids; mi ] -> Model.is_inverse (Model.rb_matrix (lp ps) (List.map bid_of_z (zv ids))) (mat mi)
           | "CG", [ kd; sc; r; c; ps; bind; binv; arg; obs; eps ] ->
             let sc = sc = "1" and r = zv r and c = zv c and ps = lp ps and bind = zv bind and binv = mat binv in
             let solve = Model.solve_with binv and cosolve = Model.cosolve_with binv in
             let m = ps.Model.lm_rows in
             let pred =
               match kd with
               | "ROW" -> Model.binv_row_colrep cosolve sc r c m bind (nat arg)
               | "COL" -> Model.binv_col_colrep solve sc r c m bind (nat arg)
               | "SOLVE" -> Model.binv_times_vec_colrep solve sc r c bind (vec arg)
               | "MULT" -> Model.mult_colrep sc r c (Model.basis_matrix ps bind) bind (vec arg)
               | "MULTT" -> Model.multT_colrep sc r c (Model.basis_matrix ps bind) bind (vec arg)
               | _ -> failwith ("bad CG kind " ^ kd)
             in
             Model.check_close (q_of_string eps) pred (vec obs)
           | "RG", [ kd; sc; r; c; ps; ids; minv; arg; obs; eps ] ->
             let sc = sc = "1" and r = zv r and c = zv c and ps = lp ps and ids = List.map bid_of_z (zv ids) in
             let pred =
               match kd with
               | "MULT" -> Model.mult_rowrep ps ids (vec arg)
               | "MULTF" -> Model.mult_rowrep_fixed sc r c ps ids (vec arg)
               | "MULTT" -> Model.multT_rowrep sc r c ps ids (vec arg)
               | _ ->
                 let minv = mat minv in
                 let solve = Model.solve_with minv and cosolve = Model.cosolve_with minv in
                 (match kd with
                  | "ROW" -> Model.binv_row_rowrep solve sc r c ps ids (nat arg)
                  | "COL" -> Model.binv_col_rowrep cosolve sc r c ps ids (nat arg)
                  | "COLF" -> Model.binv_col_rowrep_fixed cosolve sc r c ps ids (nat arg)
                  | "SOLVE" -> Model.binv_times_vec_rowrep cosolve sc r c ps ids (vec arg)
                  | "SOLVEF" -> Model.binv_times_vec_rowrep_fixed cosolve sc r c ps ids (vec arg)
                  | _ -> failwith ("bad RG kind " ^ kd))
             in
             Model.check_close (q_of_string eps) pred (vec obs)
           | _ -> failwith ("bad query " ^ l)
         in
         Buffer.add_string out (Printf.sprintf "R %s %b\n" tag r)
       | _ -> failwith ("bad line " ^ l)
     done
   with End_of_file -> ());
  print_string (Buffer.contents out)
