(* C15 model runner: reads the same case file as harness/C15.cpp and prints the same observation lines *)
open Zutil

let dbl_of_tok t : Model.dbl =
  if t = "nan" then Model.DNaN else if t = "inf" then Model.DPInf else if t = "-inf" then Model.DNInf
  else match String.split_on_char ':' t with
    | [m; e] -> Model.DFin (z_of_string m, z_of_string e)
    | _ -> failwith ("bad dbl " ^ t)

let tok_of_dbl (d : Model.dbl) =
  match d with
  | Model.DNaN -> "nan" | Model.DPInf -> "inf" | Model.DNInf -> "-inf"
  | Model.DFin (m, e) ->
    let m = ref (zarith_of_z m) and e = ref (zarith_of_z e) in
    if Z.sign !m = 0 then "0:0" else begin
      while Z.is_even !m do m := Z.shift_right !m 1; e := Z.succ !e done;
      Z.to_string !m ^ ":" ^ Z.to_string !e end

let rat_observed = ref false

let obs (s : Model.pstate) =
  let b = Buffer.create 256 in
  Buffer.add_string b "b=";
  List.iter (fun x -> Buffer.add_string b (if x then "1" else "0")) s.Model.bv;
  Buffer.add_string b " i=";
  List.iter (fun x -> Buffer.add_string b (string_of_z x ^ ",")) s.Model.iv;
  Buffer.add_string b " r=";
  List.iter (fun x -> Buffer.add_string b (tok_of_dbl x ^ ",")) s.Model.rv;
  Buffer.add_string b (" seed=" ^ string_of_z s.Model.seed);
  Buffer.add_string b " d=";
  List.iter (fun x -> Buffer.add_string b (string_of_z x ^ ",")) s.Model.dv;
  Buffer.add_string b " t=";
  List.iter (fun x -> Buffer.add_string b (tok_of_dbl x ^ ",")) s.Model.tv;
  Buffer.add_string b " lp=same";
  if !rat_observed then Buffer.add_string b (" rat=" ^ string_of_z s.Model.rat);
  Buffer.contents b

(* oracle for std::stod supplied with the case: "-" = throws *)
let sd_of_tok t = if t = "-" then None else Some (dbl_of_tok t)
let line_of_hex h = List.map z_of_int (unhex h)

let () =
  let lines = read_lines (open_in Sys.argv.(1)) in
  let st = ref (Model.c15_init []) in
  List.iter (fun l ->
      match split_ws l with
      | [] -> ()
      | "CASE" :: id :: _ ->
        st := Model.c15_init [];
        rat_observed := false;
        Printf.printf "CASE %s\ninit %s\n" id (obs !st)
      | op :: args ->
        let o = match op, args with
          | "B", [i; v] -> Some (Model.OBool (nat_of_int (int_of_string i), v = "1"))
          | "I", [i; v] -> Some (Model.OInt (nat_of_int (int_of_string i), z_of_string v))
          | "R", [i; v] -> Some (Model.OReal (nat_of_int (int_of_string i), dbl_of_tok v))
          | "S", [n] -> Some (Model.OSeed (z_of_string n))
          | "P", [h; sd] -> Some (Model.OParse (line_of_hex h, sd_of_tok sd))
          | ("L" | "LN"), rest ->
            let rec pairs = function
              | h :: sd :: r -> (line_of_hex h, sd_of_tok sd) :: pairs r
              | _ -> [] in
            Some (Model.OLoad (pairs rest))
          | "X", _ -> Some Model.OReset
          | "LOADLP", _ -> rat_observed := true; Some Model.OLoadLP
          | "C", rest ->
            let rec go (b, i, r) = function
              | "B" :: k :: v :: tl -> go ((nat_of_int (int_of_string k), v = "1") :: b, i, r) tl
              | "I" :: k :: v :: tl -> go (b, (nat_of_int (int_of_string k), z_of_string v) :: i, r) tl
              | "R" :: k :: v :: tl -> go (b, i, (nat_of_int (int_of_string k), dbl_of_tok v) :: r) tl
              | _ -> ((List.rev b, List.rev i), List.rev r) in
            Some (Model.OCopy (go ([], [], []) rest))
          | _ -> None in
        (match o with
         | None -> Printf.printf "%s ret=unmodelled\n" op
         | Some o ->
           let (s', ok) = Model.c15_step !st o in
           st := s';
           Printf.printf "%s ret=%s %s\n" op (if ok then "1" else "0") (obs s')))
    lines
