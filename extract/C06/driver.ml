(* C06 model runner: reads a case file in the format of harness/C06.cpp (with the solver's answers added as
   oracle tokens: "OPT st hs", "CB st") and prints the observation lines the harness prints up to the "|". *)
open Zutil

let dbl_of_tok t : Model.dbl =
  if t = "nan" then Model.DNaN else if t = "inf" then Model.DPInf else if t = "-inf" then Model.DNInf
  else match String.split_on_char ':' t with
    | [m; e] -> Model.DFin (z_of_string m, z_of_string e)
    | _ -> failwith ("bad dbl " ^ t)

let tok_of_dbl (d : Model.dbl) =
  match d with
  | Model.DNaN -> "nan" | Model.DPInf -> "inf" | Model.DNInf -> "-inf"
  | Model.DFin (m, e) ->
    let m = ref (zarith_of_z m) and e = ref (zarith_of_z e) in
    if Z.sign !m = 0 then "0:0" else begin
      while Z.is_even !m do m := Z.shift_right !m 1; e := Z.succ !e done;
      Z.to_string !m ^ ":" ^ Z.to_string !e end

let dlist b l = List.iter (fun x -> Buffer.add_string b (tok_of_dbl x ^ ",")) l

let file b (f : (Model.nat * Model.dbl) list list) =
  List.iteri (fun i v ->
      let es = List.sort compare (List.map (fun (j, x) -> (int_of_nat j, x)) v) in
      List.iter (fun (j, x) -> Buffer.add_string b (Printf.sprintf "%d,%d,%s;" i j (tok_of_dbl x))) es) f

let obs (s : Model.state) =
  let l = s.Model.l in
  let b = Buffer.create 512 in
  Buffer.add_string b (Printf.sprintf "m=%d n=%d nnz=%d sense=%d lsense=%d"
                         (int_of_nat (Model.nrows l)) (int_of_nat (Model.ncols l)) (int_of_nat (Model.nnz l))
                         (if s.Model.pmax then 1 else -1) (if l.Model.lmax then 1 else -1));
  Buffer.add_string b " obj="; dlist b (Model.uobj l);
  Buffer.add_string b " lo="; dlist b l.Model.lo;
  Buffer.add_string b " up="; dlist b l.Model.up;
  Buffer.add_string b " lhs="; dlist b l.Model.lhs;
  Buffer.add_string b " rhs="; dlist b l.Model.rhs;
  Buffer.add_string b " A="; file b l.Model.rf;
  Buffer.add_string b " AT="; file b l.Model.cf;
  let h = if s.Model.hasSol then 1 else 0 in
  Buffer.add_string b (Printf.sprintf " hp=%d hd=%d hs=%d st=%s" h h h (string_of_z s.Model.stat));
  Buffer.contents b

(* token cursor *)
let toks = ref [||] and pos = ref 0
let nxt () = let t = !toks.(!pos) in incr pos; t
let ni () = int_of_string (nxt ())
let nn () = nat_of_int (ni ())
let nd () = dbl_of_tok (nxt ())
let nvec () = let k = ni () in List.init k (fun _ -> let j = nn () in let v = nd () in (j, v))
let ndl k = List.init k (fun _ -> nd ())

let parse_op name : Model.op option =
  match name with
  | "AR" -> let l = nd () in let r = nd () in let v = nvec () in Some (Model.AddRow ((l, r), v))
  | "ARS" -> let c = ni () in
    Some (Model.AddRows (List.init c (fun _ -> let l = nd () in let r = nd () in let v = nvec () in ((l, r), v))))
  | "AC" -> let o = nd () in let l = nd () in let u = nd () in let v = nvec () in Some (Model.AddCol (((o, l), u), v))
  | "ACS" -> let c = ni () in
    Some (Model.AddCols (List.init c (fun _ -> let o = nd () in let l = nd () in let u = nd () in let v = nvec () in (((o, l), u), v))))
  | "CR" -> let i = nn () in let l = nd () in let r = nd () in let v = nvec () in Some (Model.ChgRow (i, ((l, r), v)))
  | "CC" -> let j = nn () in let o = nd () in let l = nd () in let u = nd () in let v = nvec () in
    Some (Model.ChgCol (j, (((o, l), u), v)))
  | "L1" -> let i = nn () in let v = nd () in Some (Model.ChgLhs (i, v))
  | "R1" -> let i = nn () in let v = nd () in Some (Model.ChgRhs (i, v))
  | "G1" -> let i = nn () in let a = nd () in let b = nd () in Some (Model.ChgRange (i, a, b))
  | "W1" -> let i = nn () in let v = nd () in Some (Model.ChgLo (i, v))
  | "U1" -> let i = nn () in let v = nd () in Some (Model.ChgUp (i, v))
  | "B1" -> let i = nn () in let a = nd () in let b = nd () in Some (Model.ChgBnd (i, a, b))
  | "O1" -> let i = nn () in let v = nd () in Some (Model.ChgObj (i, v))
  | "LV" -> let k = ni () in Some (Model.ChgLhsV (ndl k))
  | "RV" -> let k = ni () in Some (Model.ChgRhsV (ndl k))
  | "WV" -> let k = ni () in Some (Model.ChgLoV (ndl k))
  | "UV" -> let k = ni () in Some (Model.ChgUpV (ndl k))
  | "OV" -> let k = ni () in Some (Model.ChgObjV (ndl k))
  | "GV" -> let k = ni () in let a = ndl k in let b = ndl k in Some (Model.ChgRangeV (a, b))
  | "BV" -> let k = ni () in let a = ndl k in let b = ndl k in Some (Model.ChgBndV (a, b))
  | "E" -> let i = nn () in let j = nn () in let v = nd () in Some (Model.ChgElem (i, j, v))
  | "RR" -> Some (Model.RemRow (nn ()))
  | "RC" -> Some (Model.RemCol (nn ()))
  | "RRP" -> let k = ni () in Some (Model.RemRowsPerm (List.init k (fun _ -> z_of_string (nxt ()))))
  | "RCP" -> let k = ni () in Some (Model.RemColsPerm (List.init k (fun _ -> z_of_string (nxt ()))))
  | "RRI" -> let k = ni () in Some (Model.RemRowsIdx (List.init k (fun _ -> nn ())))
  | "RCI" -> let k = ni () in Some (Model.RemColsIdx (List.init k (fun _ -> nn ())))
  | "RRG" -> let a = nn () in let b = nn () in Some (Model.RemRowRange (a, b))
  | "RCG" -> let a = nn () in let b = nn () in Some (Model.RemColRange (a, b))
  | "CL" -> Some Model.ClearLP
  | "SS" -> Some (Model.SetSense (ni () = 1))
  | "OPT" -> let st = z_of_string (nxt ()) in let hs = ni () = 1 in Some (Model.Optimize (st, hs))
  | "GB" | "XU" -> Some Model.GetBasis
  | "SB" -> Some Model.SetBasis
  | "CB" -> Some (Model.ClearBasis (z_of_string (nxt ())))
  | _ -> None

(* does the call hand a perm array back?  RRI/RCI/RRG/RCG only when the caller passes a buffer (last token 1) *)
let shows_perm name (t : string array) =
  match name with
  | "RRP" | "RCP" -> true
  | "RRI" | "RCI" | "RRG" | "RCG" -> t.(Array.length t - 1) = "1"
  | _ -> false

let () =
  let lines = read_lines (open_in Sys.argv.(1)) in
  let st = ref (Model.init true Model.DNaN Model.DNaN) in
  List.iter (fun l ->
      match split_ws l with
      | [] -> ()
      | "CASE" :: id :: sense :: inf :: eps :: _ ->
        st := Model.init (sense = "1") (dbl_of_tok eps) (dbl_of_tok inf);
        Printf.printf "CASE %s\ninit inf=%s eps=%s %s\n" id inf eps (obs !st)
      | name :: _ as tl ->
        toks := Array.of_list tl; pos := 1;
        (match (try parse_op name with _ -> None) with
         | None -> Printf.printf "%s unmodelled\n" name
         | Some o ->
           let l = (!st).Model.l in
           let ok = Model.valid_op (Model.nrows l) (Model.ncols l) o in
           let (s', p) = Model.step !st o in
           st := s';
           let perm = if shows_perm name !toks then
               " perm=" ^ String.concat "" (List.map (fun z -> string_of_z z ^ ",") p) else "" in
           Printf.printf "%s %s%s%s\n" name (obs s') perm (if ok then "" else " INVALID-OP")))
    lines
