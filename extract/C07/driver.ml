(* C07 model runner: reads a case file in the format of harness/C07.cpp (argv[1], or "-" for stdin, answered line by
   line so that a generator can look at the dimensions before it chooses the next call) and prints, after every
   operation, the part of the harness' observation line that the model predicts:
     <op> mode=<k> inf=<dyadic> | Q <rational LP> | T rt=.. ct=.. | R <real LP>
   A call outside the documented domain in the current state is answered with "<op> INVALID" and not executed. *)
open Zutil

module ZA = Z
module QA = Q

let dy_of_tok t : Model.dy =
  match String.split_on_char ':' t with
  | [m; e] -> (z_of_string m, z_of_string e)
  | _ -> failwith ("bad dyadic " ^ t)

let tok_of_dy ((m, e) : Model.dy) =
  let m = ref (zarith_of_z m) and e = ref (zarith_of_z e) in
  if ZA.sign !m = 0 then "0:0" else begin
    while ZA.is_even !m do m := ZA.shift_right !m 1; e := ZA.succ !e done;
    ZA.to_string !m ^ ":" ^ ZA.to_string !e end

let q_of_tok t : Model.q =
  let n, d = match String.split_on_char '/' t with
    | [n] -> ZA.of_string n, ZA.one
    | [n; d] -> ZA.of_string n, ZA.of_string d
    | _ -> failwith ("bad rational " ^ t) in
  let r = QA.make n d in      (* canonical form, like mpq_canonicalize *)
  { Model.qnum = z_of_zarith (QA.num r); Model.qden = pos_of_zarith (QA.den r) }

let tok_of_q (x : Model.q) =
  QA.to_string (QA.make (zarith_of_z x.Model.qnum) (zarith_of_pos x.Model.qden))
let q_is_zero (x : Model.q) = ZA.sign (zarith_of_z x.Model.qnum) = 0
let dy_is_zero ((m, _) : Model.dy) = ZA.sign (zarith_of_z m) = 0

let ty_name = function
  | Model.TFree -> "F" | Model.TLower -> "L" | Model.TUpper -> "U" | Model.TBoxed -> "B" | Model.TFixed -> "X"

let dump tok is_zero uobj (l : 'a Model.lp) =
  let b = Buffer.create 512 in
  let lst xs = List.iter (fun x -> Buffer.add_string b (tok x ^ ",")) xs in
  let m = List.length l.Model.lhs and n = List.length l.Model.lo in
  Buffer.add_string b (Printf.sprintf "m=%d n=%d lsense=%d off=%s" m n (if l.Model.lmax then 1 else -1) (tok l.Model.off));
  Buffer.add_string b " obj="; lst (uobj l);
  Buffer.add_string b " mobj="; lst l.Model.mobj;
  Buffer.add_string b " lo="; lst l.Model.lo;
  Buffer.add_string b " up="; lst l.Model.up;
  Buffer.add_string b " lhs="; lst l.Model.lhs;
  Buffer.add_string b " rhs="; lst l.Model.rhs;
  Buffer.add_string b " A=";
  let rows = Array.of_list (List.map Array.of_list l.Model.mat) in
  Array.iteri (fun i r -> Array.iteri (fun j x ->
      if not (is_zero x) then Buffer.add_string b (Printf.sprintf "%d,%d,%s;" i j (tok x))) r) rows;
  Buffer.add_string b " AT=";
  for j = 0 to n - 1 do
    Array.iteri (fun i r ->
        if j < Array.length r && not (is_zero r.(j)) then
          Buffer.add_string b (Printf.sprintf "%d,%d,%s;" i j (tok r.(j)))) rows
  done;
  Buffer.contents b

let mode_num = function Model.OnlyReal -> 0 | Model.Auto -> 1 | Model.Manual -> 2
let mode_of = function 0 -> Model.OnlyReal | 1 -> Model.Auto | _ -> Model.Manual

let obs name (s : Model.state) =
  let q = match s.Model.ql with
    | None -> "none"
    | Some q -> dump tok_of_q q_is_zero Model.c07_uobj_q q in
  let tys l = String.concat "" (List.map ty_name l) in
  Printf.sprintf "%s mode=%d inf=%s | Q %s | T rt=%s. ct=%s. | R %s" name (mode_num s.Model.mode) (tok_of_dy s.Model.pinf)
    q (tys s.Model.rty) (tys s.Model.cty) (dump tok_of_dy dy_is_zero Model.c07_uobj_r s.Model.rl)

(* token cursor *)
let toks = ref [||] and pos = ref 0
let nxt () = let t = !toks.(!pos) in incr pos; t
let ni () = int_of_string (nxt ())
let nn () = nat_of_int (ni ())
let nd () = dy_of_tok (nxt ())
let nq () = q_of_tok (nxt ())
let vec f = let k = ni () in List.init k (fun _ -> let j = nn () in let v = f () in (j, v))
let lst f k = List.init k (fun _ -> f ())
let row f = let l = f () in let r = f () in let v = vec f in ((l, r), v)
let col f = let o = f () in let l = f () in let u = f () in let v = vec f in (((o, l), u), v)
let zl k = List.init k (fun _ -> z_of_int (ni ()))

let parse_op name : Model.op option =
  let r x = Some (Model.OR x) and q x = Some (Model.OQ x) in
  match name with
  | "rAR" -> r (Model.RAddRow (row nd))
  | "rARS" -> let c = ni () in r (Model.RAddRows (lst (fun () -> row nd) c))
  | "rAC" -> r (Model.RAddCol (col nd))
  | "rACS" -> let c = ni () in r (Model.RAddCols (lst (fun () -> col nd) c))
  | "rCR" -> let i = nn () in r (Model.RChgRow (i, row nd))
  | "rCC" -> let j = nn () in r (Model.RChgCol (j, col nd))
  | "rL" -> let i = nn () in r (Model.RLhs (i, nd ()))
  | "rR" -> let i = nn () in r (Model.RRhs (i, nd ()))
  | "rG" -> let i = nn () in let a = nd () in let b = nd () in r (Model.RRange (i, a, b))
  | "rW" -> let j = nn () in r (Model.RLo (j, nd ()))
  | "rU" -> let j = nn () in r (Model.RUp (j, nd ()))
  | "rB" -> let j = nn () in let a = nd () in let b = nd () in r (Model.RBnd (j, a, b))
  | "rO" -> let j = nn () in r (Model.RObj (j, nd ()))
  | "rLV" -> let c = ni () in r (Model.RLhsV (lst nd c))
  | "rRV" -> let c = ni () in r (Model.RRhsV (lst nd c))
  | "rWV" -> let c = ni () in r (Model.RLoV (lst nd c))
  | "rUV" -> let c = ni () in r (Model.RUpV (lst nd c))
  | "rOV" -> let c = ni () in r (Model.RObjV (lst nd c))
  | "rGV" -> let c = ni () in let a = lst nd c in let b = lst nd c in r (Model.RRangeV (a, b))
  | "rBV" -> let c = ni () in let a = lst nd c in let b = lst nd c in r (Model.RBndV (a, b))
  | "rE" -> let i = nn () in let j = nn () in r (Model.RElem (i, j, nd ()))
  | "rRR" -> r (Model.RRemRow (nn ()))
  | "rRC" -> r (Model.RRemCol (nn ()))
  | "rRRP" -> let c = ni () in r (Model.RRemRows (zl c))
  | "rRCP" -> let c = ni () in r (Model.RRemCols (zl c))
  | "rRRI" -> let c = ni () in r (Model.RRemRowsIdx (lst nn c))
  | "rRCI" -> let c = ni () in r (Model.RRemColsIdx (lst nn c))
  | "rRRG" -> let a = nn () in let b = nn () in r (Model.RRemRowRange (a, b))
  | "rRCG" -> let a = nn () in let b = nn () in r (Model.RRemColRange (a, b))
  | "rCL" -> r Model.RClear
  | "qAR" | "gAR" -> q (Model.QAddRow (name = "gAR", row nq))
  | "qARS" | "gARS" -> let c = ni () in q (Model.QAddRows (name = "gARS", lst (fun () -> row nq) c))
  | "qAC" | "gAC" -> q (Model.QAddCol (name = "gAC", col nq))
  | "qACS" | "gACS" -> let c = ni () in q (Model.QAddCols (name = "gACS", lst (fun () -> col nq) c))
  | "qCR" -> let i = nn () in q (Model.QChgRow (i, row nq))
  | "qCC" -> let j = nn () in q (Model.QChgCol (j, col nq))
  | "qL" | "gL" -> let i = nn () in q (Model.QLhs (i, nq ()))
  | "qR" -> let i = nn () in q (Model.QRhs (i, nq ()))
  | "qG" | "gG" -> let i = nn () in let a = nq () in let b = nq () in q (Model.QRange (i, a, b))
  | "qW" | "gW" -> let j = nn () in q (Model.QLo (j, nq ()))
  | "qU" | "gU" -> let j = nn () in q (Model.QUp (j, nq ()))
  | "qB" | "gB" -> let j = nn () in let a = nq () in let b = nq () in q (Model.QBnd (j, a, b))
  | "qO" | "gO" -> let j = nn () in q (Model.QObj (j, nq ()))
  | "qLV" -> let c = ni () in q (Model.QLhsV (lst nq c))
  | "qRV" -> let c = ni () in q (Model.QRhsV (lst nq c))
  | "gRV" -> let c = ni () in q (Model.GRhsV (lst nq c))
  | "qWV" -> let c = ni () in q (Model.QLoV (lst nq c))
  | "qUV" -> let c = ni () in q (Model.QUpV (lst nq c))
  | "qOV" -> let c = ni () in q (Model.QObjV (lst nq c))
  | "qGV" -> let c = ni () in let a = lst nq c in let b = lst nq c in q (Model.QRangeV (a, b))
  | "qBV" -> let c = ni () in let a = lst nq c in let b = lst nq c in q (Model.QBndV (a, b))
  | "qE" | "gE" -> let i = nn () in let j = nn () in q (Model.QElem (name = "gE", i, j, nq ()))
  | "qRR" -> q (Model.QRemRow (nn ()))
  | "qRC" -> q (Model.QRemCol (nn ()))
  | "qRRP" -> let c = ni () in q (Model.QRemRows (zl c))
  | "qRCP" -> let c = ni () in q (Model.QRemCols (zl c))
  | "qRRI" -> let c = ni () in q (Model.QRemRowsIdx (lst nn c))
  | "qRCI" -> let c = ni () in q (Model.QRemColsIdx (lst nn c))
  | "qRRG" -> let a = nn () in let b = nn () in q (Model.QRemRowRange (a, b))
  | "qRCG" -> let a = nn () in let b = nn () in q (Model.QRemColRange (a, b))
  | "qCL" -> q Model.QClear
  | "SR" -> Some Model.SyncReal
  | "SQ" -> Some Model.SyncRat
  | "XS" -> Some Model.ExactSolveSync
  | "M" -> Some (Model.SetMode (mode_of (ni ())))
  | "I" -> Some (Model.SetInfty (nd ()))
  | "S" -> Some (Model.SetSense (ni () = 1))
  | "F" -> Some (Model.SetOffset (nd ()))
  | _ -> None

let () =
  let ic = if Sys.argv.(1) = "-" then stdin else open_in Sys.argv.(1) in
  let st = ref Model.c07_init in
  (try
     while true do
       let l = input_line ic in
       (match split_ws l with
        | [] -> ()
        | "CASE" :: id :: sm :: sn :: _ ->
          st := Model.c07_step Model.c07_init (Model.SetSense (int_of_string sn = 1));
          st := Model.c07_step !st (Model.SetMode (mode_of (int_of_string sm)));
          Printf.printf "CASE %s\n%s\n" id (obs "init" !st)
        | name :: _ as ts ->
          toks := Array.of_list ts; pos := 1;
          (match (try parse_op name with _ -> None) with
           | None -> Printf.printf "%s UNMODELLED\n" name
           | Some o ->
             if Model.c07_valid !st o then begin
               st := Model.c07_step !st o;
               print_endline (obs name !st) end
             else Printf.printf "%s INVALID\n" name));
       flush stdout
     done
   with End_of_file -> ())
