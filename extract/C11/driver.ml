(* C10 / C11 checker runner: module Model is the extraction of coq/LUModel.v.  Reads a query file (argv[1]) and
   prints one verdict line per query.  All decisions are taken by extracted functions; this file only parses
   rationals ("p" or "p/q"), keeps named matrices / vectors and the specification state ("cur", advanced by
   Model.lu_step), and prints booleans.

     MAT  id n e_0 ... e_{n*n-1}      square matrix, column-major (column 0 first)
     MATR id m k e_0 ... e_{m*k-1}    k columns of m entries
     VEC  id e_0 ...
     LOAD id                          cur := lu_step cur (OpLoad id)
     CHANGE k vid                     cur := lu_step cur (OpChange k vid)
     STORE id                         id := cur
     BASIS id m colsid b_0 ... b_{m-1}   id := basis_matrix m cols bind  (prints "R id none" if undefined)
     Q tag REGULAR B N d | COND B N d bound | SINGULAR B v | SOLVER B x b | SOLVEL B x b
         | RESR B x b eps | RESL B x b eps | CLOSE x y eps
         | SOLVE2R B x y b d | SOLVE3R B x y z b d e | SOLVE2L B x y b d | SOLVE3L B x y z b d e
         | INVCOL B c v | INVROW B r v | EQMAT A B
   output:  "R tag true|false" *)
open Zutil

let q_of_string s : Model.q =
  match String.index_opt s '/' with
  | None -> { Model.qnum = z_of_string s; Model.qden = Model.XH }
  | Some i ->
    let n = String.sub s 0 i and d = String.sub s (i + 1) (String.length s - i - 1) in
    let dz = Z.of_string d in
    if Z.sign dz <= 0 then failwith ("bad denominator " ^ s);
    { Model.qnum = z_of_string n; Model.qden = pos_of_zarith dz }

let mats : (string, Model.mat) Hashtbl.t = Hashtbl.create 64
let vecs : (string, Model.vec) Hashtbl.t = Hashtbl.create 64
let cur : Model.mat ref = ref []

let mat id = if id = "cur" then !cur else
    (try Hashtbl.find mats id with Not_found -> failwith ("no matrix " ^ id))
let vec id = try Hashtbl.find vecs id with Not_found -> failwith ("no vector " ^ id)
let dim (m : Model.mat) = nat_of_int (List.length m)

let rec take n l = if n = 0 then ([], l) else match l with
    | [] -> failwith "short matrix line"
    | x :: r -> let (a, b) = take (n - 1) r in (x :: a, b)

let rec columns rows k l = if k = 0 then [] else
    let (c, r) = take rows l in c :: columns rows (k - 1) r

let () =
  let ic = open_in Sys.argv.(1) in
  let out = Buffer.create 65536 in
  (try
     while true do
       let l = input_line ic in
       match split_ws l with
       | [] -> ()
       | "MAT" :: id :: n :: es ->
         let n = int_of_string n in
         Hashtbl.replace mats id (columns n n (List.map q_of_string es))
       | "MATR" :: id :: m :: k :: es ->
         Hashtbl.replace mats id (columns (int_of_string m) (int_of_string k) (List.map q_of_string es))
       | "VEC" :: id :: es -> Hashtbl.replace vecs id (List.map q_of_string es)
       | [ "LOAD"; id ] -> cur := Model.lu_step !cur (Model.OpLoad (mat id))
       | [ "CHANGE"; k; v ] -> cur := Model.lu_step !cur (Model.OpChange (nat_of_int (int_of_string k), vec v))
       | [ "STORE"; id ] -> Hashtbl.replace mats id !cur
       | "BASIS" :: id :: m :: cols :: bind ->
         (match Model.basis_matrix (nat_of_int (int_of_string m)) (mat cols) (List.map z_of_string bind) with
          | Some b -> Hashtbl.replace mats id b; Buffer.add_string out ("R " ^ id ^ " true\n")
          | None -> Buffer.add_string out ("R " ^ id ^ " none\n"))
       | "Q" :: tag :: kind :: args ->
         let r =
           match kind, args with
           | "REGULAR", [ b; n; d ] -> let b = mat b in Model.regular_cert_scaled (dim b) b (mat n) (q_of_string d)
           | "COND", [ b; n; d; bound ] ->
             let b = mat b in
             let nb = Model.norm_inf_mat (dim b) b and nn = Model.norm_inf_mat (dim b) (mat n) in
             Model.qle_bool (Model.qmult nb nn) (Model.qmult (q_of_string bound) (Model.qabs (q_of_string d)))
           | "SINGULAR", [ b; v ] -> let b = mat b in Model.singular_cert (dim b) b (vec v)
           | "SOLVER", [ b; x; r ] -> let b = mat b in Model.check_solve_right (dim b) b (vec x) (vec r)
           | "SOLVEL", [ b; x; r ] -> let b = mat b in Model.check_solve_left (dim b) b (vec x) (vec r)
           | "RESR", [ b; x; r; e ] -> let b = mat b in Model.check_residual_right (dim b) b (vec x) (vec r) (q_of_string e)
           | "RESL", [ b; x; r; e ] -> let b = mat b in Model.check_residual_left (dim b) b (vec x) (vec r) (q_of_string e)
           | "CLOSE", [ x; y; e ] -> Model.check_close (vec x) (vec y) (q_of_string e)
           | "SOLVE2R", [ b; x; y; r; d ] -> let b = mat b in Model.solve2_right_spec (dim b) b (vec x) (vec y) (vec r) (vec d)
           | "SOLVE3R", [ b; x; y; z; r; d; e ] ->
             let b = mat b in Model.solve3_right_spec (dim b) b (vec x) (vec y) (vec z) (vec r) (vec d) (vec e)
           | "SOLVE2L", [ b; x; y; r; d ] -> let b = mat b in Model.solve2_left_spec (dim b) b (vec x) (vec y) (vec r) (vec d)
           | "SOLVE3L", [ b; x; y; z; r; d; e ] ->
             let b = mat b in Model.solve3_left_spec (dim b) b (vec x) (vec y) (vec z) (vec r) (vec d) (vec e)
           | "INVCOL", [ b; c; v ] -> let b = mat b in Model.check_inverse_col (dim b) b (nat_of_int (int_of_string c)) (vec v)
           | "INVROW", [ b; c; v ] -> let b = mat b in Model.check_inverse_row (dim b) b (nat_of_int (int_of_string c)) (vec v)
           | "EQMAT", [ a; b ] -> Model.meqb (mat a) (mat b)
           | _ -> failwith ("bad query " ^ l)
         in
         Buffer.add_string out (Printf.sprintf "R %s %b\n" tag r)
       | _ -> failwith ("bad line " ^ l)
     done
   with End_of_file -> ());
  print_string (Buffer.contents out)
