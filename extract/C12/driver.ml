(* C12 model runner.
     modelrun lit <casefile>   "POW k tok" lines fill the oracle for the C library's pow(10,k);
                               "S hex"          -> "S hex 0|1"            is the string a literal of the grammar?
                               "L hex cand"     -> "L hex den=.. code=.. lpf=.. nd=.."
                                                   denotation, ratFromString as coded (stored num/den), what the LP
                                                   reader keeps, and whether cand (m:e | inf | -inf) is the correctly
                                                   rounded double of the denotation
                               "P num/den"      -> "P hex" the printed form of the rational (print_q), as hex
     modelrun rt <casefile>    round-trip cases in the harness format -> "CASE id" / "IMG <dump>" (the LP a re-read
                               file must contain: lpf_image / mps_image of the case) and "KEEP <mask>"
   Rationals are printed as canonical num/den. *)
open Zutil

let ascii_of_int (c : int) : Model.ascii =
  let b i = (c lsr i) land 1 = 1 in
  Model.Ascii (b 0, b 1, b 2, b 3, b 4, b 5, b 6, b 7)

let int_of_ascii (a : Model.ascii) : int =
  match a with
  | Model.Ascii (b0, b1, b2, b3, b4, b5, b6, b7) ->
    let v b i = if b then 1 lsl i else 0 in
    v b0 0 + v b1 1 + v b2 2 + v b3 3 + v b4 4 + v b5 5 + v b6 6 + v b7 7

let chars_of_hex h = List.map ascii_of_int (unhex h)
let hex_of_chars cs = String.concat "" (List.map (fun a -> Printf.sprintf "%02x" (int_of_ascii a)) cs)

let q_of_zz (n : Z.t) (d : Z.t) : Model.q =
  let n, d = if Z.sign d < 0 then Z.neg n, Z.neg d else n, d in
  { Model.qnum = z_of_zarith n; Model.qden = pos_of_zarith d }

let zz_of_q (q : Model.q) = (zarith_of_z q.Model.qnum, zarith_of_pos q.Model.qden)

let string_of_q (q : Model.q) =
  let n, d = zz_of_q q in
  let g = Z.gcd n d in
  let g = if Z.sign g = 0 then Z.one else g in
  Z.to_string (Z.div n g) ^ "/" ^ Z.to_string (Z.div d g)

let q_of_string (s : string) : Model.q =
  match String.split_on_char '/' s with
  | [n] -> q_of_zz (Z.of_string n) Z.one
  | [n; d] -> q_of_zz (Z.of_string n) (Z.of_string d)
  | _ -> failwith ("bad rational " ^ s)

let q_of_dyadic (t : string) : Model.q =
  match String.split_on_char ':' t with
  | [m; e] ->
    let m = Z.of_string m and e = int_of_string e in
    if e >= 0 then q_of_zz (Z.shift_left m e) Z.one else q_of_zz m (Z.shift_left Z.one (-e))
  | _ -> failwith ("bad dyadic " ^ t)

let dbl_of_tok t : Model.dbl =
  if t = "nan" then Model.DNaN else if t = "inf" then Model.DPInf else if t = "-inf" then Model.DNInf
  else match String.split_on_char ':' t with
    | [m; e] -> Model.DFin (z_of_string m, z_of_string e)
    | _ -> failwith ("bad dbl " ^ t)

(* ------------------------------------------------------------------ literal mode *)

let pow_tab : (int, Model.dbl) Hashtbl.t = Hashtbl.create 997

let pw (k : Model.z) : Model.dbl =
  let k = zarith_of_z k in
  if Z.fits_int k && Hashtbl.mem pow_tab (Z.to_int k) then Hashtbl.find pow_tab (Z.to_int k)
  else if Z.sign k > 0 then Model.DPInf else Model.DFin (Model.Z0, Model.Z0)

let string_of_outcome = function
  | Model.OVal (n, d) -> "V:" ^ string_of_z n ^ "/" ^ string_of_z d
  | Model.OThrow -> "THROW"
  | Model.OCrash -> "CRASH"

let lit_mode file =
  let lines = read_lines (open_in file) in
  List.iter (fun l ->
      match split_ws l with
      | ["POW"; k; tok] -> Hashtbl.replace pow_tab (int_of_string k) (dbl_of_tok tok)
      | ["S"; h] ->
        Printf.printf "S %s %d\n" h (match Model.denote (chars_of_hex h) with Some _ -> 1 | None -> 0)
      | ["L"; h; cand] ->
        let cs = chars_of_hex h in
        (* value through the symbolic form (proved equal to denote: Literal_Proofs.denote_sci_spec); the power of ten
           is computed here with zarith.  For exponents of moderate size [denote] itself is evaluated and compared. *)
        let sci = Model.denote_sci cs in
        let den, chk = match sci with
          | None -> (None, (match Model.denote cs with None -> "1" | Some _ -> "0"))
          | Some (((neg, n), d), e) ->
            let n = zarith_of_z n and d = zarith_of_z d and e = zarith_of_z e in
            if Z.gt (Z.abs e) (Z.of_int 120000) then (None, "huge")
            else begin
              let e = Z.to_int e in
              let p = Z.pow (Z.of_int 10) (abs e) in
              let n = if neg then Z.neg n else n in
              let q = if e >= 0 then q_of_zz (Z.mul n p) d else q_of_zz n (Z.mul d p) in
              let chk = if abs e <= 400 then
                  (match Model.denote cs with
                   | Some q' -> if string_of_q q' = string_of_q q then "1" else "0"
                   | None -> "0")
                else "skip" in
              (Some q, chk)
            end in
        let code = Model.rat_code pw cs in
        let lpf = Model.lpf_value pw cs in
        let nd = match den with
          | None -> "na"
          | Some q ->
            if cand = "inf" || cand = "-inf" then
              (let neg = (cand = "-inf") in
               let n, _ = zz_of_q q in
               if Model.overflowsb q && ((Z.sign n < 0) = neg) then "ovf1" else "ovf0")
            else (match dbl_of_tok cand with
                | Model.DFin (m, e) ->
                  if Z.sign (zarith_of_z m) = 0 && Model.underflowsb q then "1"
                  else if Model.nearest_doubleb q m e then "1" else "0"
                | _ -> "0") in
        Printf.printf "L %s den=%s code=%s lpf=%s nd=%s chk=%s\n" h
          (match den with Some q -> string_of_q q | None -> if chk = "huge" then "huge" else "none")
          (string_of_outcome code) (string_of_outcome lpf) nd chk
      | ["P"; q] ->
        let cs = Model.print_q (q_of_string q) in
        Printf.printf "P %s %s\n" (hex_of_chars cs)
          (match Model.denote cs with Some r -> string_of_q r | None -> "none")
      | _ -> ())
    lines

(* ------------------------------------------------------------------ round-trip mode *)

type case = {
  mutable id : string; mutable fmt : string; mutable mode : string; mutable wzo : bool;
  mutable sense : Model.sense; mutable offset : Model.q;
  mutable cols : Model.col list; mutable rows : (Model.q option * (int * Model.q) list * Model.q option) list }

let value mode t : Model.q = if mode = "rat" then q_of_string t else q_of_dyadic t
let side mode t : Model.q option = if t = "inf" || t = "-inf" then None else Some (value mode t)

let dump (p : Model.lp) =
  let b = Buffer.create 1024 in
  let ext inf = function None -> inf | Some q -> string_of_q q in
  let cols = p.Model.l_cols and rows = p.Model.l_rows in
  Buffer.add_string b (Printf.sprintf "m=%d n=%d sense=%s off=%s obj=" (List.length rows) (List.length cols)
                         (match p.Model.l_sense with Model.Min -> "min" | Model.Max -> "max") (string_of_q p.Model.l_offset));
  List.iter (fun c -> Buffer.add_string b (string_of_q c.Model.c_obj ^ ",")) cols;
  Buffer.add_string b " lo=";
  List.iter (fun c -> Buffer.add_string b (ext "-inf" c.Model.c_lo ^ ",")) cols;
  Buffer.add_string b " up=";
  List.iter (fun c -> Buffer.add_string b (ext "inf" c.Model.c_up ^ ",")) cols;
  Buffer.add_string b " lhs=";
  List.iter (fun r -> Buffer.add_string b (ext "-inf" r.Model.r_lhs ^ ",")) rows;
  Buffer.add_string b " rhs=";
  List.iter (fun r -> Buffer.add_string b (ext "inf" r.Model.r_rhs ^ ",")) rows;
  Buffer.add_string b " A=";
  List.iteri (fun i r ->
      List.iteri (fun j v ->
          let n, _ = zz_of_q v in
          if Z.sign n <> 0 then Buffer.add_string b (Printf.sprintf "%d,%d,%s;" i j (string_of_q v)))
        r.Model.r_coefs) rows;
  Buffer.contents b

let finish (c : case) =
  let n = List.length c.cols in
  let zero = q_of_zz Z.zero Z.one in
  let rows = List.map (fun (l, es, r) ->
      let a = Array.make n zero in
      List.iter (fun (j, v) -> a.(j) <- v) es;
      { Model.r_lhs = l; Model.r_coefs = Array.to_list a; Model.r_rhs = r }) (List.rev c.rows) in
  let p = { Model.l_sense = c.sense; Model.l_offset = c.offset; Model.l_cols = List.rev c.cols; Model.l_rows = rows } in
  let img = if c.fmt = "mps" then Model.mps_image c.wzo p else Model.lpf_image c.wzo p in
  let base = if c.fmt = "mps" then Model.drop_offset (Model.mps_max_to_min p) else Model.drop_offset (Model.split_ranges p) in
  let keep = if c.wzo then List.map (fun _ -> true) base.Model.l_cols else Model.used_mask base in
  Printf.printf "CASE %s\nDUAL %s\nKEEP %s\nIMG %s\n" c.id (dump (Model.dual_of p)) (String.concat "" (List.map (fun k -> if k then "1" else "0") keep)) (dump img)

let rt_mode file =
  let lines = read_lines (open_in file) in
  let fresh () = { id = ""; fmt = "lp"; mode = "real"; wzo = false; sense = Model.Min; offset = q_of_zz Z.zero Z.one;
                   cols = []; rows = [] } in
  let c = ref (fresh ()) in
  List.iter (fun l ->
      match split_ws l with
      | "CASE" :: id :: fmt :: mode :: rest ->
        c := fresh (); !c.id <- id; !c.fmt <- fmt; !c.mode <- mode;
        List.iter (fun t -> if t = "wzo=1" then !c.wzo <- true) rest
      | ["SENSE"; s; "OFFSET"; o] ->
        !c.sense <- (if s = "max" then Model.Max else Model.Min);
        !c.offset <- q_of_dyadic o
      | "COL" :: obj :: lo :: up :: _ ->
        let m = !c.mode in
        !c.cols <- { Model.c_obj = value m obj; Model.c_lo = side m lo; Model.c_up = side m up } :: !c.cols
      | "ROW" :: lhs :: rhs :: _ :: k :: es ->
        let m = !c.mode in
        let rec pairs = function
          | j :: v :: tl -> (int_of_string j, value m v) :: pairs tl
          | _ -> [] in
        ignore k;
        !c.rows <- (side m lhs, pairs es, side m rhs) :: !c.rows
      | ["END"] -> finish !c
      | _ -> ())
    lines

let () =
  match Sys.argv.(1) with
  | "lit" -> lit_mode Sys.argv.(2)
  | "rt" -> rt_mode Sys.argv.(2)
  | _ -> prerr_endline "usage: modelrun lit|rt <casefile>"; exit 2
