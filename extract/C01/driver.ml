(* Certificate checker service.  Input: LP blocks followed by queries; output: one line per query.
   All numbers are exact rationals "p/q" (or integers).  The decisions are made by the extracted, proved
   checkers of coq/Cert.v. *)
open Zutil

let q_of_string s : Model.q =
  let z = Q.of_string s in
  { Model.qnum = z_of_zarith (Q.num z); Model.qden = pos_of_zarith (Q.den z) }
let string_of_q (q : Model.q) =
  Q.to_string (Q.make (zarith_of_z q.Model.qnum) (zarith_of_pos q.Model.qden))
let ext s = if s = "inf" || s = "-inf" then None else Some (q_of_string s)
let vec s = List.map q_of_string (List.filter (fun x -> x <> "") (String.split_on_char ',' s))

(* driver-trace replay: "c,a,b,c,d;c,a,b,c,d;..." *)
let tev_of_string r : Model.tev =
  match List.map z_of_string (String.split_on_char ',' r) with
  | [c; a; b; d; e] -> ((((c, a), b), d), e)
  | _ -> failwith "bad trace record"
let string_of_tev (((((c, a), b), d), e) : Model.tev) =
  String.concat "," (List.map string_of_z [c; a; b; d; e])
let bits s = List.map (fun x -> x = "1") (String.split_on_char ',' s)
let driver_query ps fs tr =
  let obs = List.map tev_of_string (List.filter (fun x -> x <> "") (String.split_on_char ';' tr)) in
  match bits ps, String.split_on_char ',' fs with
  | [a; b; c; d; e], [fst; fbasis; fray; ffar] ->
    let p = { Model.p_simp = a; Model.p_scaler = b; Model.p_persist = c; Model.p_ensureray = d; Model.p_objlim = e } in
    (match Model.replay p obs with
     | Model.Agree s ->
       (* final flags as the user reads them *)
       let mst = string_of_z (Model.st_code s.Model.status) in
       let bb x = if x then "1" else "0" in
       let flags_ok = (mst = fst || s.Model.status = Model.OTHER Model.Z0)
                      && bb s.Model.has_basis = fbasis && bb s.Model.has_ray = fray && bb s.Model.has_farkas = ffar in
       let ok_space = (not s.Model.has_sol) || Model.is_user_space s.Model.sol_space in
       if not flags_ok then Printf.sprintf "flags:model=%s,%s,%s,%s" mst (bb s.Model.has_basis) (bb s.Model.has_ray) (bb s.Model.has_farkas)
       else if not ok_space then "space"
       else if s.Model.status = Model.OPTIMAL && not s.Model.sol_ok then "ungated"
       else "true"
     | Model.Differ (n, x, y) ->
       let o = function None -> "end" | Some e -> string_of_tev e in
       Printf.sprintf "differ:%d:model=%s:observed=%s" (int_of_nat n) (o x) (o y)
     | Model.Stuck w -> Printf.sprintf "stuck:%s" (string_of_z w))
  | _ -> "badquery"

let () =
  let lines = read_lines (open_in Sys.argv.(1)) in
  let lp = ref None in
  let maxi = ref false and off = ref (q_of_string "0") and cols = ref [] and rows = ref [] and n = ref 0 in
  let get () =
    match !lp with
    | Some p -> p
    | None ->
      let p = { Model.maximize = !maxi; Model.offset = !off; Model.cols = List.rev !cols; Model.rows = List.rev !rows } in
      lp := Some p; p in
  List.iter (fun l ->
      match split_ws l with
      | [] -> ()
      | "LP" :: id :: sense :: o :: _ ->
        lp := None; maxi := (sense = "max"); off := q_of_string o; cols := []; rows := []; n := 0;
        Printf.printf "CASE %s\n" id
      | "C" :: o :: lo :: up :: _ ->
        cols := { Model.c_obj = q_of_string o; Model.c_lo = ext lo; Model.c_up = ext up } :: !cols; incr n
      | "R" :: lhs :: rhs :: ents ->
        let a = Array.make !n (q_of_string "0") in
        List.iter (fun e -> match String.split_on_char ':' e with
            | [j; v] -> a.(int_of_string j) <- q_of_string v
            | _ -> ()) ents;
        rows := { Model.r_lhs = ext lhs; Model.r_coef = Array.to_list a; Model.r_rhs = ext rhs } :: !rows
      | "Q" :: tag :: kind :: args ->
        let p = get () in
        let b x = if x then "true" else "false" in
        let res = match kind, args with
          | "feasible", [x] -> b (Model.feasible_b p (vec x))
          | "objective", [x] -> string_of_q (Model.qred (Model.objective p (vec x)))
          | "optexact", [x; y] -> b (Model.check_opt_exact p (vec x) (vec y))
          | "farkas", [y] -> b (Model.check_farkas p (vec y))
          | "farkasbox", [m; y] -> b (Model.check_farkas (Model.box (q_of_string m) p) (vec y))
          | "ray", [r] -> b (Model.check_ray p (vec r))
          | "raytol", [e; r] -> b (Model.check_ray_tol (q_of_string e) p (vec r))
          | "dualbound", [y] -> (match Model.dual_bound p (vec y) with None -> "none" | Some v -> string_of_q (Model.qred v))
          | "opttol", [tp; td; tc; tv; x; s; y; d; v] ->
            let t = { Model.tp = q_of_string tp; Model.td = q_of_string td; Model.tc = q_of_string tc; Model.tv = q_of_string tv } in
            b (Model.check_opt_tol t p (vec x) (vec s) (vec y) (vec d) (q_of_string v))
          | "gate", [x; y; d; rst; cst] ->
            (* the four violation functions of the in-tree gate on injected vectors: max and sum of each *)
            let stat c = match c with 'U' -> Model.ON_UPPER | 'L' -> Model.ON_LOWER | 'F' -> Model.FIXED | 'Z' -> Model.ZERO
                                      | 'B' -> Model.BASIC | _ -> Model.UNDEFINED in
            let stats s = List.map stat (List.filter (fun c -> c <> ',') (List.init (String.length s) (String.get s))) in
            let pr (a, b) = string_of_q (Model.qred a) ^ "," ^ string_of_q (Model.qred b) in
            String.concat ";" [ pr (Model.bound_violation p (vec x)); pr (Model.row_violation p (vec x));
                                pr (Model.dual_violation p (stats rst) (vec y)); pr (Model.redcost_violation p (stats cst) (vec d)) ]
          | "driver", [ps; fs; tr] -> driver_query ps fs tr
          | "driver", [ps; fs] -> driver_query ps fs ""
          | _ -> "badquery" in
        Printf.printf "A %s %s %s\n" tag kind res
      | _ -> ())
    lines
