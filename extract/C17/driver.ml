(* C17 generator runner: module Model is the extraction of coq/RandomModel.v.  Reads lines
     RNG <id> <op> ...      op = S<seed> (setSeed) | N (next)
   starting from the default generator, and prints after every operation
     R <id> <k> <seedshift> <lin> <xor> <mwc> <cst> <value-or-minus>
   All decisions are taken by extracted functions; this file parses and prints. *)
open Zutil

let n_of_zarith (z : Z.t) : Model.n = if Z.sign z = 0 then Model.N0 else Model.Npos (pos_of_zarith z)
let zarith_of_n = function Model.N0 -> Z.zero | Model.Npos p -> zarith_of_pos p
let sn v = Z.to_string (zarith_of_n v)

let () =
  let ic = open_in Sys.argv.(1) in
  List.iter (fun line ->
      match split_ws line with
      | "RNG" :: id :: ops ->
        let r = ref Model.rng_default in
        List.iteri (fun k o ->
            let v =
              if o = "N" then begin
                let (r', v) = Model.next_random !r in r := r'; sn v
              end else begin
                r := Model.set_seed (n_of_zarith (Z.of_string (String.sub o 1 (String.length o - 1)))); "-"
              end in
            Printf.printf "R %s %d %s %s %s %s %s %s\n" id k (sn !r.Model.seedshift) (sn !r.Model.lin_seed) (sn !r.Model.xor_seed)
              (sn !r.Model.mwc_seed) (sn !r.Model.cst_seed) v) ops
      | _ -> ()) (read_lines ic)
