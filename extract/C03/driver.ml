(* C03 model runner.  Input: LP blocks (LP / C / R lines as for the certificate checker) followed by
     KERN tag key=value ...   -> the four violation kernels and _isRefinementOver, printed exactly as harness/C03.cpp prints them
     GATE tag key=value ...   -> hypotheses / zero test of gate_zero_is_optimal and check_opt_exact on a returned answer
     OBJ tag x=...            -> the objective value as the code computes it, and c.x + offset
     TYPES tag                -> the range types of all columns and rows (model of _rangeTypeRational)
   All numbers are exact rationals; the decisions are made by the functions extracted from coq/RatGateModel.v. *)
open Zutil

let q_of_string s : Model.q =
  let z = Q.of_string s in
  { Model.qnum = z_of_zarith (Q.num z); Model.qden = pos_of_zarith (Q.den z) }
let string_of_q (q : Model.q) =
  Q.to_string (Q.make (zarith_of_z q.Model.qnum) (zarith_of_pos q.Model.qden))
let ext s = if s = "inf" || s = "-inf" then None else Some (q_of_string s)
let vec s = List.map q_of_string (List.filter (fun x -> x <> "") (String.split_on_char ',' s))
(* the value SoPlex stores for an infinite bound: the double 1e100 (default INFTY), exactly *)
let infty = q_of_string (Q.to_string (Q.of_float 1e100))

let stat_of_char = function
  | 'U' -> Model.ON_UPPER | 'L' -> Model.ON_LOWER | 'F' -> Model.FIXED | 'Z' -> Model.ZERO | 'B' -> Model.BASIC
  | _ -> Model.UNDEFINED
let rt_of_char = function
  | '0' -> Model.RT_FREE | '1' -> Model.RT_LOWER | '2' -> Model.RT_UPPER | '3' -> Model.RT_BOXED | _ -> Model.RT_FIXED
let char_of_rt = function
  | Model.RT_FREE -> '0' | Model.RT_LOWER -> '1' | Model.RT_UPPER -> '2' | Model.RT_BOXED -> '3' | Model.RT_FIXED -> '4'
let explode s = List.init (String.length s) (String.get s)
let implode l = String.concat "" (List.map (String.make 1) l)

let kv toks =
  let h = Hashtbl.create 16 in
  List.iter (fun t -> match String.index_opt t '=' with
      | Some i -> Hashtbl.replace h (String.sub t 0 i) (String.sub t (i + 1) (String.length t - i - 1))
      | None -> ()) toks;
  h
let get h k d = match Hashtbl.find_opt h k with Some v -> v | None -> d
let b x = if x then "1" else "0"

(* pad / cut a status or type list to the dimension, as the harness does *)
let fit n d l = List.init n (fun i -> match List.nth_opt l i with Some v -> v | None -> d)

let () =
  let lines = read_lines (open_in Sys.argv.(1)) in
  let lp = ref None in
  let maxi = ref false and off = ref (q_of_string "0") and cols = ref [] and rows = ref [] and n = ref 0 in
  let getlp () =
    match !lp with
    | Some p -> p
    | None ->
      let p = { Model.maximize = !maxi; Model.offset = !off; Model.cols = List.rev !cols; Model.rows = List.rev !rows } in
      lp := Some p; p in
  let gate_of p a =
    let nc = List.length p.Model.cols and nr = List.length p.Model.rows in
    let ct0 = List.map (fun c -> Model.range_type c.Model.c_lo c.Model.c_up) p.Model.cols in
    let rt0 = List.map (fun r -> Model.range_type r.Model.r_lhs r.Model.r_rhs) p.Model.rows in
    let over t0 key =
      let s = get a key "-" in
      if s = "-" then t0
      else List.mapi (fun i t -> if i < String.length s then rt_of_char s.[i] else t) t0 in
    let g = { Model.g_lp = p; Model.g_infty = infty; Model.g_ctypes = over ct0 "ct"; Model.g_rtypes = over rt0 "rt";
              Model.g_cstat = fit nc Model.BASIC (List.map stat_of_char (explode (get a "cst" "")));
              Model.g_rstat = fit nr Model.BASIC (List.map stat_of_char (explode (get a "rst" ""))) } in
    let z = q_of_string "0" in
    let s = { Model.s_primal = fit nc z (vec (get a "x" "")); Model.s_slacks = fit nr z (vec (get a "s" ""));
              Model.s_dual = fit nr z (vec (get a "y" "")); Model.s_redcost = fit nc z (vec (get a "d" "")) } in
    (g, s, ct0, rt0) in
  List.iter (fun l ->
      match split_ws l with
      | [] -> ()
      | "LP" :: id :: sense :: o :: _ ->
        lp := None; maxi := (sense = "max"); off := q_of_string o; cols := []; rows := []; n := 0;
        Printf.printf "CASE %s\n" id
      | "C" :: o :: lo :: up :: _ ->
        cols := { Model.c_obj = q_of_string o; Model.c_lo = ext lo; Model.c_up = ext up } :: !cols; incr n
      | "R" :: lhs :: rhs :: ents ->
        let a = Array.make !n (q_of_string "0") in
        List.iter (fun e -> match String.split_on_char ':' e with
            | [j; v] -> a.(int_of_string j) <- q_of_string v
            | _ -> ()) ents;
        rows := { Model.r_lhs = ext lhs; Model.r_coef = Array.to_list a; Model.r_rhs = ext rhs } :: !rows
      | "KERN" :: tag :: toks ->
        let p = getlp () in
        let a = kv toks in
        let (g, s, ct0, rt0) = gate_of p a in
        let bv = Model.qred (Model.bounds_violation g s) and sv = Model.qred (Model.sides_violation g s)
        and rv = Model.qred (Model.redcost_violation g s) and dv = Model.qred (Model.dual_violation g s) in
        let zi k d = z_of_string (get a k d) in
        let lim = { Model.l_infty = infty; Model.l_timelimit = (match get a "timelimit" "inf" with "inf" -> infty | t -> q_of_string t);
                    Model.l_time = q_of_string "0";
                    Model.l_iterlimit = zi "iterlimit" "-1"; Model.l_iters = zi "iters" "0";
                    Model.l_reflimit = zi "reflimit" "-1"; Model.l_refs = zi "refs" "0";
                    Model.l_stallreflimit = zi "stallreflimit" "-1"; Model.l_stalls = zi "stalls" "0" } in
        let o = Model.is_refinement_over (q_of_string (get a "ftol" "0")) (q_of_string (get a "otol" "0")) bv sv rv dv
            (zi "minir" "0") (get a "st" "0" = "1") (get a "si" "0" = "1") lim (zi "nfail" "0") in
        let best0 = match get a "best" "inf" with "inf" -> infty | t -> q_of_string t in
        let ((mx, best), nf) = Model.check_progress bv sv rv dv best0 (q_of_string (get a "factor" "16")) (zi "nfail" "0") in
        let best_s = if Model.qcompare best infty = Model.Lt then string_of_q (Model.qred best) else "inf" in
        Printf.printf "KERN %s ctypes=%s, rtypes=%s, max=%s bv=%s sv=%s rv=%s dv=%s over=%s pf=%s df=%s st=%s si=%s mx=%s best=%s nf=%s\n" tag
          (implode (List.map char_of_rt ct0)) (implode (List.map char_of_rt rt0)) (b p.Model.maximize)
          (string_of_q bv) (string_of_q sv) (string_of_q rv) (string_of_q dv)
          (b o.Model.o_over) (b o.Model.o_pf) (b o.Model.o_df) (b o.Model.o_st) (b o.Model.o_si)
          (string_of_q (Model.qred mx)) best_s (string_of_z nf)
      | "GATE" :: tag :: toks ->
        let p = getlp () in
        let a = kv toks in
        let (g, s, _, _) = gate_of p a in
        Printf.printf "GATE %s consistent=%s zero=%s optexact=%s\n" tag (b (Model.gate_consistent g s)) (b (Model.gate_zero g s))
          (b (Model.check_opt_exact p s.Model.s_primal s.Model.s_dual))
      | "TYPES" :: tag :: _ ->
        (* the range types _rangeTypeRational gives for the bounds and sides of the LP (hypothesis types_match of the gate theorem) *)
        let p = getlp () in
        let ct0 = List.map (fun c -> Model.range_type c.Model.c_lo c.Model.c_up) p.Model.cols in
        let rt0 = List.map (fun r -> Model.range_type r.Model.r_lhs r.Model.r_rhs) p.Model.rows in
        Printf.printf "TYPES %s ctypes=%s, rtypes=%s,\n" tag (implode (List.map char_of_rt ct0)) (implode (List.map char_of_rt rt0))
      | "OBJ" :: tag :: toks ->
        let p = getlp () in
        let a = kv toks in
        let x = vec (get a "x" "") in
        Printf.printf "OBJ %s model=%s cx_plus_offset=%s\n" tag (string_of_q (Model.qred (Model.model_objval p x)))
          (string_of_q (Model.qred (Model.objective p x)))
      | _ -> ())
    lines
