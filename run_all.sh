#!/bin/bash
# run every claimed check (quick) in parallel batches and print the last line of each
cd "$(dirname "$0")"
mkdir -p /tmp/me/runall
for p in $(cat claimed.txt); do
  ( ./check $p --tier ${1:-quick} > /tmp/me/runall/$p.log 2>&1; echo "$p rc=$?" ) &
  # at most 6 at a time
  while [ $(jobs -r | wc -l) -ge 6 ]; do sleep 2; done
done
wait
for p in $(cat claimed.txt); do echo "$(grep -c '^KNOWN-FINDING' /tmp/me/runall/$p.log) known | $(tail -1 /tmp/me/runall/$p.log | cut -c1-160)"; done
