"""Shared machinery for the /verif checks (see DESIGN.md section 3).

build cache, Coq obligations, extraction, evidence, known findings, violation lines.
Everything here is deterministic given VERIF_SEED and the state of /repo.
"""
import fcntl
import hashlib
import json
import os
import random
import re
import shutil
import subprocess
import sys
import time

ROOT = os.path.dirname(os.path.abspath(__file__))
REPO = os.environ.get("VERIF_REPO", "/repo")
BUILD = os.path.join(ROOT, "build")
COQ = os.path.join(ROOT, "coq")
GUARD = "SCIPOPT_SOPLEX_VERIF"
NCPU = os.cpu_count() or 4

ALLOWED_AXIOMS = {
    # standard-library axioms that may appear (each is named in the trusted base when it does)
    "Coq.Logic.FunctionalExtensionality.functional_extensionality_dep",
    "functional_extensionality_dep",
    "Coq.Logic.Classical_Prop.classic", "classic",
    "Coq.Logic.ProofIrrelevance.proof_irrelevance", "proof_irrelevance",
    "Coq.Logic.Eqdep.Eq_rect_eq.eq_rect_eq", "Eqdep.Eq_rect_eq.eq_rect_eq", "eq_rect_eq",
    "Coq.Logic.JMeq.JMeq_eq", "JMeq_eq",
}

CONFIG_H = """#ifndef __SPXCONFIG_H__
#define __SPXCONFIG_H__
#define SOPLEX_BUILD_TYPE "Verif"
#define SOPLEX_VERSION_MAJOR %s
#define SOPLEX_VERSION_MINOR %s
#define SOPLEX_VERSION_PATCH %s
#define SOPLEX_WITH_BOOST
#define SOPLEX_WITH_GMP
#define SOPLEX_WITH_MPFR
#define SOPLEX_WITH_ZLIB
#endif
"""


def log(*a):
    print(*a, file=sys.stderr, flush=True)


def sh(cmd, timeout=None, cwd=None, env=None, input=None, check=False):
    """Run a command (list), return (rc, stdout, stderr)."""
    try:
        p = subprocess.run(cmd, cwd=cwd, env=env, input=input, timeout=timeout,
                           stdout=subprocess.PIPE, stderr=subprocess.PIPE, text=True,
                           errors="replace")
    except subprocess.TimeoutExpired as e:
        out = e.stdout.decode(errors="replace") if isinstance(e.stdout, bytes) else (e.stdout or "")
        err = e.stderr.decode(errors="replace") if isinstance(e.stderr, bytes) else (e.stderr or "")
        return 124, out, err + "\n[timeout]"
    if check and p.returncode != 0:
        raise RuntimeError("command failed: %s\n%s\n%s" % (" ".join(cmd), p.stdout[-4000:], p.stderr[-4000:]))
    return p.returncode, p.stdout, p.stderr


class Lock:
    def __init__(self, name):
        os.makedirs(BUILD, exist_ok=True)
        self.path = os.path.join(BUILD, name + ".lock")

    def __enter__(self):
        self.f = open(self.path, "w")
        fcntl.flock(self.f, fcntl.LOCK_EX)
        return self

    def __exit__(self, *a):
        fcntl.flock(self.f, fcntl.LOCK_UN)
        self.f.close()


# --------------------------------------------------------------------------------------
# source hash and C++ build cache
# --------------------------------------------------------------------------------------

_src_hash = None


def src_hash():
    """SHA-256 over every file under /repo/src (path + content): the identity of the tree."""
    global _src_hash
    if _src_hash is None:
        h = hashlib.sha256()
        base = os.path.join(REPO, "src")
        for d, dirs, files in sorted(os.walk(base)):
            dirs.sort()
            for f in sorted(files):
                p = os.path.join(d, f)
                h.update(os.path.relpath(p, base).encode())
                with open(p, "rb") as fh:
                    h.update(hashlib.sha256(fh.read()).digest())
        _src_hash = h.hexdigest()[:16]
    return _src_hash


def _version():
    txt = open(os.path.join(REPO, "CMakeLists.txt")).read()
    out = []
    for k in ("MAJOR", "MINOR", "PATCH"):
        m = re.search(r"set\(SOPLEX_VERSION_%s\s+(\d+)\)" % k, txt)
        out.append(m.group(1) if m else "0")
    return tuple(out)


def cfg_dir():
    d = os.path.join(BUILD, "cfg")
    p = os.path.join(d, "soplex", "config.h")
    want = CONFIG_H % _version()
    if not os.path.exists(p) or open(p).read() != want:
        os.makedirs(os.path.dirname(p), exist_ok=True)
        with open(p, "w") as f:
            f.write(want)
    return d


def base_flags(opt="-O1", guard=True):
    fl = ["-std=c++14", opt, "-DNDEBUG", "-w", "-fno-access-control",
          "-I" + os.path.join(REPO, "src"), "-I" + cfg_dir(), "-I" + os.path.join(ROOT, "harness")]
    if guard:
        fl.append("-D" + GUARD)
    return fl


def _gc_build(keep):
    """Remove cached build directories of old tree states (disk is limited).  Only directories that were not used for
    three hours are removed, and the eight most recently used are always kept: other checks (or scratch-worktree runs
    through VERIF_REPO) may be building in them right now."""
    try:
        now = time.time()
        ds = sorted([d for d in os.listdir(BUILD) if d.startswith("t-")],
                    key=lambda d: os.path.getmtime(os.path.join(BUILD, d)), reverse=True)
        for d in ds[8:]:
            p = os.path.join(BUILD, d)
            if d != keep and now - os.path.getmtime(p) > 3 * 3600:
                shutil.rmtree(p, ignore_errors=True)
    except OSError:
        pass


def tree_dir():
    d = os.path.join(BUILD, "t-" + src_hash())
    os.makedirs(d, exist_ok=True)
    os.utime(d, None)
    return d


def build_lib(cxx="g++", extra=(), tag="lib"):
    """Compile /repo/src/soplex/*.cpp (the non-template part of libsoplex) for this tree state."""
    d = os.path.join(tree_dir(), tag)
    with Lock("lib-" + src_hash() + tag):
        stamp = os.path.join(d, "done")
        srcs = sorted(f for f in os.listdir(os.path.join(REPO, "src", "soplex")) if f.endswith(".cpp"))
        objs = [os.path.join(d, s[:-4] + ".o") for s in srcs]
        if os.path.exists(stamp):
            return objs
        os.makedirs(d, exist_ok=True)
        _gc_build(os.path.basename(tree_dir()))
        procs = []
        for s, o in zip(srcs, objs):
            cmd = [cxx] + base_flags() + list(extra) + ["-c", os.path.join(REPO, "src", "soplex", s), "-o", o]
            procs.append((s, subprocess.Popen(cmd, stdout=subprocess.PIPE, stderr=subprocess.STDOUT, text=True)))
        for s, p in procs:
            out, _ = p.communicate()
            if p.returncode != 0:
                raise BuildError("library file %s does not compile:\n%s" % (s, out[-3000:]))
        open(stamp, "w").close()
        return objs


class BuildError(Exception):
    pass


def build_harness(name, sources=None, cxx="g++", opt="-O1", extra=(), libs=("-lgmpxx", "-lgmp", "-lmpfr", "-lz"),
                  tag="lib", timeout=1500, deps=()):
    """Compile harness/<name>.cpp against the current /repo/src and link it.  Cached by tree hash +
    harness source hash.  Returns the path of the binary."""
    sources = sources or [os.path.join(ROOT, "harness", name + ".cpp")]
    hh = hashlib.sha256()
    for s in list(sources) + [os.path.join(ROOT, "harness", "common.hpp")] + list(deps):
        if os.path.exists(s):
            hh.update(open(s, "rb").read())
    hh.update(" ".join([cxx, opt] + list(extra)).encode())
    key = hh.hexdigest()[:12]
    d = os.path.join(tree_dir(), "h-%s-%s" % (name, key))
    exe = os.path.join(d, name)
    with Lock("h-%s-%s-%s" % (name, src_hash(), key)):
        if os.path.exists(exe):
            return exe
        objs = build_lib(cxx=cxx, extra=[e for e in extra if e.startswith("-fsanitize") or e == "-g"], tag=tag)
        os.makedirs(d, exist_ok=True)
        t0 = time.time()
        procs = []
        hobjs = []
        for s in sources:
            o = os.path.join(d, os.path.basename(s) + ".o")
            hobjs.append(o)
            cmd = [cxx] + base_flags(opt) + list(extra) + ["-c", s, "-o", o]
            procs.append((s, subprocess.Popen(cmd, stdout=subprocess.PIPE, stderr=subprocess.STDOUT, text=True)))
        for s, p in procs:
            try:
                out, _ = p.communicate(timeout=timeout)
            except subprocess.TimeoutExpired:
                p.kill()
                raise BuildError("harness %s: compile timeout" % s)
            if p.returncode != 0:
                raise BuildError("harness %s does not compile against the current tree:\n%s" % (s, out[-6000:]))
        rc, out, err = sh([cxx] + [e for e in extra if e.startswith("-fsanitize")] + hobjs + objs + list(libs) + ["-lpthread", "-o", exe + ".tmp"])
        if rc != 0:
            raise BuildError("harness %s does not link:\n%s" % (name, (out + err)[-6000:]))
        os.rename(exe + ".tmp", exe)
        log("[build] %s compiled in %.0fs" % (name, time.time() - t0))
        return exe


# --------------------------------------------------------------------------------------
# Coq
# --------------------------------------------------------------------------------------

def coq_project():
    """(Re)write coq/_CoqProject from the files present and create the Makefile."""
    os.makedirs(os.path.join(COQ, "gen"), exist_ok=True)
    vs = sorted(f for f in os.listdir(COQ) if f.endswith(".v"))
    gs = sorted("gen/" + f for f in os.listdir(os.path.join(COQ, "gen")) if f.endswith(".v"))
    txt = "-Q . SV\n-Q gen SVG\n-arg -w -arg -all\n" + "\n".join(vs + gs) + "\n"
    p = os.path.join(COQ, "_CoqProject")
    if not os.path.exists(p) or open(p).read() != txt or not os.path.exists(os.path.join(COQ, "Makefile")):
        open(p, "w").write(txt)
        sh(["coq_makefile", "-f", "_CoqProject", "-o", "Makefile"], cwd=COQ, check=True)


def coq_make(targets, timeout=1800):
    """make the given .vo targets (full .vo build) under a global lock."""
    with Lock("coq"):
        coq_project()
        rc, out, err = sh(["make", "-k", "-j%d" % NCPU] + list(targets), cwd=COQ, timeout=timeout)
        return rc, out + err


THM_RE = re.compile(r"^\s*(Theorem|Corollary)\s+([A-Za-z0-9_']+)", re.M)


def coq_properties(pid, extra_files=()):
    """Rebuild dependencies of Properties_<pid>.v, then always recompile that file itself and collect the
    Print Assumptions report of every theorem in it.  Returns a dict."""
    fn = "Properties_%s.v" % pid
    path = os.path.join(COQ, fn)
    src = open(path).read()
    theorems = THM_RE.findall(src)
    names = [n for _, n in theorems]
    res = {"file": fn, "theorems": names, "obligations": len(names), "discharged": 0,
           "assumptions": {}, "axioms": [], "ok": False, "log": "", "qed_in_closure": 0, "dep_files": []}
    # forbidden vernacular anywhere in the development
    bad = []
    for d, _, files in os.walk(COQ):
        for f in files:
            if f.endswith(".v"):
                t = open(os.path.join(d, f)).read()
                t = re.sub(r"\(\*.*?\*\)", "", t, flags=re.S)
                for m in re.finditer(r"\b(Admitted|admit|Axiom|Axioms|Parameter|Parameters|Conjecture|Admit Obligations|bypass_check|Unset Guard Checking|Unset Positivity Checking|Unset Universe Checking|type-in-type|impredicative-set)\b", t):
                    bad.append("%s: %s" % (f, m.group(1)))
                # Variable/Hypothesis outside a section
                depth = 0
                for line in t.splitlines():
                    s = line.strip()
                    if re.match(r"Section\s", s):
                        depth += 1
                    elif re.match(r"End\s", s) and depth > 0:
                        depth -= 1
                    elif depth == 0 and re.match(r"(Variable|Variables|Hypothesis|Hypotheses|Context)\b", s):
                        bad.append("%s: %s outside a section" % (f, s.split()[0]))
    if bad:
        res["log"] = "forbidden vernacular: " + "; ".join(sorted(set(bad))[:20])
        return res
    with Lock("coq"):
        coq_project()
        vo = os.path.join(COQ, fn + "o")
        if os.path.exists(vo):
            os.remove(vo)
        t0 = time.time()
        rc, out, err = sh(["make", "-k", "-j%d" % NCPU, fn + "o"], cwd=COQ, timeout=3000)
        res["coq_wall_s"] = round(time.time() - t0, 1)
        text = out + err
        # dependency closure
        rc2, dout, _ = sh(["coqdep", "-Q", ".", "SV", "-Q", "gen", "SVG", "-sort", fn], cwd=COQ)
        deps = [x for x in dout.split() if x.endswith(".v")]
        res["dep_files"] = deps
        q = 0
        for f in deps:
            try:
                q += len(re.findall(r"\bQed\.", open(os.path.join(COQ, f)).read()))
            except OSError:
                pass
        res["qed_in_closure"] = q
    res["log"] = text[-6000:]
    if rc != 0:
        return res
    # parse assumptions: blocks introduced by our own marker lines
    # Each theorem is followed by:  Print Assumptions name.
    # coqc prints either "Closed under the global context" or "Axioms:\n name : type ..."
    blocks = re.split(r"(?m)^(?=Closed under the global context|Axioms:)", text)
    reports = [b for b in blocks if b.startswith("Closed under") or b.startswith("Axioms:")]
    pa = re.findall(r"Print\s+Assumptions\s+([A-Za-z0-9_']+)\s*\.", re.sub(r"\(\*.*?\*\)", "", src, flags=re.S))
    axioms = set()
    for name, rep in zip(pa, reports):
        if rep.startswith("Closed"):
            res["assumptions"][name] = []
        else:
            ax = re.findall(r"(?m)^([A-Za-z0-9_.']+)\s*:", rep[len("Axioms:"):])
            res["assumptions"][name] = ax
            axioms.update(ax)
    res["axioms"] = sorted(axioms)
    res["discharged"] = sum(1 for n in names if n in res["assumptions"])
    foreign = [a for a in axioms if a not in ALLOWED_AXIOMS and a.split(".")[-1] not in ALLOWED_AXIOMS]
    res["foreign_axioms"] = foreign
    res["ok"] = (rc == 0 and res["discharged"] == len(names) and len(names) > 0 and not foreign
                 and len(pa) == len(reports))
    return res


def build_model(pid, timeout=600):
    """Extract (coq/Extract_<pid>.v writes extract/<pid>/model.ml) and compile extract/<pid>/driver.ml.
    Returns path of the runner binary."""
    d = os.path.join(ROOT, "extract", pid)
    exe = os.path.join(d, "modelrun")
    with Lock("coq"):
        coq_project()
        rc, out, err = sh(["make", "-k", "-j%d" % NCPU, "Extract_%s.vo" % pid], cwd=COQ, timeout=3000)
        if rc != 0:
            raise BuildError("extraction of %s failed:\n%s" % (pid, (out + err)[-4000:]))
        ml = os.path.join(d, "model.ml")
        shutil.copy(os.path.join(ROOT, "extract", "zutil.ml"), os.path.join(d, "zutil.ml"))
        srcs = [os.path.join(d, "model.mli"), ml, os.path.join(d, "driver.ml")]
        newest = max(os.path.getmtime(s) for s in srcs)
        if os.path.exists(exe) and os.path.getmtime(exe) >= newest:
            return exe
        rc, out, err = sh(["ocamlfind", "ocamlopt", "-w", "-a",
                           "-package", "zarith", "-linkpkg", "model.mli", "model.ml", "zutil.ml", "driver.ml", "-o", "modelrun"],
                          cwd=d, timeout=timeout)
        if rc != 0:
            raise BuildError("model runner of %s does not build:\n%s" % (pid, (out + err)[-4000:]))
        return exe


# --------------------------------------------------------------------------------------
# dyadic / rational helpers (exact exchange of doubles)
# --------------------------------------------------------------------------------------

def dyadic(x):
    """double -> (mantissa, exponent) with x == m * 2**e exactly (m odd or 0)."""
    import math
    if x == 0.0:
        return (0, 0)
    m, e = math.frexp(x)
    m = int(m * (1 << 53))
    e -= 53
    while m % 2 == 0:
        m //= 2
        e += 1
    return (m, e)


# --------------------------------------------------------------------------------------
# check bookkeeping: evidence, known findings, violations
# --------------------------------------------------------------------------------------

def load_known():
    p = os.path.join(ROOT, "KNOWN_FINDINGS.json")
    if not os.path.exists(p):
        return {"findings": [], "fixed": []}
    return json.load(open(p))


class Check:
    def __init__(self, pid, level, argv=None):
        import argparse
        ap = argparse.ArgumentParser()
        ap.add_argument("--tier", default=os.environ.get("VERIF_TIER", "quick"), choices=["quick", "thorough"])
        ap.add_argument("--replay", default=None)
        ap.add_argument("--seed", type=int, default=int(os.environ.get("VERIF_SEED", "1") or 1))
        self.args = ap.parse_args(argv)
        self.pid = pid
        self.level = level
        self.tier = self.args.tier
        self.seed = self.args.seed
        self.t0 = time.time()
        self.rng = random.Random("%s-%d" % (pid, self.seed))
        self.cov = {"evaluations": 0, "distinct_nontrivial": 0, "rule": "", "samples": [],
                    "obligations": 0, "discharged": 0, "checker_cmd": "", "trusted_base": []}
        self.assumptions = []
        self.violations = []      # (signature, what, replay-dict)
        self.known_hits = []
        self.known = [k for k in load_known().get("findings", []) if k.get("property") == pid]
        try:
            for sig in json.loads(os.environ.get("VERIF_EXTRA_KNOWN", "{}")).get(pid, []):
                self.known.append({"property": pid, "id": "dev-" + sig[:20], "signature": sig, "what": "(development) " + sig})
        except ValueError:
            pass
        self.distinct = set()
        self.hist = {}

    # ---- counters
    def count(self, key, n=1):
        self.hist[key] = self.hist.get(key, 0) + n

    def evaluated(self, case_key=None, nontrivial=True):
        self.cov["evaluations"] += 1
        if case_key is not None and nontrivial:
            self.distinct.add(hashlib.sha1(repr(case_key).encode()).hexdigest())

    def sample(self, s, limit=6):
        if len(self.cov["samples"]) < limit:
            self.cov["samples"].append(s)

    # ---- proof leg
    def prove(self):
        r = coq_properties(self.pid)
        self.coq = r
        self.cov["obligations"] = r["obligations"]
        self.cov["discharged"] = r["discharged"]
        self.cov["theorems"] = r["theorems"]
        self.cov["qed_lemmas_in_dependency_closure"] = r["qed_in_closure"]
        self.cov["coq_files"] = r["dep_files"]
        self.cov["axioms_reported_by_Print_Assumptions"] = r["axioms"]
        self.cov["checker_cmd"] = "make -C coq Properties_%s.vo  (coqc 8.16.1, full .vo; Print Assumptions after every theorem)" % self.pid
        if not r["ok"]:
            failing = [n for n in r["theorems"] if n not in r["assumptions"]]
            self.violation("coq-obligation", "Coq obligations of %s do not check (%s)" % (self.pid, ", ".join(failing) or "build failed"),
                           {"kind": "proof-obligation", "theorems_not_checked": failing or r["theorems"],
                            "file": r["file"], "log_tail": r["log"][-3000:]}, no_input=True)
        return r["ok"]

    # ---- violations
    def violation(self, signature, what, replay, no_input=False):
        for k in self.known:
            if re.fullmatch(k["signature"], signature):
                if k["id"] not in [h["id"] for h in self.known_hits]:
                    self.known_hits.append({"id": k["id"], "what": k["what"], "example": what})
                return False
        for (s, _, _, _) in self.violations:
            if s == signature:
                return True
        self.violations.append((signature, what, replay, no_input))
        return True

    def finish(self, explanation=None):
        self.cov["distinct_nontrivial"] = max(self.cov.get("distinct_nontrivial", 0), len(self.distinct))
        if self.hist:
            self.cov["input_distribution"] = dict(sorted(self.hist.items()))
        if explanation:
            self.cov["explanation"] = explanation
        self.cov["known_findings_seen"] = self.known_hits
        os.makedirs(os.path.join(ROOT, "replays", self.pid), exist_ok=True)
        lines = []
        for k in self.known_hits:
            lines.append("KNOWN-FINDING: property=%s %s [%s]" % (self.pid, k["what"], k["id"]))
        vrec = []
        for sig, what, replay, no_input in self.violations:
            h = hashlib.sha1(sig.encode()).hexdigest()[:10]
            p = os.path.join(ROOT, "replays", self.pid, h + ".json")
            rp = {"property": self.pid, "tier": self.tier, "seed": self.seed, "signature": sig, "what": what,
                  "replay_cmd": "./check %s --replay %s" % (self.pid, p)}
            rp.update(replay)
            with open(p, "w") as f:
                json.dump(rp, f, indent=1, default=str)
            lines.append("VIOLATION property=%s replay=%s%s" % (self.pid, p, " no-failing-input-found" if no_input else ""))
            vrec.append({"signature": sig, "what": what, "replay": p})
        self.cov["violation_list"] = vrec
        ev = {"property_id": self.pid, "tier": self.tier, "seed": self.seed, "level": self.level,
              "coverage": self.cov, "assumptions": self.assumptions,
              "wall_s": round(time.time() - self.t0, 1), "violations": len(self.violations),
              "tree": src_hash()}
        if self.args.replay is None:
            os.makedirs(os.path.join(ROOT, "evidence"), exist_ok=True)
            tmp = os.path.join(ROOT, "evidence", self.pid + ".json.tmp")
            with open(tmp, "w") as f:
                json.dump(ev, f, indent=1, default=str)
            os.rename(tmp, os.path.join(ROOT, "evidence", self.pid + ".json"))
        for l in lines:
            print(l)
        for sig, what, _, _ in self.violations:
            log("  violation: %s" % what[:500])
        print("%s %s tier=%s seed=%d evaluations=%d distinct=%d obligations=%d/%d violations=%d known=%d wall=%.0fs" % (
            "FAIL" if self.violations else "OK", self.pid, self.tier, self.seed, self.cov["evaluations"],
            self.cov["distinct_nontrivial"], self.cov["discharged"], self.cov["obligations"],
            len(self.violations), len(self.known_hits), time.time() - self.t0))
        sys.stdout.flush()
        sys.exit(1 if self.violations else 0)
