#!/usr/bin/env python3
"""C01 - OPTIMAL is backed by a primal-dual certificate in the user's problem space; LPs with a finite optimum are
solved to OPTIMAL under every algorithmic setting."""
import os
import sys
from fractions import Fraction

sys.path.insert(0, os.path.dirname(os.path.abspath(__file__)))
sys.path.insert(0, os.path.dirname(os.path.dirname(os.path.abspath(__file__))))
import vlib
import lpgen
import solvecommon as sc

HARNESSES = ["C01"]
MODEL = True
OBJ_AGREE = Fraction(1, 10**6)     # |v - v*| <= 1e-6 (1+|v*|)


def main():
    ck = vlib.Check("C01", "proof")
    ck.prove()
    exe = vlib.build_harness("C01")
    model = vlib.build_model("C01")
    nlp, ncfg, nmax = (110, 4, 12) if ck.tier == "quick" else (1200, 6, 25)
    r = ck.rng
    lps = []
    for _ in range(nlp):
        k = r.randrange(10)
        if k < 7:
            lps.append(lpgen.gen_around_point(r, nmax))
        elif k < 9:
            lps.append(lpgen.gen_random(r, nmax))
        else:
            lps.append(lpgen.gen_lp(r, nmax))
    # LPs the simplifier removes completely or nearly so (column singleton combined with a doubleton equation, forcing rows): their
    # OPTIMAL answers come straight out of the post-solve steps (_storeSolutionRealFromPresol) and are judged like all others
    lps += lpgen.gen_singleton_equations(r, 48 if ck.tier == "quick" else 288)
    lps += lpgen.gen_forcing_rows(r, 24 if ck.tier == "quick" else 192)
    corpus = lpgen.load_corpus("C01")
    if ck.args.replay:
        import json
        rp = json.load(open(ck.args.replay))
        corpus = [(lpgen.parse_lp_text(rp["lp"]), [{a: b for a, b in rp.get("config", {}).items() if a != "history"}])]
        lps = []
    lps = [c[0] for c in corpus] + lps
    cfgs = {k: [{}] + [lpgen.rand_config(r) for _ in range(ncfg)] for k in range(len(lps))}
    for k, c in enumerate(corpus):
        cfgs[k] = [{}] + c[1]
    # histories: several solves of one LP on one object with parameter changes in between (warm starts, persistent scaling
    # kept / dropped / re-applied, limits); every answer is judged as above and every optimize() call's control trace is
    # replayed through the Coq model of the solve driver
    hists = {k: ([] if ck.args.replay else [sc.gen_history(r) for _ in range(2 if k % 2 == 0 else 1)]) for k in range(len(lps))}
    if ck.args.replay and (rp.get("history") or rp.get("config", {}).get("history")):
        hh = rp.get("history") or rp["config"]["history"]
        hists[0] = [hh.split() if isinstance(hh, str) else hh]
    classes, exs, runs, ans, crashes, skipped = sc.run_in_chunks(ck, exe, model, lps, cfgs, hists=hists)
    sc.driver_verdicts(ck, lps, cfgs, runs, ck.hruns, ans, skipped, hists)
    if not ck.args.replay:
        # presolve-rich LPs (generator of C08): only their driver traces are used here, their answers are C08's business
        import C08 as c08gen
        plps = [c08gen.gen_presolve_lp(r, 10)[0] for _ in range(60 if ck.tier == "quick" else 600)]
        sc.driver_only(ck, exe, model, plps, {k: [{}, {"scaler": r.choice([1, 3, 5]), "persistentscaling": 1}, {"ensureray": 1},
                                                  lpgen.rand_config(r, {"ensureray": [0, 1]})] for k in range(len(plps))})
    if not ck.args.replay:
        sc.gate_check(ck, exe, model, lps, r, 60 if ck.tier == "quick" else 600)
    for (k, c, rc) in crashes:
        if isinstance(c, str):
            hs = hists[k][int(c[1:])]
            ck.violation("crash:history", "the solver crashed (rc=%d) on LP %d in the solve history %s" % (rc, k, " ".join(hs)),
                         {"lp": lps[k].text("replay"), "lp_format": lps[k].lp_format(), "history": hs, "kind": "crash"})
            continue
        ck.violation("crash:" + lpgen.cfg_text({a: b for a, b in cfgs[k][c].items() if a in ("starter", "pricer", "factor_update_type")}),
                     "the solver crashed (rc=%d) on LP %d under %s" % (rc, k, cfgs[k][c]),
                     {"lp": lps[k].text("replay"), "lp_format": lps[k].lp_format(), "config": cfgs[k][c], "kind": "crash"})
    worst = {}

    def judge(k, p, cfg, ru, rid, complete):
        cl = classes[k]
        st = ru["status"]
        ck.count("status:" + st)
        ck.count("family:" + p.family)
        ck.evaluated((p.key(), lpgen.cfg_text(cfg), rid if not complete else ""), nontrivial=(p.n + p.m >= 3))
        tags, steps = sc.presolve_tags(ru, cfg)
        if st == "OPTIMAL":
            ok = ans[k].get("o" + rid)
            clause, w = sc.diagnose_opt(p, ru) if all(t in ru for t in ("x", "s", "y", "d", "obj")) else ("missing-vectors", {})
            for a, b in w.items():
                worst[a] = max(worst.get(a, 0.0), b) if ok == "true" else worst.get(a, 0.0)
            if ok != "true":
                sig = "opt-cert-rejected:%s:%s:rep%s" % (clause, "+".join(tags) or "plain", ru.get("rep", "?"))
                ck.violation(sig, "OPTIMAL returned but the primal-dual certificate is rejected by check_opt_tol (first failing clause by "
                             "untrusted diagnosis: %s, worst residuals %s) on a %dx%d %s LP under %s" % (clause, w, p.m, p.n, p.family, cfg),
                             sc.replay_of(p, cfg, ru, {"theorem": "Cert_Proofs.check_opt_tol_spec", "clause": clause, "residuals": w}))
            if cl is not None and cl[0] != "optimal":
                ck.violation("optimal-for-%s-lp:%s" % (cl[0], "+".join(t for t in tags if t == "polish") or "plain"), "OPTIMAL returned for an LP certified %s (exact certificate accepted by the proved checker) under %s" % (cl[0], cfg),
                             sc.replay_of(p, cfg, ru, {"certified_class": cl[0], "exact": exs[k]}))
            if cl is not None and cl[0] == "optimal" and "obj" in ru:
                v = lpgen.dy2fr(ru["obj"])
                if v is None or abs(v - cl[1]) > OBJ_AGREE * (1 + abs(cl[1])):
                    ck.violation("objective-not-optimal:%s" % ("+".join(tags) or "plain"),
                                 "OPTIMAL with objective %s but the certified optimum is %s under %s" % (float(v) if v is not None else None, float(cl[1]), cfg),
                                 sc.replay_of(p, cfg, ru, {"certified_optimum": lpgen.qs(cl[1])}))
        elif complete and cl is not None and cl[0] == "optimal":
            # completeness: an LP with a finite optimum must be solved to OPTIMAL
            sig = "not-solved:%s:%s" % (st, "+".join(sorted("%s=%s" % (a, b) for a, b in cfg.items() if a in ("pricer", "ratiotester", "starter", "factor_update_type", "representation", "algorithm"))) or "default")
            ck.violation("not-solved:%s:%s:starter=%s:simplifier=%s" % (st, "+".join(t for t in tags if t == "polish") or "plain", cfg.get("starter", 0),
                                                                      "off" if cfg.get("simplifier", 3) == 0 else "on"), "LP with certified finite optimum %s was not solved to OPTIMAL (status %s, %s iterations) under %s" % (
                float(cl[1]), st, ru.get("iters"), cfg), sc.replay_of(p, cfg, ru, {"certified_optimum": lpgen.qs(cl[1]), "detail": sig}))

    for k, p in enumerate(lps):
        if k in skipped:
            continue
        cl = classes[k]
        for ru in runs[k]:
            c = int(ru["_id"].split("!")[0])
            judge(k, p, cfgs[k][c], ru, str(c), True)
        for ru in ck.hruns.get(k, []):
            rid = ru["_id"].split("!")[0]
            if ru["status"] == "EXCEPTION":
                continue
            h, n = rid[1:].split(".")
            cfg = sc.hist_cfg(hists[k][int(h)], int(n))
            complete = not sc.limits_set(cfg)
            cfg["history"] = " ".join(hists[k][int(h)])
            ck.count("history-solve")
            judge(k, p, cfg, ru, rid, complete)
        if k < 2:
            ck.sample({"lp": p.text(str(k)), "class": (cl[0] if cl else None), "configs": cfgs[k][:2],
                       "statuses": [ru["status"] for ru in runs[k]]})
    ck.cov["worst_accepted_residuals"] = worst
    ck.cov["tolerances"] = {"tp": float(sc.TP), "td": float(sc.TD), "tc": float(sc.TC), "tv": float(sc.TV), "objective_agreement": float(OBJ_AGREE)}
    ck.cov["rule"] = ("LPs from the around-a-point / random / infeasible / unbounded families (small-integer dyadic data, sizes up to %d), each solved "
                      "under the default and %d sampled configurations of representation x algorithm x factor update x simplifier x scaler x starter x "
                      "pricer x ratio tester x polishing x hyper pricing x row bound flips x persistent scaling x full perturbation; a case is (LP, configuration), "
                      "non-trivial when rows+columns >= 3; distinct = distinct (LP text, configuration)" % (nmax, ncfg))
    ck.cov["trusted_base"] = ["Coq 8.16.1 kernel; theorems of Properties_C01.v closed under the global context",
                              "extraction (ExtrOcamlBasic) + extract/C01/driver.ml (zarith for parsing/printing rationals)",
                              "harness/C01.cpp (public API of SoPlexBase<double>; private simplifier statistics only to label violations)",
                              "SoPlex's own exact mode is an UNTRUSTED producer of exact certificates: an LP is classified only if check_opt_exact / check_farkas / "
                              "feasible_b+check_ray accept the certificate",
                              "checks/lpgen.py, checks/solvecommon.py (generation, orchestration, naming of violations)"]
    ck.assumptions = ["tolerances tp=td=1e-6, tc=1e-4, tv=1e-7 (relative) are the acceptance thresholds of the proved checker; the simplex loop, pricers, ratio tests, "
                      "presolve and scalers are witness producers and are not modelled",
                      "completeness (finite optimum => OPTIMAL) and agreement with the true optimum are claimed only for LPs whose class was certified"]
    ck.finish()


if __name__ == "__main__":
    main()
