#!/usr/bin/env python3
"""C08 - presolve verdicts are true; postsolve maps optimal solutions of the reduced LP to optimal solutions of the
original LP (same objective value, valid basis).

Legs: (A) Coq theorems over the step models of coq/PostsolveModel.v (Properties_C08.v);
      (B1) composite validation: SPxMainSM<double> driven directly, every unsimplified solution judged by the proved
           checker check_opt_tol (coq/Cert.v, runner extracted for C01) on the ORIGINAL LP; verdicts compared with the
           class certified by exact certificates;
      (B2) step-level correspondence: every PostStep::execute observed in the walk over m_hist is replayed with the
           extracted step model (extract/C08)."""
import json
import os
import sys
from fractions import Fraction

sys.path.insert(0, os.path.dirname(os.path.abspath(__file__)))
sys.path.insert(0, os.path.dirname(os.path.dirname(os.path.abspath(__file__))))
import vlib
import lpgen
import solvecommon as sc
from lpgen import qs, vtxt

HARNESSES = ["C08", "C01"]
MODEL = True
F = Fraction
VAL_REL = 1e-9            # step replay: values within 1e-9 relative to max(1,|a|,|b|)
INFTY = F(10) ** 100
MODELLED = ["RowObj", "FreeConstraint", "EmptyConstraint", "FixVariable", "FixBounds", "RowSingleton", "ForceConstraint",
            "ZeroObjColSingleton", "FreeColSingleton", "DoubletonEquation", "DuplicateRows", "DuplicateCols", "Aggregation",
            "MultiAggregation", "TightenBounds", "FreeZeroObjVariable"]


# --------------------------------------------------------------------------------------
# generator: LPs rich in the structures presolve acts on, built around a feasible point x0
# --------------------------------------------------------------------------------------

def gen_base(r, nmax):
    n = r.randint(1, nmax)
    m = r.randint(0, nmax)
    x0 = [F(r.randint(-4, 4)) for _ in range(n)]
    cols = []
    for j in range(n):
        t = r.randrange(8)
        obj = F(r.randint(-5, 5)) if r.random() < 0.75 else F(0)
        if t == 0:
            lo, up = None, None
        elif t == 1:
            lo, up = x0[j] - r.randint(0, 3), None
        elif t == 2:
            lo, up = None, x0[j] + r.randint(0, 3)
        elif t == 3:
            lo = up = x0[j]
        else:
            lo, up = x0[j] - r.randint(0, 4), x0[j] + r.randint(0, 4)
        cols.append((obj, lo, up))
    rows = []
    for i in range(m):
        co = lpgen.rand_row_vec(r, n, r.choice([0.3, 0.5, 0.8]))
        rows.append(side_row(r, co, x0))
    return cols, rows, x0


def gen_core(r, nmax):
    """dense, non-redundant core that survives the simple row/column passes, so that the duplicate-row / duplicate-column
    passes and the simplex solve of the reduced LP are reached"""
    n = r.randint(3, max(3, nmax))
    m = r.randint(2, n)
    x0 = [F(r.randint(-3, 3)) for _ in range(n)]
    cols = [(F(r.randint(-5, 5)), x0[j] - r.randint(1, 4), x0[j] + r.randint(1, 4)) for j in range(n)]
    rows = []
    for i in range(m):
        js = r.sample(range(n), min(n, r.randint(3, 5)))
        co = {j: lpgen.rand_coef(r, 5) for j in js}
        a = act(co, x0)
        t = r.randrange(4)
        if t == 0:
            rows.append((a - r.randint(0, 2), co, a + r.randint(0, 2)))
        elif t == 1:
            rows.append((None, co, a + r.randint(0, 2)))
        elif t == 2:
            rows.append((a - r.randint(0, 2), co, None))
        else:
            rows.append((a, co, a))
    return cols, rows, x0


def act(co, x0):
    return sum((v * x0[j] for j, v in co.items()), F(0))


def side_row(r, co, x0, kinds=None):
    a = act(co, x0)
    t = r.choice(kinds) if kinds else r.randrange(7)
    if t == 0:
        return (None, co, a + r.randint(0, 4))
    if t == 1:
        return (a - r.randint(0, 4), co, None)
    if t == 2:
        return (a, co, a)
    if t == 3:
        return (a - r.randint(0, 3), co, a + r.randint(0, 3))
    if t == 4:
        return (None, co, None)
    if t == 5:
        return (None, co, a)
    return (a, co, None)


def new_col(cols, x0, obj, lo, up, v0):
    cols.append((F(obj), lo, up))
    x0.append(F(v0))
    return len(cols) - 1


def shift_row(row, d):
    lhs, co, rhs = row
    return (None if lhs is None else lhs + d, co, None if rhs is None else rhs + d)


def decorate(r, cols, rows, x0, tags):
    """add one presolve structure; every decoration keeps x0 (possibly extended) feasible"""
    n, m = len(cols), len(rows)
    k = r.randrange(16)
    if k == 0:
        rows.append((None, {}, F(r.randint(0, 3))) if r.random() < 0.7 else (F(-1), {}, None))
        tags.append("empty-row")
    elif k == 1 and n:
        j = r.randrange(n)
        rows.append(side_row(r, {j: lpgen.rand_coef(r, 4)}, x0))
        tags.append("singleton-row")
    elif k == 2 and n >= 2:
        j, kk = r.sample(range(n), 2)
        co = {j: lpgen.rand_coef(r, 4), kk: lpgen.rand_coef(r, 4)}
        rows.append(side_row(r, co, x0, [2]))
        tags.append("doubleton-eq")
    elif k == 3 and m:
        i = r.randrange(m)
        f = F(r.choice([1, 2, -1, -2, 3])) / r.choice([1, 1, 2])
        co = {j: v * f for j, v in rows[i][1].items()}
        rows.append(side_row(r, co, x0))
        tags.append("parallel-row")
    elif k == 4 and m:
        # free column singleton / zero-objective column singleton / singleton in a doubleton equation
        i = r.randrange(m)
        a = lpgen.rand_coef(r, 4)
        v0 = F(r.randint(-2, 2))
        t = r.randrange(4)
        if t == 0:
            j = new_col(cols, x0, r.randint(-4, 4), None, None, v0)
        elif t == 1:
            j = new_col(cols, x0, 0, v0 - r.randint(0, 3), v0 + r.randint(0, 3), v0)
        elif t == 2:
            j = new_col(cols, x0, 0, None if r.random() < 0.5 else v0 - 1, None if r.random() < 0.5 else v0 + 2, v0)
        else:
            j = new_col(cols, x0, r.randint(-4, 4), v0 - r.randint(0, 2), None if r.random() < 0.5 else v0 + r.randint(0, 2), v0)
        lhs, co, rhs = rows[i]
        co = dict(co)
        co[j] = a
        rows[i] = shift_row((lhs, co, rhs), a * v0)
        tags.append("col-singleton")
    elif k == 5 and n >= 1:
        # column singleton in a doubleton equation
        kk = r.randrange(n)
        v0 = F(r.randint(-2, 2))
        j = new_col(cols, x0, r.randint(-4, 4), v0 - r.randint(0, 3), v0 + r.randint(0, 3) if r.random() < 0.7 else None, v0)
        co = {j: lpgen.rand_coef(r, 3), kk: lpgen.rand_coef(r, 3)}
        rows.append(side_row(r, co, x0, [2]))
        tags.append("doubleton-singleton")
    elif k == 6 and n:
        # forcing row: the bound activity equals the side
        js = r.sample(range(n), min(n, r.randint(1, 3)))
        co = {}
        for j in js:
            o, lo, up = cols[j]
            if r.random() < 0.5:
                cols[j] = (o, x0[j], up if (up is None or up >= x0[j]) else x0[j])
                co[j] = F(r.randint(1, 4))
            else:
                cols[j] = (o, lo if (lo is None or lo <= x0[j]) else x0[j], x0[j])
                co[j] = -F(r.randint(1, 4))
        a = act(co, x0)
        rows.append((None, co, a) if r.random() < 0.7 else (a - 3, co, a))
        tags.append("forcing-row")
    elif k == 7 and n:
        # duplicate column (value 0 for the copy)
        j = r.randrange(n)
        f = F(r.choice([1, 2, -1, -2])) / r.choice([1, 2])
        o, lo, up = cols[j]
        t = r.randrange(4)
        nlo, nup = (None, None) if t == 0 else ((F(0), None) if t == 1 else ((F(-r.randint(0, 2)), F(r.randint(0, 3))) if t == 2 else (None, F(0))))
        jj = new_col(cols, x0, o * f if r.random() < 0.8 else o * f + 1, nlo, nup, 0)
        for i, (lhs, co, rhs) in enumerate(rows):
            if j in co:
                co = dict(co)
                co[jj] = co[j] * f
                rows[i] = (lhs, co, rhs)
        tags.append("duplicate-col")
    elif k == 8:
        # empty column
        t = r.randrange(3)
        o = r.randint(-3, 3)
        if t == 0:
            new_col(cols, x0, o, F(-1), F(2), 0)
        elif t == 1:
            new_col(cols, x0, abs(o), F(0), None, 0)
        else:
            new_col(cols, x0, o, None, None, 0)
        tags.append("empty-col")
    elif k == 9 and m:
        # dominated column: only hurts
        v0 = F(r.randint(-1, 2))
        j = new_col(cols, x0, 0, v0, v0 + r.randint(0, 3) if r.random() < 0.6 else None, v0)
        for i in r.sample(range(m), min(m, r.randint(1, 3))):
            lhs, co, rhs = rows[i]
            if lhs is not None and rhs is not None:
                continue
            a = F(r.randint(1, 3)) * (1 if lhs is None else -1)
            co = dict(co)
            co[j] = a
            rows[i] = shift_row((lhs, co, rhs), a * v0)
        cols[j] = (F(r.randint(0, 4)), cols[j][1], cols[j][2])
        tags.append("dominated-col")
    elif k == 10 and n:
        # implied free column: its bounds follow from a singleton-free row with positive coefficients
        j = r.randrange(n)
        o, lo, up = cols[j]
        cols[j] = (o, x0[j] - 50, x0[j] + 50)
        co = {j: F(1)}
        rows.append((x0[j] - r.randint(0, 2), co, x0[j] + r.randint(0, 2)))
        tags.append("implied-free")
    elif k == 11 and n:
        j = r.randrange(n)
        o, lo, up = cols[j]
        cols[j] = (o, x0[j], x0[j])
        tags.append("fixed-col")
    elif k == 12 and n:
        j = r.randrange(n)
        o, lo, up = cols[j]
        cols[j] = (o, x0[j] - 1000 if r.random() < 0.5 else lo, x0[j] + 1000 if r.random() < 0.5 else up)
        tags.append("redundant-bounds")
    elif k == 13 and n:
        rows.append((None, lpgen.rand_row_vec(r, n, 0.5), None))
        tags.append("free-row")
    elif k == 14 and m:
        i = r.randrange(m)
        lhs, co, rhs = rows[i]
        a = act(co, x0)
        rows.append(side_row(r, dict(co), x0))
        tags.append("duplicate-row")
    elif k == 15 and n >= 2 and m:
        # multi-aggregation candidate: a column with one lock, implied bounds
        i = r.randrange(m)
        lhs, co, rhs = rows[i]
        if len(co) >= 2 and not (lhs is not None and rhs is not None):
            v0 = F(0)
            j = new_col(cols, x0, r.randint(-2, 2), F(-100), F(100), v0)
            co = dict(co)
            co[j] = F(r.choice([1, -1, 2]))
            rows[i] = (lhs, co, rhs)
            i2 = r.randrange(m)
            if i2 != i:
                l2, c2, r2 = rows[i2]
                c2 = dict(c2)
                c2[j] = F(r.choice([1, -1]))
                rows[i2] = (l2, c2, r2)
            tags.append("multiagg")


def gen_pseudoobj(r, nmax):
    """costs >= 0 (minimisation form), finite lower bounds, one covering row parallel to the objective: the trivial
    heuristic finds an optimal point, pseudo-objective propagation tightens bounds that are active at degenerate optimal
    vertices (TightenBoundsPS)"""
    n = r.randint(2, 4)
    c = [F(r.randint(1, 3)) for _ in range(n)]
    k = F(r.choice([1, 2]))
    cols = [(c[j], F(-r.randint(1, 6)), F(r.randint(4, 12))) for j in range(n)]
    rows = [(F(0), {j: c[j] * k for j in range(n)}, None)]
    if r.random() < 0.5:
        co = {j: lpgen.rand_coef(r, 3) for j in r.sample(range(n), 2)}
        rows.append((F(-40), co, F(40)))
    maxi = r.random() < 0.3
    if maxi:
        cols = [(-o, lo, up) for (o, lo, up) in cols]
    return lpgen.LP(maxi, 0, cols, rows, "pseudoobj"), ["pseudo-objective"]


def implied_bounds(row, cols, t):
    """bounds of column t implied by the row sides and the bounds of the other columns of the row (None = none)"""
    lhs, co, rhs = row
    mn, mx = F(0), F(0)
    for j, a in co.items():
        if j == t:
            continue
        lo, up = cols[j][1], cols[j][2]
        lo_t, up_t = (lo, up) if a > 0 else (up, lo)
        mn = None if (mn is None or lo_t is None) else mn + a * lo_t
        mx = None if (mx is None or up_t is None) else mx + a * up_t
    a = co[t]
    # a x_t <= rhs - mn,  a x_t >= lhs - mx
    hi = None if (rhs is None or mn is None) else (rhs - mn) / a
    lw = None if (lhs is None or mx is None) else (lhs - mx) / a
    return (lw, hi) if a > 0 else (hi, lw)


def gen_implied_ties(r, count, noise):
    """rows (equations and ranged rows) with mixed-sign small integer coefficients in which column bounds are EXACTLY the
    bounds implied by the row and the other columns' bounds (ties): the case splits of the implied-free-variable /
    redundant-bound reasoning of simplifyRows and simplifyCols.  Systematic over: sign of the two coefficients x tied side
    (lower / upper / both) x what the other side is (infinite / wider / tie) x equation / ranged x position of the tied
    column in the row x objective +-e_j for a column of the row x min / max; magnitudes random."""
    combos = [(s1, s2, side, other, ranged, first, q, d)
              for s1 in (1, -1) for s2 in (1, -1) for side in ("up", "lo", "both") for other in ("inf", "wide")
              for ranged in (False, True) for first in (False, True) for q in (0, 1) for d in (1, -1)]
    r.shuffle(combos)
    out = []
    for (s1, s2, side, other, ranged, first, q, d) in combos[:count]:
        third = r.random() < 0.3
        a1 = F(s1 * r.randint(1, 3))
        a2 = F(s2 * r.choice([1, 1, 2]))
        l1 = F(r.randint(-4, 2))
        u1 = l1 + r.randint(1, 6)
        src_lo = r.random() < 0.6          # finite lower bound on the source column?
        cols = {0: (F(0), l1 if src_lo or side != "up" else None, u1)}
        co = {0: a1, 1: a2}
        if third:
            v = F(r.randint(-2, 2))
            cols[2] = (F(0), v, v + r.choice([0, 0, 1, 2]))
            co[2] = F(r.choice([-2, -1, 1, 2]))
        # make the source column's bounds needed for the implied side finite
        o, lo, up = cols[0]
        cols[0] = (o, lo if lo is not None else None, up)
        c = F(r.randint(-4, 6))
        row = (c - (r.randint(1, 3) if ranged else 0), co, c)
        cols[1] = (F(0), None, None)
        il, iu = implied_bounds(row, cols, 1)
        if side in ("lo", "both") and il is None or side in ("up", "both") and iu is None:
            cols[0] = (F(0), l1, u1)
            il, iu = implied_bounds(row, cols, 1)
        w = F(r.randint(1, 3))
        if side == "up":
            nlo, nup = (None if other == "inf" or il is None else il - w), iu
        elif side == "lo":
            nlo, nup = il, (None if other == "inf" or iu is None else iu + w)
        else:
            nlo, nup = il, iu
        cols[1] = (F(0), nlo, nup)
        # objective +-e_q for a column of the row (plus, sometimes, a small cost on the other one)
        obj = {0: F(0), 1: F(0), 2: F(0)}
        obj[q] = F(d * r.randint(1, 3))
        if r.random() < 0.25:
            obj[1 - q] = F(r.choice([-1, 1]))
        order = [1, 0] if first else [0, 1]          # position of the tied column in the row
        if third:
            order.insert(r.randrange(3), 2)
        pos = {old: new for new, old in enumerate(order)}
        lcols = [None] * len(order)
        for old, new in pos.items():
            lcols[new] = (obj[old], cols[old][1], cols[old][2])
        rows = [(row[0], {pos[j]: a for j, a in co.items()}, row[2])]
        if noise and r.random() < 0.5:
            # a second, loose row and an extra column
            lcols.append((F(r.randint(-2, 2)), F(0), F(r.randint(1, 5))))
            rows.append((None, {pos[0]: F(r.choice([-1, 1])), len(lcols) - 1: F(1)}, F(40)))
        out.append(lpgen.LP(r.random() < 0.5, 0, lcols, rows, "implied-tie"))
    return out


gen_singleton_equations = lpgen.gen_singleton_equations


def gen_presolve_lp(r, nmax):
    if r.random() < 0.06:
        return gen_pseudoobj(r, nmax)
    base = r.randrange(12)
    if base < 4:
        cols, rows, x0 = gen_base(r, nmax)
        fam = "rich"
    elif base < 7 or base >= 10:
        cols, rows, x0 = gen_core(r, nmax)
        fam = "core"
    elif base < 8:
        p = lpgen.gen_infeasible(r, nmax)
        cols, rows, x0 = list(p.cols), list(p.rows), [F(0)] * p.n
        fam = "rich-infeasible"
    elif base < 9:
        p = lpgen.gen_unbounded(r, nmax)
        cols, rows, x0 = list(p.cols), list(p.rows), [F(0)] * p.n
        fam = "rich-unbounded"
    else:
        p = lpgen.gen_around_point(r, nmax)
        return lpgen.LP(p.maxi, 0, p.cols, p.rows, "lpgen-vertex"), []
    tags = []
    if fam == "core":
        # duplicates of core rows / columns are what the duplicate passes look for
        for _ in range(r.randint(0, 2)):
            i = r.randrange(len(rows))
            f = F(r.choice([1, 2, -1, -2, 3, -3])) / r.choice([1, 1, 2])
            rows.append(side_row(r, {j: v * f for j, v in rows[i][1].items()}, x0, [0, 1, 2, 3, 3, 5, 6]))
            tags.append("duplicate-row")
        for _ in range(r.randint(0, 2)):
            j = r.randrange(len(cols))
            f = F(r.choice([1, 2, -1, -2])) / r.choice([1, 2])
            t = r.randrange(4)
            nlo, nup = (None, None) if t == 0 else ((F(0), None) if t == 1 else ((F(-r.randint(0, 2)), F(r.randint(0, 3))) if t == 2 else (None, F(0))))
            jj = new_col(cols, x0, cols[j][0] * f, nlo, nup, 0)
            for i, (lhs, co, rhs) in enumerate(rows):
                if j in co:
                    co = dict(co)
                    co[jj] = co[j] * f
                    rows[i] = (lhs, co, rhs)
            tags.append("duplicate-col")
    for _ in range(r.randint(0 if fam == "core" else 1, 5 if fam != "core" else 3)):
        decorate(r, cols, rows, x0, tags)
    if r.random() < 0.5:
        r.shuffle(rows)
    return lpgen.LP(r.random() < 0.5, 0, cols, rows, fam), tags


# --------------------------------------------------------------------------------------
# helpers
# --------------------------------------------------------------------------------------

def dyf(t):
    """dyadic token -> float"""
    m, e = t.split(":")
    try:
        return float(int(m)) * 2.0 ** int(e)
    except OverflowError:
        return float("inf") if int(m) > 0 else float("-inf")


def vecf(s):
    return [dyf(t) for t in s.split(",") if t != ""]


def hexvec(s):
    return [float.fromhex(t) for t in s.split(",") if t != ""]


def ext(t):
    v = lpgen.dy2fr(t)
    if v is None or v >= INFTY:
        return None
    if v <= -INFTY:
        return None
    return v


def close(a, b):
    if a == b:
        return True
    return abs(a - b) <= VAL_REL * max(1.0, abs(a), abs(b))


def state_of(kv, hexa):
    conv = hexvec if hexa else vecf
    return {"x": conv(kv["x"]), "y": conv(kv["y"]), "s": conv(kv["s"]), "r": conv(kv["r"]), "cs": kv["cs"].rstrip(","), "rs": kv["rs"].rstrip(",")}


def same_state(a, b):
    if a["cs"] != b["cs"] or a["rs"] != b["rs"]:
        return "status"
    for k in "xysr":
        if len(a[k]) != len(b[k]):
            return "dims"
        for u, v in zip(a[k], b[k]):
            if not close(u, v):
                return k
    return None


def basis_problems(p, rs, cs, x, s):
    """isBasisValid conditions (count, no nonbasic at an infinite bound, FIXED only with equal bounds, no UNDEFINED)
    and, separately, consistency of the nonbasic statuses with the returned point"""
    bad, incons = [], []
    if len(rs) != p.m or len(cs) != p.n:
        return ["dims"], []
    nb = sum(1 for c in rs + cs if c == "B")
    if nb != p.m:
        bad.append("count:%d!=%d" % (nb, p.m))
    items = [("col", j, cs[j], p.cols[j][1], p.cols[j][2], x[j]) for j in range(p.n)] + \
            [("row", i, rs[i], p.rows[i][0], p.rows[i][2], s[i]) for i in range(p.m)]
    for kind, idx, st, lo, up, val in items:
        if st == "?":
            bad.append("%s%d:undefined" % (kind, idx))
        elif st == "L":
            if lo is None:
                bad.append("%s%d:on-lower-at-infinite-bound" % (kind, idx))
            elif abs(val - lo) > sc.TC:
                incons.append("%s%d:on-lower-but-value-differs" % (kind, idx))
        elif st == "U":
            if up is None:
                bad.append("%s%d:on-upper-at-infinite-bound" % (kind, idx))
            elif abs(val - up) > sc.TC:
                incons.append("%s%d:on-upper-but-value-differs" % (kind, idx))
        elif st == "F":
            if lo is None or up is None or lo != up:
                bad.append("%s%d:fixed-with-unequal-bounds" % (kind, idx))
        elif st == "Z":
            if lo is not None or up is not None:
                incons.append("%s%d:zero-on-bounded" % (kind, idx))
    return bad, incons


def rank_full(M):
    """is the square Fraction matrix nonsingular?"""
    n = len(M)
    M = [list(r) for r in M]
    for c in range(n):
        piv = None
        for r_ in range(c, n):
            if M[r_][c] != 0:
                piv = r_
                break
        if piv is None:
            return False
        M[c], M[piv] = M[piv], M[c]
        for r_ in range(c + 1, n):
            if M[r_][c] != 0:
                f = M[r_][c] / M[c][c]
                M[r_] = [a - f * b for a, b in zip(M[r_], M[c])]
    return True


def alt_bases(rp, v, r, limit):
    """other optimal BASES for the same primal-dual point of the reduced LP (degenerate vertices): what a different solver
    may return.  A variable may be basic iff its multiplier vanishes and must be basic iff it is strictly between its
    bounds; the basis matrix must be regular.  Returns [(rs, cs)]."""
    tol = F(1, 10**9)
    x, s_, y, d = (lpgen.vec_dy(v[k]) for k in ("x", "s", "y", "d"))
    rs0, cs0 = v["rs"].rstrip(","), v["cs"].rstrip(",")
    if len(x) != rp.n or len(s_) != rp.m or len(rs0) != rp.m or len(cs0) != rp.n or rp.m == 0:
        return []
    sg = -1 if rp.maxi else 1
    items = [("c", j, x[j], rp.cols[j][1], rp.cols[j][2], sg * d[j], cs0[j]) for j in range(rp.n)] + \
            [("r", i, s_[i], rp.rows[i][0], rp.rows[i][2], sg * y[i], rs0[i]) for i in range(rp.m)]
    must, cand, nb = [], [], {}
    for it in items:
        kind, idx, val, lo, up, mult, st0 = it
        at_lo = lo is not None and abs(val - lo) <= tol
        at_up = up is not None and abs(val - up) <= tol
        free0 = lo is None and up is None and abs(val) <= tol
        zero = abs(mult) <= tol
        if at_lo and at_up:
            nbst = "F" if lo == up else None
        elif at_lo:
            nbst = "L"
        elif at_up:
            nbst = "U"
        elif free0:
            nbst = "Z"
        else:
            nbst = None
        if nbst is None:
            if not zero:
                return []
            must.append((kind, idx))
        elif zero:
            cand.append((kind, idx))
            nb[(kind, idx)] = nbst
        else:
            if (nbst == "L" and mult < 0) or (nbst == "U" and mult > 0):
                return []
            nb[(kind, idx)] = nbst
    need = rp.m - len(must)
    if need < 0 or need > len(cand):
        return []
    out, seen = [], {(rs0, cs0)}
    for _ in range(8 * limit):
        if len(out) >= limit:
            break
        B = set(must) | set(r.sample(cand, need))
        cs = "".join("B" if ("c", j) in B else nb.get(("c", j), "?") for j in range(rp.n))
        rs = "".join("B" if ("r", i) in B else nb.get(("r", i), "?") for i in range(rp.m))
        if (rs, cs) in seen or "?" in rs + cs:
            continue
        seen.add((rs, cs))
        M = []
        for i in range(rp.m):
            row = []
            for (kind, idx) in sorted(B):
                row.append(rp.rows[i][1].get(idx, F(0)) if kind == "c" else (F(-1) if idx == i else F(0)))
            M.append(row)
        if rank_full(M):
            out.append((rs, cs))
    return out


def merge_second_pass(runs, out):
    """attach the UNS / TRACE records of the SIMPX pass to the runs of the first pass"""
    byid = {ru["id"]: ru for rl in runs.values() for ru in rl}
    trace = None
    for l in out.splitlines():
        t = l.split()
        if not t:
            continue
        if t[0] == "TRACE":
            ru = byid.get(t[1].rsplit(".", 1)[0])
            trace = {"head": l, "steps": {}, "order": []}
            if ru is not None:
                ru["traces"][t[1]] = trace
        elif t[0] == "S" and trace is not None:
            trace["steps"][t[1]] = {"name": t[2], "S": l}
            trace["order"].append(t[1])
        elif t[0] == "PRE" and trace is not None:
            trace["steps"][t[1]]["PRE"] = l
        elif t[0] == "POST" and trace is not None:
            trace["steps"][t[1]]["POST"] = l
        elif t[0] == "UNS":
            kv = lpgen.parse_kv(l)
            ru = byid.get(kv["_id"].rsplit(".", 1)[0])
            if ru is not None:
                ru["uns"][kv["_id"]] = kv


def parse_cpp(out):
    """harness output -> per (lp id) list of runs"""
    runs = {}
    cur = None
    trace = None
    red = None
    for l in out.splitlines():
        t = l.split()
        if not t:
            continue
        if t[0] == "SIMP":
            kv = lpgen.parse_kv(l)
            lpid, rid = kv["_id"].split("/")
            cur = {"id": kv["_id"], "lp": int(lpid), "run": rid, "kv": kv, "red": None, "verts": {}, "uns": {}, "traces": {}, "rsolve": []}
            runs.setdefault(int(lpid), []).append(cur)
            red = None
        elif cur is None:
            continue
        elif t[0] == "VLP":
            red = {"maxi": t[2] == "max", "off": F(0), "cols": [], "rows": []}
            cur["vlp"] = red
        elif t[0] == "RLP":
            red = {"maxi": t[2] == "max", "off": lpgen.dy2fr(lpgen.parse_kv(l)["off"]), "cols": [], "rows": []}
            cur["red"] = red
        elif t[0] == "RC" and red is not None:
            red["cols"].append((lpgen.dy2fr(t[1]), ext(t[2]), ext(t[3])))
        elif t[0] == "RR" and red is not None:
            red["rows"].append((ext(t[1]), {int(e.split(":", 1)[0]): lpgen.dy2fr(e.split(":", 1)[1]) for e in t[3:]}, ext(t[2])))
        elif t[0] == "RSOLVE":
            cur["rsolve"].append(lpgen.parse_kv(l).get("status", "?"))
        elif t[0] == "VERT":
            kv = lpgen.parse_kv(l)
            cur["verts"][kv["_id"]] = kv
        elif t[0] == "TRACE":
            trace = {"head": l, "steps": {}, "order": []}
            cur["traces"][t[1]] = trace
        elif t[0] == "S" and trace is not None:
            trace["steps"][t[1]] = {"name": t[2], "S": l}
            trace["order"].append(t[1])
        elif t[0] == "PRE" and trace is not None:
            trace["steps"][t[1]]["PRE"] = l
        elif t[0] == "POST" and trace is not None:
            trace["steps"][t[1]]["POST"] = l
        elif t[0] == "UNS":
            kv = lpgen.parse_kv(l)
            cur["uns"][kv["_id"]] = kv
    return runs


def near_fixed(trace):
    """does the walk contain a FixVariablePS whose recorded bounds are equal up to rounding but not bitwise (fixColumn fixes
    on EQrel(lower, upper, feastol), FixVariablePS::execute marks FIXED only on lower == upper)?"""
    for k in trace["order"]:
        st = trace["steps"][k]
        if st["name"] != "FixVariable":
            continue
        a = lpgen.parse_kv(st["S"])
        if a["lower"] != a["upper"]:
            lo, up = dyf(a["lower"]), dyf(a["upper"])
            if abs(lo - up) <= 1e-6 * max(1.0, abs(lo), abs(up)):
                return True
    return False


def agg_rebasing(trace):
    """does the walk contain an AggregationPS::execute that moved the remaining variable into the basis (the branch of the
    known finding)?"""
    for k in trace["order"]:
        st = trace["steps"][k]
        if st["name"] != "Aggregation" or "POST" not in st or "EXC" in st["POST"]:
            continue
        a = lpgen.parse_kv(st["S"])
        j = int(a["j"])
        act_idx = [int(e.split(":")[0]) for e in a["row"].split(";") if e and int(e.split(":")[0]) != j]
        pre = lpgen.parse_kv(st["PRE"])["cs"]
        post = lpgen.parse_kv(st["POST"])["cs"]
        for c in act_idx:
            if c < len(pre) and pre[c] != "B" and post[c] == "B":
                return True
    return False


def main():
    ck = vlib.Check("C08", "proof")
    ck.prove()
    exe = vlib.build_harness("C08")
    exe01 = vlib.build_harness("C01")
    checker = vlib.build_model("C01")
    model = vlib.build_model("C08")
    S = sc.Session(ck, exe01, checker)
    nlp, nvert, nmax = (150, 4, 7) if ck.tier == "quick" else (10000, 12, 12)
    nalt = 3 if ck.tier == "quick" else 8
    r = ck.rng
    lps, tagsets = [], []
    replay_cfg = None
    if ck.args.replay:
        rp = json.load(open(ck.args.replay))
        cols, rows, head = [], [], None
        for l in rp.get("lp", "").splitlines():
            t = l.split()
            if t and t[0] == "LP":
                head = t
            elif t and t[0] == "C":
                cols.append((F(t[1]), lpgen.fr(t[2]), lpgen.fr(t[3])))
            elif t and t[0] == "R":
                rows.append((lpgen.fr(t[1]), {int(e.split(":")[0]): F(e.split(":")[1]) for e in t[3:]}, lpgen.fr(t[2])))
        if head is None:
            print("replay file carries no LP (obligation-level replay): re-run ./check C08")
        else:
            lps.append(lpgen.LP(head[2] == "max", F(head[3]), cols, rows, "replay"))
            tagsets.append(["replay"])
            replay_cfg = [(int(rp.get("keepbounds") or 0), int(rp.get("seed") or 0))]
            nlp = 0
    else:
        for c in lpgen.load_corpus("C08") + [c for c in lpgen.load_corpus("C01") if "agg" in c[0].family]:
            lps.append(c[0])
            tagsets.append(["corpus"])
    ncorpus = len(lps)
    if replay_cfg is None:
        # systematic family: every case is run with keep-bounds off AND on
        for p in gen_implied_ties(r, 64 if ck.tier == "quick" else 384, ck.tier != "quick"):
            lps.append(p)
            tagsets.append(["implied-tie"])
        for p in gen_singleton_equations(r, 72 if ck.tier == "quick" else 288):
            lps.append(p)
            tagsets.append(["singleton-equation"])
        for p in lpgen.gen_forcing_rows(r, 72 if ck.tier == "quick" else 384):
            lps.append(p)
            tagsets.append(["forcing-row"])
    nties = len(lps) - ncorpus
    nlp += nties
    while len(lps) < nlp + ncorpus:
        p, tags = gen_presolve_lp(r, nmax)
        lps.append(p)
        tagsets.append(tags)
    classes, exs = S.classify(lps)
    # ---- run the simplifier harness
    txt = ""
    runcfg = {}
    for k, p in enumerate(lps):
        txt += p.text(str(k)) + "\n"
        cfgs = (replay_cfg or [(0, 0), (1, 0)]) if k < ncorpus else ([(0, r.randrange(1000)), (1, r.randrange(1000))] if k < ncorpus + nties
                                                                      else [(r.randrange(2), r.randrange(1000))])
        if k >= ncorpus + nties and r.random() < 0.35:
            cfgs.append((1 - cfgs[0][0], r.randrange(1000)))
        runcfg[k] = cfgs
        for c, (keep, seed) in enumerate(cfgs):
            txt += "SIMP %d keep=%d seed=%d nvert=%d steps=1\n" % (c, keep, seed, nvert)
    rc, out, err = lpgen.run_harness(exe, txt, "C08-simp")
    runs = parse_cpp(out)
    if rc != 0:
        done = sum(len(v) for v in runs.values())
        ck.violation("crash", "the simplifier harness crashed (rc=%d) after %d runs: %s" % (rc, done, err[-300:]), {"kind": "crash", "stderr": err[-2000:]})
    # ---- other optimal bases of the same reduced-LP vertices (what a different solver may return): second harness pass
    q = ""
    for k in range(len(lps)):
        for ru in runs.get(k, []):
            if ru["red"] is None or not ru["verts"]:
                continue
            rp = lpgen.LP(ru["red"]["maxi"], ru["red"]["off"], ru["red"]["cols"], ru["red"]["rows"], "reduced")
            q += rp.text("r%s" % ru["id"]) + "\n"
            for vid, v in ru["verts"].items():
                q += "Q %s opttol %s %s %s %s %s %s %s %s %s\n" % (
                    vid, qs(sc.TP), qs(sc.TD), qs(sc.TC), qs(sc.TV), vtxt(lpgen.vec_dy(v["x"])), vtxt(lpgen.vec_dy(v["s"])),
                    vtxt(lpgen.vec_dy(v["y"])), vtxt(lpgen.vec_dy(v["d"])), qs(lpgen.dy2fr(v["obj"])))
    pre = {cid: {l.split()[1]: l.split()[3] for l in ls if l.startswith("A ")} for cid, ls in S._ask(q, "prejudge").items()} if q else {}
    txt2 = ""
    for k, p in enumerate(lps):
        cmds = ""
        for ru in runs.get(k, []):
            if ru["red"] is None:
                continue
            rp = lpgen.LP(ru["red"]["maxi"], ru["red"]["off"], ru["red"]["cols"], ru["red"]["rows"], "reduced")
            na = 0
            for vid, v in list(ru["verts"].items()):
                if pre.get("r" + ru["id"], {}).get(vid) != "true" or na >= nalt:
                    continue
                for (rs, cs) in alt_bases(rp, v, r, nalt - na):
                    avid = "a%d" % na
                    na += 1
                    full = "%s.%s" % (ru["id"], avid)
                    ru["verts"][full] = dict(v, rs=rs + ",", cs=cs + ",", cfg="altbasis-of-" + vid, _id=full)
                    cmds += "SIMPX %s keep=%s seed=%s vid=%s obj=%s x=%s y=%s s=%s r=%s rs=%s cs=%s\n" % (
                        ru["run"], ru["kv"]["keep"], ru["kv"]["seed"], avid, v["obj"], v["x"], v["y"], v["s"], v["d"], rs, cs)
                    ck.count("alternative-bases")
        if cmds:
            txt2 += p.text(str(k)) + "\n" + cmds
    if txt2:
        rc2, out2, err2 = lpgen.run_harness(exe, txt2, "C08-simpx")
        merge_second_pass(runs, out2)
        if rc2 != 0:
            ck.violation("crash", "the simplifier harness crashed (rc=%d) in the alternative-basis pass: %s" % (rc2, err2[-300:]), {"kind": "crash", "stderr": err2[-2000:]})
    # ---- queries to the proved checker: unsimplified solutions on the ORIGINAL LP, vertices on the reduced LP
    q = ""
    for k, p in enumerate(lps):
        q += p.text("o%d" % k) + "\n"
        for ru in runs.get(k, []):
            for vid, u in ru["uns"].items():
                if "x" not in u:
                    continue
                v = lpgen.dy2fr(u["redobj"]) + p.offset
                q += "Q %s opttol %s %s %s %s %s %s %s %s %s\n" % (
                    vid, qs(sc.TP), qs(sc.TD), qs(sc.TC), qs(sc.TV), vtxt(lpgen.vec_dy(u["x"])), vtxt(lpgen.vec_dy(u["s"])),
                    vtxt(lpgen.vec_dy(u["y"])), vtxt(lpgen.vec_dy(u["d"])), qs(v))
        for ru in runs.get(k, []):
            if ru["red"] is None:
                continue
            rp = lpgen.LP(ru["red"]["maxi"], ru["red"]["off"], ru["red"]["cols"], ru["red"]["rows"], "reduced")
            ru["redlp"] = rp
            q += rp.text("r%s" % ru["id"]) + "\n"
            for vid, v in ru["verts"].items():
                q += "Q %s opttol %s %s %s %s %s %s %s %s %s\n" % (
                    vid, qs(sc.TP), qs(sc.TD), qs(sc.TC), qs(sc.TV), vtxt(lpgen.vec_dy(v["x"])), vtxt(lpgen.vec_dy(v["s"])),
                    vtxt(lpgen.vec_dy(v["y"])), vtxt(lpgen.vec_dy(v["d"])), qs(lpgen.dy2fr(v["obj"])))
    A = S._ask(q, "judge")
    ans = {}
    for cid, ls in A.items():
        ans[cid] = {l.split()[1]: l.split()[3] for l in ls if l.startswith("A ")}
    # ---- step replay with the extracted model
    mtxt = []
    for k in range(len(lps)):
        for ru in runs.get(k, []):
            for tid, tr in ru["traces"].items():
                mtxt.append(tr["head"])
                for sk in tr["order"]:
                    st = tr["steps"][sk]
                    if "PRE" in st:
                        mtxt.append(st["S"])
                        mtxt.append(st["PRE"])
    mres = {}
    if mtxt:
        d = os.path.join(vlib.BUILD, "run")
        os.makedirs(d, exist_ok=True)
        f = os.path.join(d, "C08-steps.%d.txt" % os.getpid())
        with open(f, "w") as fh:
            fh.write("\n".join(mtxt) + "\n")
        rcm, mout, merr = vlib.sh([model, f], timeout=3000)
        if not os.environ.get("VERIF_KEEP"):
            os.remove(f)
        if rcm != 0:
            ck.violation("model-crash", "extracted step model failed: " + merr[-300:], {"kind": "model"}, no_input=True)
        for l in mout.splitlines():
            t = l.split()
            if t and t[0] == "M":
                mres.setdefault((t[1], t[2]), {})[int(t[3])] = l
    # ---- decide
    worst = {}
    stepstat = {}
    for k, p in enumerate(lps):
        cl = classes[k]
        for ru in runs.get(k, []):
            res = ru["kv"].get("result", "?")
            hist = [h for h in ru["kv"].get("hist", "").strip(",").split(";") if h]
            keep, seed = ru["kv"].get("keep"), ru["kv"].get("seed")
            ck.count("verdict:" + res)
            ck.count("family:" + p.family)
            ck.count("keep:" + str(keep))
            ck.count("sense:" + ("max" if p.maxi else "min"))
            for h in set(hist):
                ck.count("reduction:" + h)
            for tg in set(tagsets[k]):
                ck.count("structure:" + tg)
            ck.evaluated((p.key(), keep, seed), nontrivial=(len(hist) >= 1 and p.n + p.m >= 3))
            base = {"lp": p.text("replay"), "lp_format": p.lp_format(), "keepbounds": keep, "seed": seed, "simplifier_result": res, "history": hist,
                    "family": p.family, "structures": tagsets[k], "certified_class": (cl[0] if cl else None)}
            if res in ("EXCEPTION", "STDEXCEPTION", "OTHER", "?"):
                ck.violation("simplify-exception", "simplify() threw / returned an unknown result on a %dx%d LP" % (p.m, p.n), base)
                continue
            # verdicts
            if cl is not None:
                wrong = None
                if res == "INFEASIBLE" and cl[0] != "infeasible":
                    wrong = "INFEASIBLE"
                elif res in ("UNBOUNDED", "DUAL_INFEASIBLE") and cl[0] == "optimal":
                    wrong = res
                elif res == "VANISHED" and cl[0] != "optimal":
                    wrong = "VANISHED"
                if res == "UNBOUNDED" and cl[0] == "infeasible":
                    ck.count("note:UNBOUNDED-verdict-on-infeasible-lp(dual-infeasible-reading)")
                if wrong:
                    vt = ""
                    if ru.get("vlp") and any(0 < abs(c[0]) <= F(1, 10**9) for c in ru["vlp"]["cols"]):
                        vt = ":roundoff-objective"
                    ck.violation("verdict-false:%s-for-%s%s" % (wrong, cl[0], vt), "simplifier verdict %s for an LP certified %s (exact certificate accepted by the proved "
                                 "checker), keepbounds=%s seed=%s, reductions %s" % (wrong, cl[0], keep, seed, hist),
                                 dict(base, lp_at_verdict=[[float(c[0]), None if c[1] is None else float(c[1]), None if c[2] is None else float(c[2])] for c in ru["vlp"]["cols"]] if ru.get("vlp") else None))
                    continue
            if res == "OKAY":
                if not ru["verts"]:
                    sts = sorted(set(ru["rsolve"]))
                    if cl is not None and cl[0] == "optimal" and sts and all(s in ("INFEASIBLE", "UNBOUNDED", "INForUNBD") for s in sts):
                        ck.violation("reduced-lp-not-equivalent:%s%s" % ("+".join(sts), ":tightenbounds" if "TightenBounds" in hist else ""), "the reduced LP of an LP with certified finite optimum is reported %s by "
                                     "every solver setting" % sts, dict(base, reduced_lp=ru.get("redlp").text("reduced") if ru.get("redlp") else None))
                    ck.count("reduced-solve:" + "+".join(sts or ["none"]))
            # postsolved solutions
            for vid, u in ru["uns"].items():
                tr = ru["traces"].get(vid)
                tags = []
                if tr is not None and agg_rebasing(tr):
                    tags.append("aggregation")
                if "MultiAggregation" in hist:
                    tags.append("multiaggregation")
                if "TightenBounds" in hist:
                    tags.append("tightenbounds")
                if tr is not None and near_fixed(tr):
                    tags.append("nearfixed")
                rep = dict(base, vertex_of_reduced_lp=ru["verts"].get(vid), unsimplified=u,
                           reduced_lp=(ru["redlp"].text("reduced") if ru.get("redlp") else None))
                if "error" in u:
                    ck.violation("harness-resimplify", "second simplify() of the same LP gave a different result: %s" % u["error"], rep, no_input=True)
                    continue
                if res == "OKAY":
                    okred = ans.get("r" + ru["id"], {}).get(vid)
                    if okred != "true":
                        ck.count("skipped:reduced-vertex-not-certified")
                        continue
                    if cl is not None and cl[0] != "optimal":
                        ck.violation("reduced-optimal-for-%s" % cl[0], "the reduced LP has a certified optimal solution although the original LP is certified %s" % cl[0], rep)
                        continue
                if u.get("exception") == "1":
                    ck.violation("unsimplify-exception:%s" % ("+".join(tags) or "plain"), "unsimplify() threw on an optimal basic solution of the reduced LP (reductions %s)" % hist, rep)
                    continue
                ck.count("postsolved-solutions")
                if u.get("walk") != "1":
                    ck.violation("walk-differs", "the harness' own walk over m_hist ended in a different state than unsimplify()", rep, no_input=True)
                ok = ans.get("o%d" % k, {}).get(vid)
                v = lpgen.dy2fr(u["redobj"]) + p.offset
                clause, w = diagnose(p, u, v)
                if ok == "true":
                    for a, b in w.items():
                        worst[a] = max(worst.get(a, 0.0), b)
                else:
                    grp = {"station": "duals", "sign_cols": "signs", "sign_rows": "signs", "slack": "slacks", "bounds": "primal", "sides": "primal",
                           "value": "objective"}.get(clause, clause)
                    ck.violation("postsolve-%s:%s" % (grp, "+".join(tags) or "plain"),
                                 "the unsimplified solution of a certified optimal vertex of the reduced LP is rejected by check_opt_tol on the original %dx%d LP "
                                 "(first failing clause by untrusted diagnosis: %s, residuals %s); keepbounds=%s seed=%s reductions %s" % (p.m, p.n, clause, w, keep, seed, hist),
                                 dict(rep, theorem="Cert_Proofs.check_opt_tol_spec", clause=clause, residuals=w))
                if cl is not None and cl[0] == "optimal" and abs(v - cl[1]) > F(1, 10**6) * (1 + abs(cl[1])):
                    ck.violation("objective-not-optimal:%s" % ("+".join(tags) or "plain"), "reduced optimum + offset = %s but the certified optimum is %s" % (float(v), float(cl[1])), rep)
                x, s = lpgen.vec_dy(u["x"]), lpgen.vec_dy(u["s"])
                bad, incons = basis_problems(p, u["rs"].rstrip(","), u["cs"].rstrip(","), x, s)
                if bad:
                    cat = "count" if bad[0].startswith("count") else bad[0].split(":")[-1]
                    btag = "+".join(tags) or "plain"
                    if cat == "fixed-with-unequal-bounds" and "DoubletonEquation" in hist:
                        btag = "doubletonequation"
                    ck.violation("basis-invalid:%s:%s" % (cat, btag), "the unsimplified basis is not valid for the original LP: %s (reductions %s)" % (bad, hist),
                                 dict(rep, basis_problems=bad))
                if incons:
                    ck.count("note:basis-status-inconsistent-with-point")
                    ck.cov.setdefault("basis_inconsistencies", [])
                    if len(ck.cov["basis_inconsistencies"]) < 5:
                        ck.cov["basis_inconsistencies"].append({"lp": p.text("x"), "keep": keep, "seed": seed, "what": incons, "history": hist})
            # step-level correspondence
            for tid, tr in ru["traces"].items():
                for sk in tr["order"]:
                    st = tr["steps"][sk]
                    name = st["name"]
                    ss = stepstat.setdefault(name, {"replayed": 0, "ambiguous": 0, "mismatch": 0})
                    if "PRE" not in st or "POST" not in st:
                        continue
                    mv = mres.get((tid, sk))
                    if not mv or 0 not in mv or " BAD " in mv[0]:
                        ck.violation("step-unreplayed:%s" % name, "the extracted model could not replay a recorded %s step: %s" % (name, (mv or {}).get(0, "no output")),
                                     dict(base, step=st), no_input=True)
                        continue
                    cpp_exc = "EXC" in st["POST"].split()[2:3]
                    ms = {}
                    for vi, l in mv.items():
                        ms[vi] = None if l.split()[4:5] == ["EXC"] else state_of(lpgen.parse_kv(l), True)
                    amb = False
                    for vi in (1, 2, 3, 4):
                        a, b = ms.get(0), ms.get(vi)
                        if (a is None) != (b is None) or (a is not None and same_state(a, b)):
                            amb = True
                    if amb:
                        ss["ambiguous"] += 1
                        continue
                    ss["replayed"] += 1
                    cs_ = None if cpp_exc else state_of(lpgen.parse_kv(st["POST"]), False)
                    diff = None
                    if (cs_ is None) != (ms[0] is None):
                        diff = "exception"
                    elif cs_ is not None:
                        diff = same_state(cs_, ms[0])
                    if diff:
                        ss["mismatch"] += 1
                        ck.violation("step-mismatch:%s:%s" % (name, diff), "PostStep %s::execute and its model (coq/PostsolveModel.v) disagree on %s" % (name, diff),
                                     dict(base, step_data=st["S"], pre=st["PRE"], post_code=st["POST"], post_model=mv[0], trace=tid), no_input=True)
        if k < 3:
            ck.sample({"lp": p.text(str(k)), "class": (cl[0] if cl else None), "structures": tagsets[k],
                       "runs": [{"keep": ru["kv"].get("keep"), "result": ru["kv"].get("result"), "history": ru["kv"].get("hist"), "vertices": len(ru["uns"])} for ru in runs.get(k, [])]})
    ck.cov["step_replay"] = stepstat
    ck.cov["steps_modelled"] = MODELLED
    ck.cov["steps_not_modelled_covered_by_composite_only"] = sorted(set(stepstat) - set(MODELLED))
    ck.cov["observations"] = [
        "duplicateRows()/duplicateCols() never find anything on this tree: `m_dupRows[pClass[k]].add(k, 0.0)` / `m_dupCols[pClass[k]].add(k, 0.0)` are "
        "no-ops because SVectorBase::add drops zero values, so DuplicateRowsPS / non-sentinel DuplicateColsPS never enter m_hist (reduction:DuplicateRows "
        "= 0 in the input distribution although duplicate/parallel rows and columns are generated). Their step models were validated once against a "
        "scratch tree with add(k, 1.0): 115 + 292 steps replayed, 0 mismatches; on that tree the revived DuplicateRowsPS returns wrong duals.",
        "TightenBoundsPS (pseudo-objective bound propagation) can make a non-basic column BASIC with nothing leaving the basis: see "
        "C08_TightenBounds_basis_count_refuted and corpus/C08/tighten-bounds.lp (signature basis-invalid:count:tightenbounds)"]
    ck.cov["worst_accepted_residuals"] = worst
    ck.cov["tolerances"] = {"tp": float(sc.TP), "td": float(sc.TD), "tc": float(sc.TC), "tv": float(sc.TV), "step_value_rel": VAL_REL}
    ck.cov["rule"] = ("LPs rich in presolve structure (around-a-point base + 1..5 decorations: empty/singleton/forcing/duplicate/parallel/free rows, empty/"
                      "singleton/dominated/duplicate/implied-free/fixed columns, doubleton equations, redundant bounds, multi-aggregation candidates; infeasible and "
                      "unbounded bases; lpgen vertex family; systematic implied-bound-tie family: equations / ranged rows with mixed-sign coefficients whose column "
                      "bounds equal exactly the bounds implied by the row, objective +-e_j, each run with keep-bounds off and on), sizes up to %d+decorations, min/max, keep-bounds on/off, random presolve seeds; every OKAY run solves the "
                      "reduced LP to <= %d distinct optimal vertices (algorithm x pricer x representation x ratio tester x seed). A case is (LP, keepbounds, seed); "
                      "non-trivial when at least one reduction fired and rows+columns >= 3" % (nmax, nvert))
    ck.cov["trusted_base"] = ["Coq 8.16.1 kernel; theorems of Properties_C08.v",
                              "extraction (ExtrOcamlBasic) + extract/C08/driver.ml (step models) and extract/C01/driver.ml (certificate checker)",
                              "harness/C08.cpp (reads private SPxMainSM members with -fno-access-control; its walk over m_hist is compared bit-for-bit with unsimplify())",
                              "SoPlex exact mode as UNTRUSTED producer of class certificates; SoPlex (simplifier off) as UNTRUSTED producer of reduced-LP vertices: a "
                              "vertex is used only if check_opt_tol accepts it on the reduced LP",
                              "checks/C08.py, checks/lpgen.py, checks/solvecommon.py (generation, orchestration, naming)"]
    ck.assumptions = ["the order of reductions and which reductions fire are the simplifier's choice and are not modelled; the composite validation by the proved checker "
                      "covers them per run",
                      "step theorems are stated for the exact-comparison instance of the model; the tolerance instance is the one replayed against the code",
                      "verdict UNBOUNDED / DUAL_INFEASIBLE is read as 'no finite optimum' (dual infeasible), as the property text groups them"]
    ck.finish()


def diagnose(p, u, v):
    """untrusted naming of the failing clause (solvecommon.diagnose_opt reads the objective value as a dyadic token)"""
    return sc.diagnose_opt(p, {"x": u["x"], "s": u["s"], "y": u["y"], "d": u["d"], "obj": _dy_of(v)})


def _dy_of(v):
    """exact fraction with power-of-two denominator -> dyadic token; otherwise nearest double"""
    v = F(v)
    d = v.denominator
    if d & (d - 1) == 0:
        return "%d:%d" % (v.numerator, -(d.bit_length() - 1))
    m, e = vlib.dyadic(float(v))
    return "%d:%d" % (m, e)


if __name__ == "__main__":
    main()
