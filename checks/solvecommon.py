"""Shared machinery of the solve-level checks (C01, C02): certified classification of LPs, floating-point runs under
sampled configurations, judgement of every returned answer by the extracted (proved) checkers of coq/Cert.v."""
import os
import sys
from fractions import Fraction

sys.path.insert(0, os.path.dirname(os.path.abspath(__file__)))
sys.path.insert(0, os.path.dirname(os.path.dirname(os.path.abspath(__file__))))
import vlib
import lpgen
from lpgen import qs, vtxt

# tolerances handed to the proved checker (exact rationals).  Calibrated on the unchanged tree: observed maxima over
# > 10^4 OPTIMAL runs are ~2e-12 for every residual (see evidence), a wrong sign/exponent/index gives O(1).
TP = Fraction(1, 10**6)      # bounds, sides, slack = activity      (FEASTOL default 1e-6)
TD = Fraction(1, 10**6)      # stationarity residual, sign of multipliers (OPTTOL default 1e-6)
TC = Fraction(1, 10**4)      # "at the bound" for a multiplier beyond TD
TV = Fraction(1, 10**7)      # objective value, relative to 1+|v|
RAY_E = Fraction(1, 10**7)   # ray components against fixed directions, after scaling to max-norm 1
BOX_M = Fraction(10**6)      # Farkas vectors are judged on the M-box of the LP (farkas_box_sound)
CLEAN = Fraction(1, 10**9)


def sgn_vec(p, v):
    return [(-x if p.maxi else x) for x in v]


def norm_inf(v):
    m = max([abs(x) for x in v] + [Fraction(0)])
    return m


def scaled(v):
    m = norm_inf(v)
    if m == 0:
        return v
    return [x / m for x in v]


class Session:
    """one harness run + one checker run over a list of LPs"""

    _n = 0

    def __init__(self, ck, exe, model):
        self.ck, self.exe, self.model = ck, exe, model
        Session._n += 1
        self.tag = "%s-%d" % (ck.pid, Session._n)
        self.checker_failed = False

    # ---- step 1: exact classification (SoPlex exact mode as untrusted producer, proved checker as judge)
    def classify(self, lps):
        txt = ""
        for k, p in enumerate(lps):
            txt += p.text(str(k)) + "\nEXACT\n"
        rc, out, err = lpgen.run_harness(self.exe, txt, self.tag + "-exact")
        B = lpgen.blocks(out)
        q = ""
        exs = {}
        for k, p in enumerate(lps):
            ls = B.get(str(k), [])
            ex = lpgen.parse_kv(ls[0]) if ls else {"status": "MISSING"}
            exs[k] = ex
            q += p.text(str(k)) + "\n"
            if ex["status"] == "OPTIMAL" and "x" in ex and "y" in ex:
                q += "Q opt optexact %s %s\nQ val objective %s\n" % (vtxt(lpgen.vec_q(ex["x"])), vtxt(lpgen.vec_q(ex["y"])), vtxt(lpgen.vec_q(ex["x"])))
            if ex["status"] == "INFEASIBLE" and "farkas" in ex:
                # classification needs *a* valid certificate: try the vector and its negative (the exact path returns it in the
                # dual sign convention of the objective sense); the proved checker decides
                q += "Q far farkas %s\nQ farneg farkas %s\n" % (vtxt(lpgen.vec_q(ex["farkas"])), vtxt([-t for t in lpgen.vec_q(ex["farkas"])]))
            if ex["status"] == "UNBOUNDED" and "ray" in ex and "x" in ex:
                q += "Q feas feasible %s\nQ ray ray %s\n" % (vtxt(lpgen.vec_q(ex["x"])), vtxt(lpgen.vec_q(ex["ray"])))
        A = self._ask(q, "cls")
        classes = {}
        for k, p in enumerate(lps):
            a = {l.split()[1]: l.split()[3] for l in A.get(str(k), []) if l.startswith("A ")}
            ex = exs[k]
            cl = None
            if a.get("opt") == "true":
                cl = ("optimal", Fraction(a["val"]))
            elif a.get("far") == "true" or a.get("farneg") == "true":
                cl = ("infeasible", None)
            elif a.get("feas") == "true" and a.get("ray") == "true":
                cl = ("unbounded", None)
            classes[k] = cl
            self.ck.count("class:%s" % (cl[0] if cl else "uncertified(" + ex["status"] + ")"))
        if rc != 0:
            self.ck.count("exact-harness-rc:%d" % rc)
        return classes, exs

    def _ask(self, q, tag):
        d = os.path.join(vlib.BUILD, "run")
        os.makedirs(d, exist_ok=True)
        f = os.path.join(d, "%s-%s.%d.q" % (self.tag, tag, os.getpid()))
        with open(f, "w") as fh:
            fh.write(q)
        rc, out, err = vlib.sh([self.model, f], timeout=3000)
        if not os.environ.get("VERIF_KEEP"):
            os.remove(f)
        if rc != 0:
            self.checker_failed = True
            self.ck.violation("checker-crash", "extracted checker failed (rc=%d): %s" % (rc, err[-300:]), {"kind": "model"}, no_input=True)
        return lpgen.blocks(out)

    # ---- step 2: floating-point runs
    def run(self, lps, cfgs, hists=None):
        txt = ""
        for k, p in enumerate(lps):
            txt += p.text(str(k)) + "\n"
            for c, cfg in enumerate(cfgs[k]):
                txt += "RUN %d %s\n" % (c, lpgen.cfg_text(cfg))
            for h, steps in enumerate((hists or {}).get(k, [])):
                txt += "HIST h%d %s\n" % (h, " ".join(steps))
        rc, out, err = lpgen.run_harness(self.exe, txt, self.tag + "-run")
        B = lpgen.blocks(out)
        runs = {}
        self.hruns = {}
        for k in range(len(lps)):
            runs[k] = [lpgen.parse_kv(l) for l in B.get(str(k), []) if l.startswith("RUN ")]
            self.hruns[k] = [lpgen.parse_kv(l) for l in B.get(str(k), []) if l.startswith("HRUN ")]
        crashed = None
        if rc != 0:
            # the first run without an observation line
            for k in range(len(lps)):
                if len(runs[k]) < len(cfgs[k]):
                    crashed = (k, len(runs[k]))
                    break
                want = sum(st.count("OPT") for st in (hists or {}).get(k, []))
                if len(self.hruns[k]) < want:
                    # which history: the first one with fewer reports than solves
                    for h, st in enumerate(hists[k]):
                        got = sum(1 for ru in self.hruns[k] if ru["_id"].split("!")[0].startswith("h%d." % h))
                        if got < st.count("OPT"):
                            crashed = (k, "h%d" % h)
                            break
                    break
        return runs, rc, crashed

    # ---- step 3: ask the proved checker about every answer
    def judge_queries(self, lps, runs):
        q = ""
        for k, p in enumerate(lps):
            q += p.text(str(k)) + "\n"
            for ru in list(runs[k]) + list(getattr(self, "hruns", {}).get(k, [])):
                rid = ru["_id"].split("!")[0]
                if "drvp" in ru and "drvf" in ru:
                    # the control trace of the solve driver, replayed through the Coq model of solvereal.hpp (DriverModel.v)
                    q += "Q d%s driver %s %s %s\n" % (rid, ru["drvp"], ru["drvf"], ru.get("drv", ""))
                if ru["status"] == "OPTIMAL" and all(t in ru for t in ("x", "s", "y", "d", "obj")):
                    q += "Q o%s opttol %s %s %s %s %s %s %s %s %s\n" % (
                        rid, qs(TP), qs(TD), qs(TC), qs(TV), vtxt(lpgen.vec_dy(ru["x"])), vtxt(lpgen.vec_dy(ru["s"])),
                        vtxt(lpgen.vec_dy(ru["y"])), vtxt(lpgen.vec_dy(ru["d"])), qs(lpgen.dy2fr(ru["obj"])))
                if "farkas" in ru:
                    # scaled to max-norm 1; multipliers below 1e-9 are rounding noise and are cleaned to zero (the cleaned
                    # vector is the proof that is judged)
                    f = [t if abs(t) > CLEAN else Fraction(0) for t in scaled(lpgen.vec_dy(ru["farkas"]))]
                    q += "Q f%s farkasbox %s %s\n" % (rid, qs(BOX_M), vtxt(f))
                    q += "Q fn%s farkasbox %s %s\n" % (rid, qs(BOX_M), vtxt([-t for t in f]))
                if "ray" in ru:
                    r = scaled(lpgen.vec_dy(ru["ray"]))
                    q += "Q r%s raytol %s %s\n" % (rid, qs(RAY_E), vtxt(r))
        A = self._ask(q, "judge")
        ans = {}
        for k in range(len(lps)):
            ans[k] = {l.split()[1]: l.split()[3] for l in A.get(str(k), []) if l.startswith("A ")}
        return ans


# ---- untrusted diagnosis: which clause of the optimality certificate fails (only used to name the violation) ----
def diagnose_opt(p, ru):
    x = lpgen.vec_dy(ru["x"])
    s = lpgen.vec_dy(ru["s"])
    y = lpgen.vec_dy(ru["y"])
    d = lpgen.vec_dy(ru["d"])
    v = lpgen.dy2fr(ru["obj"])
    if len(x) != p.n or len(d) != p.n or len(s) != p.m or len(y) != p.m or any(t is None for t in x + s + y + d + [v]):
        return "dims", {}
    sg = -1 if p.maxi else 1
    worst = {}

    def upd(k, val):
        worst[k] = max(worst.get(k, Fraction(0)), val)
    for j, (o, lo, up) in enumerate(p.cols):
        if lo is not None:
            upd("bounds", lo - x[j])
        if up is not None:
            upd("bounds", x[j] - up)
        z = sum((p.rows[i][1].get(j, 0) * y[i] for i in range(p.m)), Fraction(0))
        upd("station", abs(d[j] - (o - z)))
        dj = sg * d[j]
        if dj > TD and not (lo is not None and abs(x[j] - lo) <= TC):
            upd("sign_cols", dj)
        if dj < -TD and not (up is not None and abs(x[j] - up) <= TC):
            upd("sign_cols", -dj)
    for i, (lhs, co, rhs) in enumerate(p.rows):
        upd("slack", abs(p.activity(i, x) - s[i]))
        if lhs is not None:
            upd("sides", lhs - s[i])
        if rhs is not None:
            upd("sides", s[i] - rhs)
        yi = sg * y[i]
        if yi > TD and not (lhs is not None and abs(s[i] - lhs) <= TC):
            upd("sign_rows", yi)
        if yi < -TD and not (rhs is not None and abs(s[i] - rhs) <= TC):
            upd("sign_rows", -yi)
    obj = sum((c[0] * x[j] for j, c in enumerate(p.cols)), Fraction(0)) + p.offset
    upd("value", abs(v - obj) / (1 + abs(v)))
    lim = {"bounds": TP, "sides": TP, "slack": TP, "station": TD, "sign_cols": 0, "sign_rows": 0, "value": TV}
    failing = [k for k in ("slack", "station", "bounds", "sides", "sign_cols", "sign_rows", "value") if worst.get(k, 0) > lim[k]]
    return (failing[0] if failing else "none"), {k: float(v) for k, v in worst.items()}


def presolve_tags(ru, cfg):
    """context used in violation signatures so that a recorded finding stays specific"""
    ps = ru.get("ps", "")
    steps = set()
    for part in ps.strip(",").split(";"):
        if ":" in part:
            steps.add(int(part.split(":")[0]))
    tags = []
    if 15 in steps:
        tags.append("agg")
    if 16 in steps:
        tags.append("multiagg")
    if cfg.get("solution_polishing", 0) != 0:
        tags.append("polish")
    return tags, steps


def replay_of(p, cfg, ru, extra=None):
    d = {"lp": p.text("replay"), "lp_format": p.lp_format(), "config": cfg, "observed": {k: v for k, v in ru.items() if not k.startswith("_")},
         "family": p.family}
    if extra:
        d.update(extra)
    return d


def gen_history(r, long_p=0.08):
    """steps of one HIST command: several solves of one LP on one object with parameter changes in between.
    Only parameters are changed, so every answer is still an answer about the same LP."""
    if r.random() < 0.12:
        # scaler walk: a scaler, then none (the exponents stay behind in the LP), then another one that may decide not to scale
        return ["persistentscaling=1", "scaler=%d" % r.choice([1, 2, 5, 6]), "OPT", "scaler=0", "OPT", "scaler=%d" % r.choice([3, 4, 3, 4, 1, 6]), "OPT"]
    n = r.randrange(12, 16) if r.random() < long_p else r.randrange(2, 6)
    steps = []
    for k, vs in lpgen.ALGO_SPACE.items():
        if r.random() < 0.4:
            steps.append("%s=%s" % (k, r.choice(vs)))
    if r.random() < 0.5:
        steps.append("ensureray=1")
    for i in range(n):
        steps.append("OPT")
        if i == n - 1:
            break
        m = r.random()
        if m < 0.45:
            steps.append("CLB")
        for k, vs in (("simplifier", [0, 1, 3]), ("scaler", [0, 1, 2, 3, 4, 5, 6]), ("persistentscaling", [0, 1]), ("ensureray", [0, 1]),
                      ("representation", [0, 1, 2]), ("algorithm", [0, 1]), ("iterlimit", [-1, -1, 0, 1, 2, 3]),
                      ("objlimit_upper", ["1e100", "1e100", "-5", "0", "7", "50"]), ("objlimit_lower", ["-1e100", "-1e100", "-50", "0", "5"])):
            if r.random() < 0.22:
                steps.append("%s=%s" % (k, r.choice(vs)))
    return steps


def hist_cfg(steps, n):
    """the parameter settings in effect at the n-th OPT of a history"""
    cfg, seen = {}, 0
    for t in steps:
        if t == "OPT":
            if seen == n:
                return cfg
            seen += 1
        elif "=" in t:
            k, v = t.split("=", 1)
            try:
                cfg[k] = int(v)
            except ValueError:
                cfg[k] = v
    return cfg


def limits_set(cfg):
    return (cfg.get("iterlimit", -1) != -1 or str(cfg.get("objlimit_upper", "1e100")) != "1e100"
            or str(cfg.get("objlimit_lower", "-1e100")) != "-1e100")


def driver_verdicts(ck, lps, cfgs, runs, hruns, ans, skipped, hists=None):
    """correspondence of the solve driver with coq/DriverModel.v on every recorded optimize() call"""
    for k, p in enumerate(lps):
        if k in skipped:
            continue
        for ru in list(runs[k]) + list(hruns.get(k, [])):
            if "drvp" not in ru:
                continue
            rid = ru["_id"].split("!")[0]
            a = ans[k].get("d" + rid)
            ck.count("driver-trace:" + ("agree" if a == "true" else "disagree"))
            ncalls = ru.get("drv", "").count(";10,")
            ck.count("driver-inner-solves:%d" % ncalls)
            if a == "true":
                continue
            kind = (a or "missing").split(":")[0]
            hist = None
            if rid.startswith("h") and hists is not None:
                hist = hists[k][int(rid[1:].split(".")[0])]
            cfg = cfgs[k][int(rid)] if rid.isdigit() else {"history": hist, "solve": rid}
            if kind in ("space", "ungated"):
                what = ("the solution stored with the final status is not in the user's problem space" if kind == "space" else
                        "OPTIMAL is reported for a solution that was neither computed on the user's LP itself nor passed _verifySolutionReal")
                ck.violation("driver-%s" % kind, what + " (model of the solve driver, theorems C01_optimal_is_gated / C01_stored_solution_in_user_space) under %s" % (cfg,),
                             replay_of(p, cfg if rid.isdigit() else {}, ru, {"history": hist, "model_answer": a}))
            else:
                ck.violation("driver-correspondence:%s" % kind,
                             "the control trace of the solve driver (solvereal.hpp) differs from coq/DriverModel.v: %s under %s" % (a, cfg),
                             replay_of(p, cfg if rid.isdigit() else {}, ru, {"history": hist, "model_answer": a, "correspondence": "DriverModel.replay"}),
                             no_input=True)


def fr2dy(q):
    """a dyadic Fraction as the token m:e of harness/common.hpp"""
    q = Fraction(q)
    e = 0
    d = q.denominator
    while d > 1:
        assert d % 2 == 0, "not dyadic"
        d //= 2
        e -= 1
    return "%d:%d" % (q.numerator, e)


def gate_check(ck, exe, model, lps, r, count):
    """the in-tree verification gate against coq/SolveGateModel.v: after a solve (so that a basis exists and the LP may be
    persistently scaled) the stored solution vectors are overwritten with chosen dyadic vectors and getBoundViolation /
    getRowViolation / getDualViolation / getRedCostViolation are called; the extracted model computes the same four
    (max, sum) pairs from the LP, the vectors and the basis statuses the solver reports.  Exact comparison."""
    pick = [k for k, p in enumerate(lps) if p.n >= 1 and p.m >= 1 and p.n + p.m <= 14]
    r.shuffle(pick)
    pick = pick[:count]
    Q8 = [Fraction(i, 4) for i in range(-24, 25)]

    def near(lo, up):
        c = []
        for b in (lo, up):
            if b is not None and b.denominator in (1, 2, 4):
                c += [b, b, b - Fraction(1, 2), b + Fraction(1, 4), b + Fraction(3), b - Fraction(2)]
        return r.choice(c) if c and r.random() < 0.7 else r.choice(Q8)
    txt, cases = "", []
    for k in pick:
        p = lps[k]
        txt += p.text("g%d" % k) + "\n"
        for t in range(2):
            cfg = {"simplifier": r.choice([0, 0, 1]), "scaler": r.choice([0, 2, 2, 3, 5]), "persistentscaling": r.choice([0, 1, 1])}
            x = [near(c[1], c[2]) for c in p.cols]
            y = [r.choice(Q8 + [Fraction(0)] * 20) for _ in range(p.m)]
            d = [r.choice(Q8 + [Fraction(0)] * 20) for _ in range(p.n)]
            txt += "GATE %d %s x=%s y=%s d=%s\n" % (t, lpgen.cfg_text(cfg), ",".join(map(fr2dy, x)), ",".join(map(fr2dy, y)), ",".join(map(fr2dy, d)))
            cases.append((k, t, cfg, x, y, d))
    if not cases:
        return
    rc, out, err = lpgen.run_harness(exe, txt, ck.pid + "-gate")
    B = lpgen.blocks(out)
    q, obs = "", {}
    for k in pick:
        p = lps[k]
        q += p.text("g%d" % k) + "\n"
        for l in B.get("g%d" % k, []):
            if not l.startswith("GATE "):
                continue
            o = lpgen.parse_kv(l)
            obs[(k, int(o["_id"]))] = o
    for (k, t, cfg, x, y, d) in cases:
        o = obs.get((k, t))
        if o is None or "rst" not in o:
            ck.count("gate:no-observation")
            continue
    # queries have to follow their LP block: regroup
    q = ""
    for k in pick:
        q += lps[k].text("g%d" % k) + "\n"
        for (k2, t, cfg, x, y, d) in cases:
            o = obs.get((k2, t))
            if k2 != k or o is None or "rst" not in o:
                continue
            q += "Q g%d gate %s %s %s %s, %s,\n" % (t, vtxt(x), vtxt(y), vtxt(d), o["rst"].strip(",") or "-", o["cst"].strip(",") or "-")
    S = Session(ck, exe, model)
    A = S._ask(q, "gate")
    for (k, t, cfg, x, y, d) in cases:
        o = obs.get((k, t))
        if o is None or "rst" not in o:
            continue
        a = [l.split()[3] for l in A.get("g%d" % k, []) if l.startswith("A g%d gate " % t)]
        if not a:
            ck.count("gate:no-model-answer")
            continue
        mod = [tuple(Fraction(z) for z in pr.split(",")) for pr in a[0].split(";")]
        impl = []
        for key in ("bv", "rv", "dv", "cv"):
            u, v = o[key].split(",")
            impl.append((lpgen.dy2fr(u), lpgen.dy2fr(v)))
        ret = o.get("ret", "")
        ck.count("gate:scaled=%s" % o.get("scaled"))
        ck.evaluated(("gate", lps[k].key(), t, lpgen.cfg_text(cfg)), nontrivial=True)
        names = ["bound", "row", "dual", "redcost"]
        for idx in range(4):
            if idx < len(ret) and ret[idx] == "0":
                ck.count("gate:%s-unavailable" % names[idx])
                continue
            nz = mod[idx][0] != 0
            ck.count("gate:%s:%s" % (names[idx], "violated" if nz else "clean"))
            if impl[idx] != mod[idx]:
                ck.violation("gate-correspondence:%s" % names[idx],
                             "get%sViolation returns (max, sum) = (%s, %s) on injected vectors, coq/SolveGateModel.v gives (%s, %s); statuses rows %s cols %s, under %s" % (
                                 names[idx].capitalize(), impl[idx][0], impl[idx][1], mod[idx][0], mod[idx][1], o["rst"], o["cst"], cfg),
                             {"lp": lps[k].text("replay"), "lp_format": lps[k].lp_format(), "config": cfg, "x": [str(z) for z in x], "y": [str(z) for z in y],
                              "d": [str(z) for z in d], "observed": {a2: b2 for a2, b2 in o.items() if not a2.startswith("_")},
                              "correspondence": "SolveGateModel.%s_violation vs SoPlexBase::get%sViolation" % (names[idx], names[idx].capitalize())},
                             no_input=True)


def driver_only(ck, exe, model, lps, cfgs):
    """solves whose control trace is replayed through the driver model but whose answers are NOT judged here (LP families
    whose answers belong to another property's check, e.g. the presolve-rich LPs of C08: they reach the driver paths that
    ordinary LPs do not - presolve verdicts, VANISHED, failed verification and the re-solve without preprocessing)"""
    S = Session(ck, exe, model)
    runs, rc, crashed = S.run(lps, cfgs)
    ans = S.judge_queries(lps, runs)
    for k in range(len(lps)):
        for ru in runs[k]:
            t = ru.get("drv", "")
            for code, nm in (("41", "verification-failed"), ("23", "vanished"), ("21", "ensureray-resolve"), ("25", "resolve-without-preprocessing"),
                             ("32", "unsimplify-threw"), ("26", "singular-retry"), ("27", "cycling-store"), ("43", "objlimit-toggled")):
                if (";" + t).find(";%s," % code) >= 0:
                    ck.count("driver-path:" + nm)
    driver_verdicts(ck, lps, cfgs, runs, {}, ans, set())


def run_in_chunks(ck, exe, model, lps, cfgs, chunk=60, workers=8, hists=None):
    """classify + run + judge in parallel chunks; returns per-LP dicts keyed by the global LP index.
    A chunk whose checker run failed is dropped from judgement (reported once as checker-crash)."""
    import concurrent.futures as cf
    idx = list(range(len(lps)))
    parts = [idx[a:a + chunk] for a in range(0, len(idx), chunk)]

    def work(part):
        S = Session(ck, exe, model)
        sub = [lps[k] for k in part]
        subcfg = {j: cfgs[k] for j, k in enumerate(part)}
        classes, exs = S.classify(sub)
        runs, rc, crashed = S.run(sub, subcfg, {j: hists[k] for j, k in enumerate(part)} if hists else None)
        ans = S.judge_queries(sub, runs)
        return part, classes, exs, runs, rc, crashed, ans, S.checker_failed, S.hruns

    classes, exs, runs, ans, crashes, skipped = {}, {}, {}, {}, [], set()
    ck.hruns = {}
    with cf.ThreadPoolExecutor(max_workers=workers) as ex:
        for part, c, e, r, rc, crashed, a, failed, hr in ex.map(work, parts):
            for j, k in enumerate(part):
                classes[k], exs[k], runs[k], ans[k] = c[j], e[j], r[j], a[j]
                ck.hruns[k] = hr.get(j, [])
                if failed:
                    skipped.add(k)
            if crashed is not None:
                crashes.append((part[crashed[0]], crashed[1], rc))
    return classes, exs, runs, ans, crashes, skipped
