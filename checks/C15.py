#!/usr/bin/env python3
"""C15 - parameters.  prove (Properties_C15 over the regenerated table) + correspondence of the extracted
model with the implementation on operation histories."""
import math
import os
import struct
import sys

sys.path.insert(0, os.path.dirname(os.path.dirname(os.path.abspath(__file__))))
import vlib
from translator import gen_params

INT_MIN, INT_MAX = -2**31, 2**31 - 1


def dy(x):
    if x != x:
        return "nan"
    if math.isinf(x):
        return "inf" if x > 0 else "-inf"
    m, e = vlib.dyadic(x)
    return "%d:%d" % (m, e)


def undy(t):
    if t == "nan":
        return float("nan")
    if t == "inf":
        return float("inf")
    if t == "-inf":
        return float("-inf")
    m, e = t.split(":")
    return math.ldexp(int(m), int(e))


def hexs(s):
    return s.encode("latin-1").hex()


def parse_table(txt):
    B, I, R = [], [], []
    for line in txt.splitlines():
        t = line.split()
        if not t:
            continue
        if t[0] == "B":
            B.append({"name": t[2], "def": t[3] == "1", "settable": t[4] == "1"})
        elif t[0] == "I":
            I.append({"name": t[2], "def": int(t[3]), "lo": int(t[4]), "up": int(t[5]), "acc": [int(x) for x in t[7:]]})
        elif t[0] == "R":
            R.append({"name": t[2], "def": undy(t[3]), "lo": undy(t[4]), "up": undy(t[5]), "settable": t[6] == "1"})
    return B, I, R


def nextafter(x, d):
    return math.nextafter(x, d)


class Gen:
    def __init__(self, rng, B, I, R):
        self.r, self.B, self.I, self.R = rng, B, I, R

    def int_value(self, i):
        p = self.I[i]
        r = self.r
        k = r.randrange(10)
        if k == 0:
            return p["lo"] - 1 if p["lo"] > INT_MIN else p["lo"]
        if k == 1:
            return p["up"] + 1 if p["up"] < INT_MAX else p["up"]
        if k == 2:
            return p["lo"]
        if k == 3:
            return p["up"]
        if k == 4:
            return r.choice([INT_MIN, INT_MAX, 0, -1, 1])
        if k == 5:
            return p["def"]
        if k <= 7 and p["acc"]:
            return r.choice(p["acc"])
        if p["up"] - p["lo"] <= 16:
            return r.randint(p["lo"] - 2, p["up"] + 2)
        return r.randint(p["lo"], p["up"])

    def real_value(self, i):
        p = self.R[i]
        r = self.r
        k = r.randrange(12)
        lo, up = p["lo"], p["up"]
        if k == 0:
            return nextafter(lo, -math.inf)
        if k == 1:
            return nextafter(up, math.inf)
        if k == 2:
            return lo
        if k == 3:
            return up
        if k == 4:
            return float("nan")
        if k == 5:
            return r.choice([math.inf, -math.inf])
        if k == 6:
            return p["def"]
        if k == 7:
            return r.choice([0.0, -1.0, 1.0, 1e-9, 1e100, -1e100, 1e101, 5e-324])
        # something inside
        if up >= 1e100:
            v = lo + abs(lo + 1.0) * 10 ** r.uniform(-3, 6) if lo > -1e99 else r.uniform(-1e6, 1e6)
        else:
            v = lo + (up - lo) * r.random()
        return v

    def bool_token(self):
        return self.r.choice(["true", "false", "TRUE", "False", "T", "t", "f", "F", "1", "0", "2", "3", "10", "01", "+1", "-1",
                              "1x", "t1", "tr", "truex", "falsey", "yes", "no", "banana", "4", "5", "-0", "\x0b1"])

    def int_token(self, i):
        k = self.r.randrange(8)
        if k == 0:
            return self.r.choice(["abc", "-", "+", "x12", ".5", "--3"])
        if k == 1:
            return self.r.choice(["99999999999", "-99999999999", "2147483648", "-2147483649", "9223372036854775808", "99999999999999999999999"])
        v = self.int_value(i)
        if k == 2:
            return "%d%s" % (v, self.r.choice(["abc", ".9", "e3", "x"]))
        if k == 3:
            return "+%d" % v if v >= 0 else "%d" % v
        if k == 4:
            return "%s%d" % (self.r.choice(["0", "00", "\x0b", "\x0c"]), v) if v >= 0 else "%d" % v
        return "%d" % v

    def real_token(self, i):
        """returns (token, stod-result token or '-')"""
        k = self.r.randrange(8)
        if k == 0:
            t = self.r.choice(["abc", "-", "+", "e5", ".", "--1"])
            return t, "-"
        if k == 1:
            t = self.r.choice(["1e999", "-1e999", "1e-999"])
            return t, "-"          # std::stod throws std::out_of_range
        if k == 2:
            t = self.r.choice(["nan", "inf", "-inf", "infinity", "NAN", "-nan"])
            v = {"nan": "nan", "NAN": "nan", "-nan": "nan", "inf": "inf", "infinity": "inf", "-inf": "-inf"}[t]
            return t, v
        v = self.real_value(i)
        if v != v or math.isinf(v):
            v = self.R[i]["def"]
        t = repr(v)
        if v != 0 and abs(v) < 2.2250738585072014e-308:
            return t, "-"          # std::stod throws std::out_of_range for subnormal results (glibc sets ERANGE)
        if k == 3:
            return t + self.r.choice(["abc", "x", "e", "e+"]), dy(v)
        return t, dy(v)

    def line(self):
        """a settings line with the oracle for std::stod; returns (text, sd)"""
        r = self.r
        kind = r.randrange(10)
        sd = "-"
        if kind <= 2:
            i = r.randrange(len(self.B))
            ty, name, val = "bool", self.B[i]["name"], self.bool_token()
        elif kind <= 5:
            i = r.randrange(len(self.I))
            ty, name, val = "int", self.I[i]["name"], self.int_token(i)
        elif kind <= 7:
            i = r.randrange(len(self.R))
            ty, name = "real", self.R[i]["name"]
            val, sd = self.real_token(i)
        elif kind == 8:
            ty, name = "uint", r.choice(["random_seed", "random_seedling", "seed", "random_see"])
            val = r.choice(["0", "1", "42", "4294967295", "4294967296", "18446744073709551615", "18446744073709551616",
                            "-1", "-0", "abc", "+7", "12x", "99999999999999999999999999"])
        else:
            ty = r.choice(["bool", "int", "real", "uint", "boolean", "integer", "realistic", "rational", "foo", "in", "BOOL"])
            name = r.choice([self.B[0]["name"], self.I[5]["name"], self.R[0]["name"], "nosuch", "random_seed", self.I[5]["name"] + "x",
                             self.I[5]["name"][:-1]])
            val = r.choice(["1", "true", "0.5", "x"])
            if val == "0.5":
                sd = dy(0.5)
            elif val == "1":
                sd = dy(1.0)
        # layout variants
        f = r.randrange(14)
        ws = lambda: r.choice(["", " ", "  ", "\t", " \t", "\r"])
        if f <= 5:
            s = "%s:%s = %s" % (ty, name, val)
        elif f == 6:
            s = "%s%s%s:%s%s%s=%s%s%s%s" % (ws(), ty, ws(), ws(), name, ws(), ws(), val, ws(), r.choice(["", "# c", "#", " # x y", "\n"]))
        elif f == 7:
            s = "%s:%s = %s#comment" % (ty, name, val)
        elif f == 8:
            s = r.choice(["", "   ", "# only a comment", "\t#x", "\n", ty, ty + ":", ty + ":" + name, ty + ":" + name + " =",
                          ty + " " + name + " = " + val, ty + ":" + name + " " + val, ty + " : " + name, ty + ":" + name + "=" + val + " junk",
                          ty + "#:" + name + "=" + val, ty + ":" + name + "#=" + val, ":" + name + "=" + val, ty + ":=" + val,
                          ty + ":" + name + " = " + val + " " + "#ok", ty + ": " + name + "= " + val + "\ttrailing"])
        elif f == 9:
            s = "%s:%s = %s" % (ty, name, val) + " " * r.randrange(1, 4) + r.choice(["", "#"])
        elif f == 10:
            s = "%s :%s=%s" % (ty, name, val)
        elif f == 11:
            s = "%s: %s =%s\r" % (ty, name, val)
        elif f == 12:
            s = "%s\t:\t%s\t=\t%s\t" % (ty, name, val)
        else:
            s = "%s:%s = %s" % (ty, name, val)
        if "\x00" in s:
            s = s.replace("\x00", "")
        return s, sd

    def history(self, n):
        r = self.r
        ops = []
        vidx = [k for k, p in enumerate(self.I) if p["name"] == "verbosity"][0]
        for _ in range(n):
            k = r.randrange(100)
            if k < 12:
                i = r.randrange(len(self.B))
                ops.append("B %d %d" % (i, r.randrange(2)))
            elif k < 37:
                i = r.randrange(len(self.I))
                ops.append("I %d %d" % (i, self.int_value(i)))
            elif k < 60:
                i = r.randrange(len(self.R))
                ops.append("R %d %s" % (i, dy(self.real_value(i))))
            elif k < 63:
                ops.append("S %d" % r.choice([0, 1, 42, 2**32 - 1, r.randrange(2**32)]))
            elif k < 85:
                s, sd = self.line()
                if len(s) < 400 and "\n" not in s[:-1] and s != "":
                    ops.append("P %s %s" % (hexs(s), sd))
            elif k < 89:
                parts = []
                for _ in range(r.randrange(1, 5)):
                    s, sd = self.line()
                    if s != "" and "\n" not in s and "\r" not in s and len(s) < 400:
                        parts += [hexs(s), sd]
                if parts:
                    # the same lines as a file whose lines end in "\n", whose LAST line has no line terminator (LN), or whose lines
                    # end in "\r\n" (the carriage return is then part of the line the parser sees)
                    v = r.random()
                    if v < 0.25:
                        ops.append("LN " + " ".join(parts))
                    elif v < 0.4:
                        ops.append("L " + " ".join((x + "0d") if k2 % 2 == 0 else x for k2, x in enumerate(parts)))
                    else:
                        ops.append("L " + " ".join(parts))
            elif k < 92:
                ops.append("X")
            elif k < 96:
                parts = []
                for _ in range(r.randrange(0, 4)):
                    c = r.randrange(3)
                    if c == 0:
                        parts += ["B", str(r.randrange(len(self.B))), str(r.randrange(2))]
                    elif c == 1:
                        i = r.randrange(len(self.I))
                        parts += ["I", str(i), str(self.int_value(i))]
                    else:
                        i = r.randrange(len(self.R))
                        parts += ["R", str(i), dy(self.real_value(i))]
                ops.append("C " + " ".join(parts))
            else:
                ops.append("V %d" % r.randrange(2))
        return ops


def systematic(B, I, R):
    """aimed at the case splits of the setters: from every accepted value of an int parameter try every value of the
    probe window (and one beyond each end); every real at/over its bounds, NaN and infinities; every bool both ways;
    the same through settings lines."""
    cases = []
    si = [k for k, p in enumerate(I) if p["name"] == "syncmode"]
    for i, p in enumerate(I):
        ops = []
        hi = min(p["up"], p["lo"] + 16)
        cand = list(range(p["lo"] - 1 if p["lo"] > INT_MIN else p["lo"], hi + 2 if hi < INT_MAX else hi + 1))
        for a in p["acc"]:
            for v in cand:
                if v != a:
                    ops.append("I %d %d" % (i, a))
                    ops.append("I %d %d" % (i, v))
        cases.append({"lp": 1, "ops": ops})
        ops = []
        for a in p["acc"][:4]:
            for v in cand:
                ops.append("P %s -" % hexs("int:%s = %d" % (p["name"], a)))
                ops.append("P %s -" % hexs("int:%s = %d" % (p["name"], v)))
        cases.append({"lp": 0, "ops": ops})
    for i, p in enumerate(R):
        ops = []
        vals = [p["lo"], p["up"], nextafter(p["lo"], -math.inf), nextafter(p["up"], math.inf), float("nan"), math.inf, -math.inf,
                p["def"], p["lo"] / 2 + p["up"] / 2, 0.0, -1.0]
        for a in [p["lo"], p["up"], p["def"]]:
            for v in vals:
                ops.append("R %d %s" % (i, dy(a)))
                ops.append("R %d %s" % (i, dy(v)))
        cases.append({"lp": 1, "ops": ops})
    ops = []
    for i, p in enumerate(B):
        ops += ["B %d 1" % i, "B %d 0" % i, "B %d 0" % i, "B %d 1" % i]
        for tok in ["true", "false", "2", "banana"]:
            ops.append("P %s -" % hexs("bool:%s = %s" % (p["name"], tok)))
    cases.append({"lp": 1, "ops": ops})
    # the recorded finding: a subnormal value does not survive save/load
    ei = [k for k, p in enumerate(R) if p["name"] == "epsilon_zero"]
    if ei:
        cases.append({"lp": 0, "ops": ["R %d 1:-1074" % ei[0], "V 1"]})
    # the rational LP under every sequence of synchronisation-mode switches (typed setter, settings line, copy-settings)
    if si:
        k = si[0]
        for s0 in (0, 1, 2):
            for a in (0, 1, 2):
                for b in (0, 1, 2):
                    cases.append({"lp": 0, "ops": ["I %d %d" % (k, s0), "LOADLP", "I %d %d" % (k, a), "R 0 %s" % dy(1e-7), "I %d %d" % (k, b),
                                                   "P %s -" % hexs("int:syncmode = %d" % a), "B 3 0", "X"]})
                    cases.append({"lp": 0, "ops": ["I %d %d" % (k, s0), "LOADLP", "P %s -" % hexs("int:syncmode = %d" % a), "C I %d %d" % (k, b),
                                                   "I %d %d" % (k, a), "V 1"]})
    # settings files: every line is parsed on its own.  A line that stops right after the parameter name (no '=') is
    # rejected whatever an earlier, longer line left behind it in the reader's line buffer; the same for a line that
    # stops after the type, after the ':' and after the '='.  The earlier line is laid out so that its tail, read on
    # from the terminator of the short line, would be a complete "= value".
    def leftovers(prefix, tail):
        # a comment line with `tail` starting one byte behind the end of `prefix`, and the same as an assignment
        pad = "#" + "x" * (len(prefix) - 1)
        return [pad + " " + tail, pad + "\t" + tail, "#" + " " * (len(prefix)) + tail]
    ops = []
    for ty, plist, vals in (("int", I, None), ("bool", B, ["true", "false"]), ("real", R, None)):
        for i, p in enumerate(plist):
            if ty == "int":
                vs = [str(a) for a in p["acc"] if a != p["def"]][:2]
            elif ty == "real":
                vs = ["%r" % v for v in (p["lo"], p["up"], p["lo"] / 2 + p["up"] / 2) if v != p["def"] and abs(v) < 1e300][:2]
            else:
                vs = ["false" if p["def"] else "true"]
            for v in vs:
                for prefix, tail in ((ty + ":" + p["name"], "= " + v), (ty + ":" + p["name"] + " =", v), (ty + ":" + p["name"] + "=", " " + v),
                                     (ty, ":" + p["name"] + " = " + v), (ty + ":", p["name"] + " = " + v)):
                    for first in leftovers(prefix, tail)[: (3 if i % 4 == 0 else 1)]:
                        ops.append("L %s - %s -" % (hexs(first), hexs(prefix)))
                # the other way round in one file: the complete line first, then the truncated one of another parameter
                q = plist[(i + 1) % len(plist)]
                if len(q["name"]) == len(p["name"]) and q["name"] != p["name"]:
                    ops.append("L %s %s %s -" % (hexs("%s:%s = %s" % (ty, p["name"], v)), dy(float(v)) if ty == "real" else "-",
                                                 hexs("%s:%s" % (ty, q["name"]))))
            if len(ops) > 120:
                cases.append({"lp": 0, "ops": ops + ["V 1"]})
                ops = []
    ops.append("L %s - %s -" % (hexs("#2345678901234567= 77"), hexs("uint:random_seed")))
    ops.append("L %s - %s -" % (hexs("uint:random_seed = 5"), hexs("uint:random_seed")))
    cases.append({"lp": 0, "ops": ops + ["V 1"]})
    # copy-settings across sync modes and back
    if si:
        for a in (0, 1, 2):
            for b in (0, 1, 2):
                cases.append({"lp": 1, "ops": ["I %d %d" % (si[0], a), "C I %d %d" % (si[0], b), "R 6 %s" % dy(1e50), "X", "V 1"]})
    return cases


def state_of(line):
    t = line.split(" ", 2)
    if t[0] == "init":
        return line.split(" ", 1)[1]
    return t[2] if len(t) > 2 else ""


def strip_sd(op):
    """the harness does not get the std::stod oracle"""
    t = op.split()
    if t[0] == "P":
        return "P " + t[1]
    if t[0] in ("L", "LN"):
        return t[0] + " " + " ".join(t[1::2])
    return op


HARNESSES = ["C15"]
MODEL = True


def regenerate():
    exe = vlib.build_harness("C15")
    rc, table, err = vlib.sh([exe, "table"], timeout=300)
    gen_params.generate(table, os.path.join(vlib.COQ, "gen", "Gen_Params.v"))


def main():
    ck = vlib.Check("C15", "proof")
    exe = vlib.build_harness("C15")
    rc, table, err = vlib.sh([exe, "table"], timeout=300)
    if rc != 0:
        ck.violation("table-dump", "parameter table dump failed: rc=%d %s" % (rc, err[-500:]), {"kind": "harness"}, no_input=True)
        ck.finish()
    info = gen_params.generate(table, os.path.join(vlib.COQ, "gen", "Gen_Params.v"))
    proved = ck.prove()
    if not ck.args.replay:
        # what is set is what is used - across a solve: scaler / simplifier / pricer objects after a from-scratch optimize()
        rc_a, out_a, err_a = vlib.sh([exe, "aftersolve"], timeout=600)
        na = 0
        for l in out_a.splitlines():
            if not l.startswith("AFTERSOLVE "):
                continue
            d = {w.split("=")[0]: w.split("=")[1] for w in l.split()[1:] if "=" in w}
            na += 1
            ck.evaluated(("aftersolve", d["scaler"], d["persistent"], d["simplifier"], d["pricer"]), nontrivial=True)
            rp = {"kind": "aftersolve", "line": l, "replay_note": "harness/C15.cpp afterSolve(): run `C15 aftersolve`"}
            if d["after"] not in ("0", d["scaler"]) or d["before"] != d["scaler"] or d["param"] != d["scaler"]:
                ck.violation("used-differs-from-set:scaler-after-solve",
                             "int:scaler = %s (persistentscaling=%s simplifier=%s): after setIntParam the scaler object is %s, after optimize() it is %s (%s)" % (
                                 d["scaler"], d["persistent"], d["simplifier"], d["before"], d["after"], bytes.fromhex(d.get("name", "")).decode(errors="replace")), rp)
            if d["simp_after"] not in ("0", d["simplifier"]):
                ck.violation("used-differs-from-set:simplifier-after-solve", "int:simplifier = %s but the simplifier object after optimize() is %s" % (d["simplifier"], d["simp_after"]), rp)
            if d["pricer_after"] != d["pricer"]:
                ck.violation("used-differs-from-set:pricer-after-solve", "int:pricer = %s but the pricer object after optimize() is %s" % (d["pricer"], d["pricer_after"]), rp)
        if na < 56 or rc_a != 0:
            ck.violation("aftersolve-incomplete", "the after-solve probe answered %d of 56 configurations (rc=%d): %s" % (na, rc_a, err_a[-200:]), {"kind": "crash"}, no_input=True)
        ck.cov["after_solve_selections_checked"] = na

    B, I, R = parse_table(table)
    ck.cov["table"] = {"bool": len(B), "int": len(I), "real": len(R)}
    try:
        model = vlib.build_model("C15")
    except vlib.BuildError as e:
        ck.violation("model-build", "extracted model does not build: %s" % str(e)[-800:], {"kind": "extraction"}, no_input=True)
        ck.finish()

    if ck.args.replay:
        import json
        rp = json.load(open(ck.args.replay))
        cases = [rp["case"]] if "case" in rp else []
    else:
        ncases, nops = (400, 25) if ck.tier == "quick" else (8000, 40)
        g = Gen(ck.rng, B, I, R)
        cases = []
        # corpus first
        cdir = os.path.join(vlib.ROOT, "corpus", "C15")
        if os.path.isdir(cdir):
            for f in sorted(os.listdir(cdir)):
                cases.append({"lp": 1, "ops": [l.rstrip("\n") for l in open(os.path.join(cdir, f)) if l.strip()]})
        cases += systematic(B, I, R)
        sidx = [k for k, p in enumerate(I) if p["name"] == "syncmode"]
        for c in range(ncases):
            if sidx and ck.rng.random() < 0.4:
                ops = ["I %d %d" % (sidx[0], ck.rng.randrange(3)), "LOADLP"] + g.history(ck.rng.randrange(3, nops))
                cases.append({"lp": 0, "ops": ops})
            else:
                cases.append({"lp": ck.rng.randrange(2), "ops": g.history(ck.rng.randrange(3, nops))})

    os.makedirs(os.path.join(vlib.BUILD, "run"), exist_ok=True)
    hf = os.path.join(vlib.BUILD, "run", "C15.%d.h.cases" % os.getpid())
    mf = os.path.join(vlib.BUILD, "run", "C15.%d.m.cases" % os.getpid())
    with open(hf, "w") as fh, open(mf, "w") as fm:
        for k, c in enumerate(cases):
            fh.write("CASE %d %d\n" % (k, c["lp"]))
            fm.write("CASE %d %d\n" % (k, c["lp"]))
            for op in c["ops"]:
                fh.write(strip_sd(op) + "\n")
                fm.write(op + "\n")
    rc1, hout, herr = vlib.sh([exe, "run", hf], timeout=3000)
    rc2, mout, merr = vlib.sh([model, mf], timeout=3000)
    if not os.environ.get("VERIF_KEEP"):
        os.remove(hf)
        os.remove(mf)
    if rc1 != 0:
        # locate the operation that killed the process: the first one without an observation line
        nb = hout.count("\nCASE ") + (1 if hout.startswith("CASE ") else 0)
        last = hout.rsplit("CASE ", 1)[-1].splitlines() if nb else []
        k = nb - 1
        j = len(last) - 2          # observations printed after "CASE id" and "init"
        c = cases[k] if 0 <= k < len(cases) else {"lp": 0, "ops": []}
        op = c["ops"][j] if 0 <= j < len(c["ops"]) else "?"
        ck.violation("crash:" + op.split()[0], "the implementation crashed (rc=%d) in operation %r of case %d" % (rc1, op[:100], k),
                     {"kind": "crash", "case": {"lp": c["lp"], "ops": c["ops"][:j + 1]}, "stderr": herr[-2000:]})
    if rc2 != 0:
        ck.violation("model-crash", "model runner failed rc=%d: %s" % (rc2, merr[-400:]), {"kind": "model"}, no_input=True)

    def blocks(out):
        res, cur = [], None
        for l in out.splitlines():
            if l.startswith("CASE "):
                cur = []
                res.append(cur)
            elif cur is not None:
                cur.append(l)
        return res

    hb, mb = blocks(hout), blocks(mout)
    for k, c in enumerate(cases):
        if k >= len(hb) or k >= len(mb):
            break
        hl, ml = hb[k], mb[k]
        ops = ["init"] + c["ops"]
        for j, op in enumerate(ops):
            if j >= len(hl) or j >= len(ml):
                if j >= len(hl) and rc1 == 0:
                    ck.violation("short-output", "harness produced fewer observations than operations", {"case": c})
                break
            kind = op.split()[0]
            ck.count("op:" + kind)
            ck.evaluated((op,), nontrivial=(kind != "init"))
            h, m = hl[j], ml[j]
            if kind == "V":
                ret = h.split()[1]
                if ret != "ret=1":
                    sig = "save-load"
                    for part in ret.split(";")[1:]:
                        if part.startswith("r") and "(" in part:
                            want = undy(part[part.index("/") + 1:-1])
                            if want != 0 and abs(want) < 2.2250738585072014e-308:
                                sig = "save-load-subnormal-real"
                            else:
                                sig = "save-load-real"
                                break
                        else:
                            sig = "save-load:" + part[:1]
                            break
                    ck.violation(sig, "save/load round trip differs: %s after %s" % (ret, c["ops"][:j]),
                                 {"case": {"lp": c["lp"], "ops": c["ops"][:j]}, "observed": h})
                prev = state_of(ml[j - 1])
                hs = state_of(h)
                if " rat=-1" in prev or prev.endswith("rat=-1"):
                    hs_cmp = " ".join(w for w in hs.split(" ") if not w.startswith("rat="))
                    prev_cmp = " ".join(w for w in prev.split(" ") if not w.startswith("rat="))
                else:
                    hs_cmp, prev_cmp = hs, prev
                if hs_cmp != prev_cmp:
                    ck.violation("save-changes-state", "saveSettingsFile changed the object", {"case": c, "observed": h, "expected": prev})
                ml[j] = "V ret=1 " + prev
                continue
            if "ret=EXC" in h or "ret=SIGFPE" in h:
                ck.count("impl:" + h.split()[1])
            if " rat=-1" in m or m.endswith("rat=-1"):
                # the model does not predict the rational LP after a copy-settings that changed the synchronisation mode
                h = " ".join(w for w in h.split(" ") if not w.startswith("rat="))
                m = " ".join(w for w in m.split(" ") if not w.startswith("rat="))
            if h != m:
                # first differing field
                hf_, mf_ = h.split(), m.split()
                diff = [a.split("=")[0] for a, b in zip(hf_, mf_) if a != b][:3]
                sig = "mismatch:%s:%s" % (kind, ",".join(diff))
                # shrink: keep only ops up to j
                ck.violation(sig, "implementation and model disagree after op %d (%s): fields %s\n impl : %s\n model: %s" % (j, op[:80], diff, h, m),
                             {"case": {"lp": c["lp"], "ops": c["ops"][:j]}, "implementation": h, "model": m,
                              "correspondence": "ParamsModel.step vs SoPlexBase<double> parameter interface"})
                break
        if k < 3:
            ck.sample({"lp": c["lp"], "ops": c["ops"][:8]})
    ck.cov["rule"] = ("histories of B/I/R/S/P/L/X/C/V operations drawn from one PRNG (values at and beyond every boundary, NaN, +-inf, "
                      "INT_MIN/MAX; settings lines in canonical and perturbed layouts); a case is an (operation text) and is non-trivial "
                      "when it is not the initial observation; distinct = distinct operation texts")
    ck.cov["trusted_base"] = ["Coq 8.16.1 kernel (coqc), no native_compute; vm_compute for the finite table obligation",
                              "axioms: none (Print Assumptions: closed under the global context)" if not ck.coq["axioms"] else "axioms: " + ", ".join(ck.coq["axioms"]),
                              "extraction: ExtrOcamlBasic only; OCaml 4.13.1; extract/zutil.ml + extract/C15/driver.ml (zarith for I/O only)",
                              "translator/gen_params.py (table dump of the compiled code + enumerator scrape of soplex.h)",
                              "harness/C15.cpp compiled with g++ -fno-access-control against /repo/src",
                              "std::stod is an oracle of the model: its result is supplied by the generator (Python float == glibc strtod on the generated literals)"]
    ck.assumptions = ["the observable components (simplifier, scaler, starter, pricer, ratio tester, LU update type, max updates, polishing, LP sense, "
                      "8 tolerances, Markowitz threshold, LP offset) are read through -fno-access-control; other side effects of setters (display "
                      "frequency, timers, statistics) are not observed",
                      "real parameters are compared after save/load to relative 1e-7 (the writer prints 8 significant digits)"]
    ck.finish()


if __name__ == "__main__":
    main()
