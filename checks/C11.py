#!/usr/bin/env python3
"""C11 - the rational LU factorization is exact.
prove (Properties_C11 over coq/LUModel.v, shared with C10) + exact validation by the extracted checkers of every
solve / verdict of SLUFactorRational driven stand-alone, and of the rational basis-inverse queries of SoPlex after
exact solves against the basis matrix assembled (by the extracted basis_matrix) from the rational LP."""
import json
import os
import sys

sys.path.insert(0, os.path.dirname(os.path.abspath(__file__)))
sys.path.insert(0, os.path.dirname(os.path.dirname(os.path.abspath(__file__))))
import vlib
import lu_common as lu

HARNESSES = ["C10"]
MODEL = True
FAMILIES = ["random", "triangular", "singleton", "bump", "permident", "dense"]


def main():
    ck = vlib.Check("C11", "proof")
    ck.prove()
    try:
        exe = vlib.build_harness("C10")
    except vlib.BuildError as e:
        ck.violation("harness-build", "harness does not build against the current tree: %s" % str(e)[-800:], {"kind": "build"}, no_input=True)
        ck.finish()
    try:
        model = vlib.build_model("C11")
    except vlib.BuildError as e:
        ck.violation("model-build", "extracted checker does not build: %s" % str(e)[-800:], {"kind": "extraction"}, no_input=True)
        ck.finish()

    cases = []
    if ck.args.replay:
        rp = json.load(open(ck.args.replay))
        if "case" in rp:
            cases.append(rp["case"])
    else:
        cdir = os.path.join(vlib.ROOT, "corpus", "C11")
        if os.path.isdir(cdir):
            for f in sorted(os.listdir(cdir)):
                if f.endswith(".json"):
                    cases.append(json.load(open(os.path.join(cdir, f))))
        if ck.tier == "quick":
            nreg, nupd, nround, nsing, nlp, nmax, nops, mmax = 160, 60, 80, 80, 150, 16, 8, 8
        else:
            nreg, nupd, nround, nsing, nlp, nmax, nops, mmax = 500, 200, 300, 300, 600, 40, 12, 12
        for k in range(nreg):
            u = ck.rng.random()
            if ck.tier == "quick":
                nm = nmax if u < 0.4 else max(3, nmax // 2)
            else:
                nm = nmax if u < 0.1 else (24 if u < 0.3 else 12)
            cases.append(lu.plan_case(ck.rng, "R", nm, nops, FAMILIES, allow_updates=False, stats=ck.hist))
        for k in range(nupd):
            c = lu.plan_case(ck.rng, "R", max(3, nmax // 2), nops, FAMILIES, allow_updates=True, stats=ck.hist)
            c["family"] += "+updates"
            c["probe"] = "rational-update"
            cases.append(c)
        for k in range(nround):
            cases.append(lu.plan_rounding_case(ck.rng, max(3, nmax // 2)))
        for k in range(nsing):
            cases.append(lu.plan_singular(ck.rng, "R", max(3, nmax // 2), FAMILIES))
        for k in range(nlp):
            cases.append(lu.plan_lp(ck.rng, mmax, mmax + 3))

    lu.HARNESS_TIMEOUT = 90 if ck.tier == "quick" else 900
    blocks, crashes = lu.run_all(exe, cases, "C11")
    for (last, nobs, rc, err) in crashes:
        c = cases[last]
        if c["kind"] == "LP":
            opn = "basis-inverse-queries"
        else:
            opn = c["ops"][nobs][0] + (c["ops"][nobs][2] if c["ops"][nobs][0] == "CHG" else "") if nobs < len(c["ops"]) else "end"
        note = ""
        if c["kind"] == "R" and not opn.startswith("SL") and nobs <= len(c["ops"]):
            # glibc reports heap corruption at the next free, which may be several operations after the write.  Attribute
            # the crash to the hyper-sparse left solve (known defect: its index arrays overflow on exact cancellation) only
            # if the same history runs to the end without the hyper-sparse left solves, in a process of its own.
            sparse = [o[0] for o in c["ops"][:nobs] if o[0] in ("SLS", "SL2", "SL3")]
            if sparse:
                c2 = dict(c)
                c2["ops"] = [(["SL"] + o[1:2]) if o[0] == "SLS" else o for o in c["ops"] if o[0] not in ("SL2", "SL3")]
                rc2_, out2_, err2_ = lu.run_harness(exe, lu.case_text("x", c2), "C11x")
                if rc2_ == 0:
                    note = (" - heap corruption written by the earlier hyper-sparse left solve %s and detected at %s: the same history "
                            "with dense left solves runs to the end" % (sparse[-1], opn))
                    opn = sparse[-1]
        sig = "crash:%s:%s" % (c["kind"], opn)
        if c.get("probe"):
            sig = c["probe"] + ":" + sig
        ck.violation(sig, "the implementation crashed or did not terminate (rc=%d; 124 = timeout) in case %d (%s) after %d observations, in operation %s%s" % (rc, last, c["family"], nobs, opn, note),
                     {"kind": "crash", "case": c, "stderr": err})
    Q = lu.Queries()
    pending = []
    ns = 0
    for k, c in enumerate(cases):
        if str(k) not in blocks:
            continue
        if c["kind"] == "LP":
            lu.walk_lp(ck, str(k), c, blocks[str(k)], Q, pending)
        else:
            lu.walk_case(ck, str(k), c, blocks[str(k)], Q, pending)
        if ns < 4 and k % 37 == 0:
            ns += 1
            ck.sample({"kind": c["kind"], "family": c["family"], "n": c.get("n"), "ops": [o[0] for o in c["ops"]][:10]})
    rc2, res, merr = lu.run_model(model, Q, "C11")
    if rc2 != 0:
        ck.violation("checker-crash", "the extracted checker failed rc=%d: %s" % (rc2, merr[-400:]), {"kind": "model"}, no_input=True)
    lu.decide(ck, Q, res, pending, "rational LU")
    ck.cov["checker_queries"] = len(Q.meta)
    ck.cov["rule"] = ("one evaluation = one rational solve / multi-solve / update, or one basis-inverse row / column / solve of SoPlex, compared "
                      "exactly (==) by the extracted checker with the specification state; families: random sparse, dense, triangular, "
                      "singleton-rich, dense bump, permuted identity with entries from tiny integers (frequent exact cancellation) and small fractions to 200-bit "
                      "numerators/denominators; "
                      "matrices that are regular although their rounding to doubles is singular and vice versa; exactly singular matrices; "
                      "small feasible bounded rational LPs solved in SOLVEMODE_RATIONAL, queried before and after changeElementRational; "
                      "distinct = distinct (case, operation) pairs")
    ck.cov["trusted_base"] = ["Coq 8.16.1 kernel (coqc), no native_compute; vm_compute only in Examples",
                              "axioms: none (Print Assumptions: closed under the global context)" if not ck.coq["axioms"] else "axioms: " + ", ".join(ck.coq["axioms"]),
                              "extraction: ExtrOcamlBasic only; OCaml 4.13.1; extract/zutil.ml + extract/C11/driver.ml (zarith for I/O only)",
                              "harness/C10.cpp (shared with C10) compiled with g++ -fno-access-control against /repo/src",
                              "checks/lu_common.py: generators, bookkeeping, scaling of each factor-level query by common positive factors to integers; "
                              "its exact reference elimination is NOT trusted: every inverse / kernel vector is validated by the extracted "
                              "regular_cert_scaled / singular_cert"]
    ck.assumptions = ["The exact elimination of CLUFactorRational is a witness producer, not modelled; every answer on the generated cases is validated "
                      "with exact comparison by the proved checker.",
                      "'singular exactly when the determinant is zero' is decided per generated matrix: the reference produces an inverse or a kernel "
                      "vector, the extracted checker validates it, and the verdict of the implementation must match; that every matrix has one of "
                      "the two certificates is not proved in Coq (C11_singular_verdict_exclusive_partial).",
                      "SLUFactorRational::change / solve...4update are exercised too (family '+updates') although SoPlex itself only loads and solves "
                      "with the rational factorization."]
    ck.finish()


if __name__ == "__main__":
    main()
