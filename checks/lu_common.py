"""Shared machinery of the C10 / C11 checks: exact (untrusted) reference linear algebra over fractions, generators of
matrices and operation histories, harness case files, checker query files, and the decision.

Roles (DESIGN.md section 2): the reference elimination below is NOT trusted - every inverse / kernel vector it
produces is validated by the extracted, proved checkers (regular_cert_scaled / singular_cert of coq/LUModel.v), and
every solve of the implementation is decided by the extracted checkers (check_residual_* for doubles, check_solve_*
for rationals).  What this file is trusted for: drawing the cases, scaling the data of one query by common positive
factors to integers (the criteria are homogeneous), and the bookkeeping of which observation belongs to which
specification state.
"""
import math
import os
import sys
from fractions import Fraction as F

sys.path.insert(0, os.path.dirname(os.path.dirname(os.path.abspath(__file__))))
import vlib

TOL_RES = F(1, 10 ** 9)       # residual tolerance (relative to |B||x|+|b|), DESIGN C10
TOL_CLOSE = F(1, 10 ** 8)     # multi-rhs results against single solves (relative to |x|+|y|)
COND_MAX = 10 ** 6


# ----------------------------------------------------------------------------------------------------------
# numbers
# ----------------------------------------------------------------------------------------------------------
def fstr(x):
    return str(x.numerator) if x.denominator == 1 else "%d/%d" % (x.numerator, x.denominator)


def fparse(s):
    return F(s)


def dystr(x):
    """dyadic fraction -> 'm:e' (m odd)"""
    if x == 0:
        return "0:0"
    m, d = x.numerator, x.denominator
    e = 0
    if d & (d - 1):
        raise ValueError("not dyadic: %s" % x)
    e = -(d.bit_length() - 1)
    while m % 2 == 0:
        m //= 2
        e += 1
    return "%d:%d" % (m, e)


def dyparse(t):
    m, e = t.split(":")
    m, e = int(m), int(e)
    return F(m) * (F(2) ** e)


def lcm(a, b):
    return a * b // math.gcd(a, b)


def common_den(xs):
    d = 1
    for x in xs:
        if x.denominator != 1:
            d = lcm(d, x.denominator)
    return d


# ----------------------------------------------------------------------------------------------------------
# exact reference linear algebra (matrices = lists of columns of Fractions)
# ----------------------------------------------------------------------------------------------------------
def invert(cols):
    """Gauss-Jordan over Q.  Returns ('regular', inverse columns) or ('singular', kernel vector)."""
    n = len(cols)
    A = [[cols[j][i] for j in range(n)] + [F(int(i == j)) for j in range(n)] for i in range(n)]
    piv_of_col = [-1] * n
    r = 0
    for c in range(n):
        p = -1
        for i in range(r, n):
            if A[i][c] != 0:
                p = i
                break
        if p < 0:
            continue
        A[r], A[p] = A[p], A[r]
        inv = 1 / A[r][c]
        row = A[r] = [v * inv if v else v for v in A[r]]
        for i in range(n):
            if i != r and A[i][c] != 0:
                f = A[i][c]
                Ai = A[i]
                A[i] = [a - f * b if b else a for a, b in zip(Ai, row)]
        piv_of_col[c] = r
        r += 1
    if r < n:
        free = [c for c in range(n) if piv_of_col[c] < 0][0]
        v = [F(0)] * n
        v[free] = F(1)
        for c in range(n):
            if piv_of_col[c] >= 0:
                v[c] = -A[piv_of_col[c]][free]
        d = common_den(v)
        return "singular", [x * d for x in v]
    return "regular", [[A[i][n + j] for i in range(n)] for j in range(n)]


def mat_vec(cols, x):
    n = len(cols[0]) if cols else 0
    out = [F(0)] * n
    for c, a in zip(cols, x):
        if a != 0:
            for i, v in enumerate(c):
                if v != 0:
                    out[i] += a * v
    return out


def vec_mat(x, cols):
    return [sum((a * b for a, b in zip(x, c) if a != 0 and b != 0), F(0)) for c in cols]


def update_inverse(binv, k, w):
    """inverse of the matrix with column k replaced by v, given w = Binv v (w[k] != 0)"""
    n = len(binv)
    out = []
    for c in binv:
        ck = c[k] / w[k]
        if ck == 0:
            nc = list(c)
        else:
            nc = [c[i] - w[i] * ck for i in range(n)]
        nc[k] = ck
        out.append(nc)
    return out


def norm_inf_mat(cols):
    n = len(cols[0]) if cols else 0
    rs = [F(0)] * n
    for c in cols:
        for i, v in enumerate(c):
            if v != 0:
                rs[i] += abs(v)
    return max(rs) if rs else F(0)


def cond_inf(cols, binv):
    return norm_inf_mat(cols) * norm_inf_mat(binv)


# ----------------------------------------------------------------------------------------------------------
# generators
# ----------------------------------------------------------------------------------------------------------
FAMILIES = ["random", "triangular", "singleton", "bump", "permident", "scaled", "dense"]
MARKOWITZ = [F(1, 10000), F(1, 1000), F(1, 100), F(1, 25), F(1, 10), F(3, 10), F(6, 10), F(9, 10), F(9999, 10000)]


class ValueGen:
    """entry values: 'D' exact dyadics of moderate size, 'R' rationals of widely varying bit length.  For rationals the bit
    budget shrinks with the dimension and a matrix uses few distinct large denominators: the extracted checker works
    on integers obtained by clearing denominators, in schoolbook arithmetic on the inductive positive type."""

    def __init__(self, rng, kind, n=4, style=None):
        self.r, self.kind = rng, kind
        if kind == "R":
            # "ints": tiny integers - exact cancellation inside the elimination and the solves is frequent
            self.style = style or rng.choice(["ints", "ints", "small", "mixed", "wide"])
            self.bits = 200 if n <= 5 else 100 if n <= 8 else 40 if n <= 14 else 24 if n <= 25 else 12
            self.dens = [1, 1, 1, 2, 3, 4, 7]
            if self.style not in ("small", "ints"):
                self.dens += [rng.getrandbits(rng.choice([8, max(8, self.bits // 2), self.bits])) + 1 for _ in range(2)]
        else:
            self.style = style or rng.choice(["small", "small", "frac", "big"])

    def nz(self):
        r = self.r
        if self.kind == "D":
            v = r.choice([-1, 1]) * r.randint(1, 9)
            if self.style == "frac" and r.random() < 0.4:
                return F(v, 2 ** r.randint(1, 6))
            if self.style == "big" and r.random() < 0.2:
                return F(v * r.randint(1, 100))
            if r.random() < 0.5:
                return F(r.choice([-1, 1]))
            return F(v)
        s = self.style
        k = r.random()
        if s == "ints":
            return F(r.choice([-1, 1, 1, 1, -1, 2, -2, 3]))
        if s == "small" or (s == "mixed" and k < 0.6) or (s == "wide" and k < 0.3):
            return F(r.choice([-1, 1]) * r.randint(1, 9), r.choice([1, 1, 1, 2, 3, 4, 7]))
        if s == "mixed" or (s == "wide" and k < 0.5):
            return F(r.choice([-1, 1]) * r.randint(1, 2 ** min(20, self.bits)), r.choice(self.dens))
        bits = r.choice([8, max(8, self.bits // 3), self.bits])
        return F(r.choice([-1, 1]) * (r.getrandbits(bits) + 1), r.choice(self.dens))


def gen_matrix(rng, n, family, kind):
    """returns columns (lists of Fractions), square n x n, hopefully nonsingular"""
    vg = ValueGen(rng, kind, n)
    A = [[F(0)] * n for _ in range(n)]          # A[i][j] row-major while building
    prow = list(range(n))
    pcol = list(range(n))
    rng.shuffle(prow)
    rng.shuffle(pcol)
    fam = family
    scaled = False
    if fam == "scaled":
        scaled = True
        fam = rng.choice(["random", "triangular", "bump", "singleton"])
    if fam == "random":
        p = rng.choice([1.0, 1.5, 2.5, 4.0]) / max(n, 1)
        for i in range(n):
            A[prow[i]][pcol[i]] = vg.nz()
        for i in range(n):
            for j in range(n):
                if rng.random() < p:
                    A[i][j] = vg.nz()
    elif fam == "dense":
        for i in range(n):
            for j in range(n):
                if rng.random() < 0.8:
                    A[i][j] = vg.nz()
    elif fam == "triangular":
        lower = rng.random() < 0.5
        p = rng.choice([0.1, 0.3, 0.6])
        for i in range(n):
            A[prow[i]][pcol[i]] = vg.nz()
            for j in range(i):
                if rng.random() < p:
                    if lower:
                        A[prow[i]][pcol[j]] = vg.nz()
                    else:
                        A[prow[j]][pcol[i]] = vg.nz()
    elif fam == "singleton":
        # permuted diagonal (row and column singletons) plus a small nucleus
        for i in range(n):
            A[prow[i]][pcol[i]] = vg.nz()
        k = rng.randint(0, min(n, 5))
        for a in range(k):
            for b in range(k):
                if rng.random() < 0.6:
                    A[prow[a]][pcol[b]] = vg.nz()
        for _ in range(rng.randint(0, n // 2)):
            i, j = rng.randrange(n), rng.randrange(n)
            if j > i:
                A[prow[j]][pcol[i]] = vg.nz()
    elif fam == "bump":
        k = rng.randint(1, min(n, 8))
        s = rng.randint(0, n - k)
        for i in range(n):
            A[prow[i]][pcol[i]] = vg.nz()
            for j in range(i):
                if rng.random() < 0.2:
                    A[prow[i]][pcol[j]] = vg.nz()
        for a in range(s, s + k):
            for b in range(s, s + k):
                if rng.random() < 0.85:
                    A[prow[a]][pcol[b]] = vg.nz()
    elif fam == "permident":
        for i in range(n):
            A[prow[i]][pcol[i]] = F(rng.choice([-1, 1])) * (F(2) ** rng.randint(-3, 3) if rng.random() < 0.3 else 1)
    if scaled:
        emax = rng.choice([2, 4, 6])
        re = [rng.randint(-emax, emax) for _ in range(n)]
        ce = [rng.randint(-emax, emax) for _ in range(n)]
        for i in range(n):
            for j in range(n):
                if A[i][j] != 0:
                    A[i][j] *= F(2) ** (re[i] + ce[j])
    return [[A[i][j] for i in range(n)] for j in range(n)]


def make_singular(rng, cols, kind):
    """turn a matrix into an exactly singular one; returns (cols, how)"""
    n = len(cols)
    how = rng.choice(["zerocol", "dupcol", "depcol", "zerorow", "deprow"] if n > 1 else ["zerocol"])
    cols = [list(c) for c in cols]
    if how == "zerocol":
        cols[rng.randrange(n)] = [F(0)] * n
    elif how == "dupcol":
        a, b = rng.sample(range(n), 2)
        s = F(rng.choice([1, 1, -1, 2, 3]))
        cols[a] = [s * v for v in cols[b]]
    elif how == "depcol":
        a = rng.randrange(n)
        others = [j for j in range(n) if j != a]
        ks = rng.sample(others, min(len(others), rng.randint(2, 3)))
        new = [F(0)] * n
        for k in ks:
            s = F(rng.choice([-2, -1, 1, 2, 3]))
            new = [x + s * y for x, y in zip(new, cols[k])]
        cols[a] = new
    elif how == "zerorow":
        i = rng.randrange(n)
        for c in cols:
            c[i] = F(0)
    else:
        a, b = rng.sample(range(n), 2)
        s = F(rng.choice([1, -1, 2]))
        for c in cols:
            c[a] = s * c[b]
    return cols, how


def gen_rhs(rng, n, kind, style=None):
    """right-hand side as dict idx -> Fraction (non-empty)"""
    style = style or rng.choice(["unit", "sparse", "sparse", "dense"])
    if style == "unit":
        return {rng.randrange(n): F(1)}
    k = n if style == "dense" else min(n, rng.randint(1, 3))
    idx = rng.sample(range(n), k)
    out = {}
    vg = None
    for i in idx:
        if kind == "D":
            v = F(rng.choice([-1, 1]) * rng.randint(1, 9))
            if rng.random() < 0.2:
                v /= 2 ** rng.randint(1, 3)
        else:
            vg = vg if i != idx[0] else ValueGen(rng, "R", n)
            v = vg.nz()
        out[i] = v
    return out


def gen_column(rng, n, cols, kind):
    """a replacement column in the style of the current matrix"""
    vals = [v for c in cols for v in c if v != 0]
    k = min(n, rng.choice([1, 1, 2, 3, 4, max(1, n // 2)]))
    idx = rng.sample(range(n), k)
    col = [F(0)] * n
    for i in idx:
        if vals and rng.random() < 0.7:
            col[i] = rng.choice(vals) * rng.choice([1, -1, 1, 2])
        else:
            col[i] = ValueGen(rng, kind, n, style="small").nz()
    return col


def dense(d, n):
    v = [F(0)] * n
    for i, x in d.items():
        v[i] = x
    return v


# ----------------------------------------------------------------------------------------------------------
# cases: JSON-able dicts   {"kind","n","utype","mark","cols":[{i: "p/q"}], "expect":"regular|singular",
#                           "ops":[[name, args...]], "family":..}
# ----------------------------------------------------------------------------------------------------------
def sv_json(d):
    return {str(i): fstr(v) for i, v in sorted(d.items())}


def sv_load(j):
    return {int(i): fparse(v) for i, v in j.items()}


def col_json(c):
    return {str(i): fstr(v) for i, v in enumerate(c) if v != 0}


def col_load(j, n):
    v = [F(0)] * n
    for i, x in j.items():
        v[int(i)] = fparse(x)
    return v


def plan_case(rng, kind, nmax, nops, families, cond_max=COND_MAX, allow_updates=True, stats=None, utype=None, modes=None):
    """draw one regular case with an operation history that keeps the matrix regular and well conditioned"""
    for attempt in range(50):
        n = rng.choice([1, 2, 3]) if rng.random() < 0.06 else rng.randint(max(2, nmax // 4), nmax)
        fam = rng.choice(families)
        cols = gen_matrix(rng, n, fam, kind)
        st, binv = invert(cols)
        if st != "regular":
            if stats is not None:
                stats["gen:rejected-singular"] = stats.get("gen:rejected-singular", 0) + 1
            continue
        if kind == "D" and cond_inf(cols, binv) > cond_max:
            if stats is not None:
                stats["gen:rejected-cond"] = stats.get("gen:rejected-cond", 0) + 1
            continue
        break
    else:
        n, fam = 2, "permident"
        cols = [[F(1), F(0)], [F(0), F(1)]]
        binv = [list(c) for c in cols]
    utype = rng.randrange(2) if utype is None else utype
    mark = rng.choice(MARKOWITZ)
    ops = [["LOAD"]]
    cur, cinv = [list(c) for c in cols], binv
    single = ["SR", "SRS", "SL", "SLS"]
    multiL = ["SL2", "SL3"] + (["SL2S", "SL3S"] if kind == "D" else [])
    for _ in range(rng.randint(1, nops)):
        k = rng.random()
        if k < 0.40:
            ops.append([rng.choice(single), sv_json(gen_rhs(rng, n, kind))])
        elif k < 0.55:
            name = rng.choice(multiL)
            rh = [gen_rhs(rng, n, kind) for _ in range(3 if "3" in name else 2)]
            for b in rh:
                ops.append(["SLS", sv_json(b), "ref"])
            ops.append([name] + [sv_json(b) for b in rh])
        elif k < 0.92 and allow_updates:
            # column replacement that keeps the matrix regular (exact reference) and well conditioned
            for t in range(8):
                idx = rng.randrange(n)
                col = gen_column(rng, n, cur, kind)
                w = mat_vec(cinv, col)
                if w[idx] == 0:
                    continue
                ninv = update_inverse(cinv, idx, w)
                ncur = [list(c) for c in cur]
                ncur[idx] = col
                if kind == "D" and cond_inf(ncur, ninv) > cond_max:
                    continue
                break
            else:
                continue
            ms = ["1", "2", "3"] + (["4", "5"] if kind == "D" else [])
            if utype == 0:
                ms += ["E", "1"]
            mode = rng.choice(modes or ms)
            extra = []
            if mode in ("2", "4"):
                extra = [gen_rhs(rng, n, kind)]
            elif mode in ("3", "5"):
                extra = [gen_rhs(rng, n, kind), gen_rhs(rng, n, kind)]
            cj = {i: v for i, v in enumerate(col) if v != 0}
            if mode not in ("N",):
                ops.append(["SRS", sv_json(cj), "ref"])
            for b in extra:
                ops.append(["SRS", sv_json(b), "ref"])
            ops.append(["CHG", idx, mode, sv_json(cj)] + [sv_json(b) for b in extra])
            cur, cinv = ncur, ninv
            # a solve right after the update
            ops.append([rng.choice(single), sv_json(gen_rhs(rng, n, kind))])
        else:
            if allow_updates and rng.random() < 0.5:
                # an update that is prepared and then abandoned for a refactorization
                pc = gen_column(rng, n, cur, kind)
                ops.append(["PREP", sv_json({i: v for i, v in enumerate(pc) if v != 0})])
            ops.append(["LOAD"])
            if allow_updates and utype == 0 and rng.random() < 0.7:
                # ETA: a replacement right after the load WITHOUT its own ...4update (change() solves itself)
                for t in range(8):
                    idx = rng.randrange(n)
                    col = gen_column(rng, n, cur, kind)
                    w = mat_vec(cinv, col)
                    if w[idx] == 0:
                        continue
                    ninv = update_inverse(cinv, idx, w)
                    ncur = [list(c) for c in cur]
                    ncur[idx] = col
                    if kind == "D" and cond_inf(ncur, ninv) > cond_max:
                        continue
                    ops.append(["CHG", idx, "N", sv_json({i: v for i, v in enumerate(col) if v != 0})])
                    cur, cinv = ncur, ninv
                    ops.append([rng.choice(single), sv_json(gen_rhs(rng, n, kind))])
                    break
    return {"kind": kind, "n": n, "utype": utype, "mark": fstr(mark), "family": fam, "expect": "regular",
            "cols": [col_json(c) for c in cols], "ops": ops}


def plan_ftgrow(rng, nmin, nmax, nupd):
    """Forrest-Tomlin column-file memory management: strictly column-diagonally-dominant matrices (regular and well
    conditioned by construction: |diagonal| in [3,5], off-diagonal column sums < 2.4), many singleton columns so that the
    column file of U starts small, and a long history WITHOUT re-loads in which replacement columns are denser than the
    columns they replace: a column is first replaced by a slightly longer one (it moves to the end of the column file) and
    then by a much longer one (it must grow in place at the end of the file), hot columns grow step by step, so that
    forestReMaxCol / forestPackColumns / forestMinColMem run.  The harness applies the refactorization triggers of
    SPxBasisBase (200 updates, memory, fill, non-zeros), so the history stays within what the solver does."""
    n = rng.randint(nmin, nmax)

    def mkcol(piv, nnz):
        col = [F(0)] * n
        col[piv] = F(rng.choice([-1, 1]) * (24 + rng.randint(0, 16)), 8)
        k = max(0, min(nnz, n - 1))
        if k:
            rmax = max(1, 150 // k)
            for i in rng.sample([i for i in range(n) if i != piv], k):
                col[i] = F(rng.choice([-1, 1]) * rng.randint(1, min(rmax, 40)), 64)
        return col

    dens = rng.choice([0.3, 0.5, 0.8])
    cols = [mkcol(j, rng.randint(1, 3) if rng.random() < dens else 0) for j in range(n)]
    ops = [["LOAD"]]
    hot = rng.sample(range(n), min(n, rng.randint(1, 3)))
    hotlen = {h: 2 for h in hot}
    nu = 0

    def chg(idx, nnz):
        col = mkcol(idx, nnz)
        cj = {i: v for i, v in enumerate(col) if v != 0}
        ops.append(["SRS", sv_json(cj), "ref"])
        ops.append(["CHG", idx, "1", sv_json(cj)])
        ops.append([rng.choice(["SR", "SR", "SRS", "SL"]), sv_json(gen_rhs(rng, n, "D", rng.choice(["dense", "dense", "sparse"])))])

    while nu < nupd:
        k = rng.random()
        if k < 0.45:
            x = rng.randrange(n)
            chg(x, rng.randint(2, 5))
            chg(x, rng.randint(max(3, n // 3), n - 1))
            nu += 2
        elif k < 0.7:
            h = rng.choice(hot)
            chg(h, hotlen[h])
            hotlen[h] += rng.randint(1, 4)
            if hotlen[h] > n - 1:
                hotlen[h] = 2
            nu += 1
        else:
            chg(rng.randrange(n), rng.randint(1, 8))
            nu += 1
    return {"kind": "D", "n": n, "utype": 1, "mark": fstr(rng.choice(MARKOWITZ)), "family": "ft-column-growth", "expect": "regular",
            "track": False, "cols": [col_json(c) for c in cols], "ops": ops}


def plan_singular(rng, kind, nmax, families):
    n = rng.randint(1, nmax)
    fam = rng.choice(families)
    cols = gen_matrix(rng, n, fam, kind)
    cols, how = make_singular(rng, cols, kind)
    return {"kind": kind, "n": n, "utype": rng.randrange(2), "mark": fstr(rng.choice(MARKOWITZ)), "family": fam + "+" + how,
            "expect": "singular", "cols": [col_json(c) for c in cols],
            "ops": [["LOAD"], ["SR", sv_json(gen_rhs(rng, n, kind))]]}


# ----------------------------------------------------------------------------------------------------------
# harness case text
# ----------------------------------------------------------------------------------------------------------
def num(kind, x):
    return dystr(x) if kind == "D" else fstr(x)


def svtext(kind, j):
    d = sv_load(j)
    return "%d %s" % (len(d), " ".join("%d %s" % (i, num(kind, v)) for i, v in sorted(d.items()))) if d else "0"


def case_text(cid, c):
    kind = c["kind"]
    out = ["CASE %s %s %d %d %s" % (cid, kind, c["n"], c["utype"], "%d:%d" % vlib.dyadic(float(fparse(c["mark"]))))]
    for j, col in enumerate(c["cols"]):
        out.append("COL %d %s" % (j, svtext(kind, col)))
    for op in c["ops"]:
        name = op[0]
        if name == "LOAD":
            out.append("LOAD")
        elif name == "CHG":
            out.append("CHG %d %s %s" % (op[1], op[2], " ".join(svtext(kind, b) for b in op[3:])))
        else:
            out.append("%s %s" % (name, " ".join(svtext(kind, b) for b in op[1:] if isinstance(b, dict))))
    return out


def parse_obs(kind, line):
    """'SR x=a,b,c idx=ok y=...' -> (cmd, {key: value}) with vectors parsed to Fractions"""
    t = line.split()
    cmd = t[0]
    d = {}
    last = None
    for tok in t[1:]:
        if "=" not in tok:
            d.setdefault("_extra", []).append(tok)
            continue
        k, v = tok.split("=", 1)
        if k in ("x", "y", "z", "v"):
            d[k] = [dyparse(s) if kind == "D" else fparse(s) for s in v.split(",")] if v else []
            last = k
        elif k == "idx":
            d["idx_" + (last or "")] = v
        else:
            d[k] = v
    return cmd, d


def split_cases(out):
    res, cur = {}, None
    for l in out.splitlines():
        if l.startswith("CASE "):
            cur = []
            res[l.split()[1]] = cur
        elif cur is not None:
            cur.append(l)
    return res


# ----------------------------------------------------------------------------------------------------------
# query file builder
# ----------------------------------------------------------------------------------------------------------
class Queries:
    def __init__(self):
        self.lines = []
        self.meta = {}          # tag -> info
        self.k = 0

    def tag(self, info):
        self.k += 1
        t = "q%d" % self.k
        self.meta[t] = info
        return t

    def mat(self, mid, cols):
        n = len(cols)
        self.lines.append("MAT %s %d %s" % (mid, n, " ".join(fstr(v) for c in cols for v in c)))

    def matr(self, mid, m, cols):
        self.lines.append("MATR %s %d %d %s" % (mid, m, len(cols), " ".join(fstr(v) for c in cols for v in c)))

    def vec(self, vid, v):
        self.lines.append("VEC %s %s" % (vid, " ".join(fstr(x) for x in v)))

    def q(self, info, kind, *args):
        t = self.tag(info)
        self.lines.append("Q %s %s %s" % (t, kind, " ".join(str(a) for a in args)))
        return t

    def raw(self, l):
        self.lines.append(l)


def scale_inverse(binv, DB):
    """inverse of the integer matrix DB*B as (integer matrix N, integer d): (DB B)^-1 = N / d"""
    flat = [v / DB for c in binv for v in c]
    d = common_den(flat)
    n = len(binv)
    N = [[binv[j][i] / DB * d for i in range(n)] for j in range(n)]
    return N, d


def run_model(model, q, name):
    os.makedirs(os.path.join(vlib.BUILD, "run"), exist_ok=True)
    qf = os.path.join(vlib.BUILD, "run", "%s.%d.queries" % (name, os.getpid()))
    with open(qf, "w") as f:
        f.write("\n".join(q.lines) + "\n")
    rc, out, err = vlib.sh([model, qf], timeout=6000)
    if not os.environ.get("VERIF_KEEP"):
        os.remove(qf)
    res = {}
    for l in out.splitlines():
        t = l.split()
        if len(t) == 3 and t[0] == "R":
            res[t[1]] = t[2]
    return rc, res, err


HARNESS_TIMEOUT = 90


def run_harness(exe, lines, name):
    os.makedirs(os.path.join(vlib.BUILD, "run"), exist_ok=True)
    hf = os.path.join(vlib.BUILD, "run", "%s.%d.cases" % (name, os.getpid()))
    with open(hf, "w") as f:
        f.write("\n".join(lines) + "\n")
    rc, out, err = vlib.sh([exe, "run", hf], timeout=HARNESS_TIMEOUT)
    if not os.environ.get("VERIF_KEEP"):
        os.remove(hf)
    return rc, out, err


def run_all(exe, cases, name, max_crashes=12):
    """run all cases; after a crash continue with the cases behind the crashing one in a new process.
    returns (blocks by case index string, list of (case index, observations so far, rc, stderr))"""
    blocks, crashes = {}, []
    start = 0
    while start < len(cases):
        lines = []
        for k in range(start, len(cases)):
            c = cases[k]
            lines += lp_text(str(k), c) if c["kind"] == "LP" else case_text(str(k), c)
        rc, out, err = run_harness(exe, lines, name)
        b = split_cases(out)
        blocks.update(b)
        if rc == 0:
            break
        last = max([int(k) for k in b] or [start])
        crashes.append((last, len(b.get(str(last), [])), rc, err[-1500:]))
        blocks.pop(str(last), None)
        if len(crashes) >= max_crashes:
            break
        start = last + 1
    return blocks, crashes


# ----------------------------------------------------------------------------------------------------------
# walking one factorization case: specification state, reference inverse, queries
# ----------------------------------------------------------------------------------------------------------
def usetup_after(flag, op):
    """LUModel.v, theorem C10_usetup_flag: the prepared-update flag after an operation"""
    if op[0] == "PREP":
        return True
    if op[0] in ("LOAD", "CHG"):
        return False
    return flag


def walk_case(ck, cid, c, obs, Q, pending):
    # the protocol flag printed after every operation ("US 0/1") against the model
    flags = [l.split()[1] == "1" for l in obs if l.startswith("US ")]
    obs = [l for l in obs if not l.startswith("US ")]
    if flags and c.get("kind") in ("D", "R"):
        f = False
        for oi_, op_ in enumerate(c["ops"]):
            if oi_ >= len(flags):
                break
            f = usetup_after(f, op_)
            ck.count("protocol-flag:%s" % ("set" if f else "clear"))
            if flags[oi_] != f:
                pending.append((None, "protocol-flag:%s:%s" % (c["kind"], op_[0]),
                                "after operation %d (%s) SLUFactor::usetup is %d, the protocol model (LUModel.v, C10_usetup_flag) says %d: a prepared update "
                                "vector would be used for a matrix it was not prepared for (C10_prepared_update_is_for_current_matrix)" % (
                                    oi_, op_[0], flags[oi_], f), dict(case=c, case_id=cid, correspondence="LUModel.usetup vs SLUFactor::usetup")))
                break
    """Compare the observations of one case with the specification; emit checker queries.
    pending: list of (tag or None, signature, what, replay-extra) decided after the checker ran; a tag of None with
    verdict given directly is a violation found without the checker (status, crash, index set)."""
    kind, n = c["kind"], c["n"]
    exact = kind == "R"
    cols = [col_load(j, n) for j in c["cols"]]
    upd = "ETA" if c["utype"] == 0 else "FT"

    def viol(sig, what, extra=None):
        pending.append((None, sig, what, dict(extra or {}, case=c, case_id=cid)))

    # global integer scale of all matrix data of this case
    allv = [v for col in cols for v in col]
    for op in c["ops"]:
        if op[0] == "CHG":
            allv += list(sv_load(op[3]).values())
    DB = common_den(allv)
    st, ref = invert(cols)
    icols = [[v * DB for v in col] for col in cols]
    Q.mat("B0", icols)
    Q.raw("LOAD B0")
    if c["expect"] == "singular":
        if st != "singular":
            return
        Q.vec("kv", ref)
        Q.q(("cert", cid, "singular"), "SINGULAR", "cur", "kv")
        line = obs[0] if obs else ""
        cmd, d = parse_obs(kind, line) if line else ("", {})
        ck.count("singular:" + c["family"].split("+")[-1])
        ck.count("verdict:singular->" + d.get("status", "none"))
        if d.get("status") != "SINGULAR":
            viol("singular-not-reported:%s" % kind, "an exactly singular matrix (%s, n=%d) was loaded with status %s" % (c["family"], n, d.get("status")),
                 {"observed": line})
        return
    if st != "regular":
        return
    binv = ref

    def certify(what):
        N, d = scale_inverse(binv, DB)
        Q.mat("N", N)
        Q.q(("cert", cid, what), "REGULAR", "cur", "N", d)
        if not exact:
            Q.q(("cond", cid, what), "COND", "cur", "N", d, COND_MAX)

    certify("load")
    track = c.get("track", True)      # False: the reference inverse is recomputed only at the end of the history
    fresh = True            # no update since the last (re)factorization
    nupd = 0
    refs = []               # results of the preceding single reference solves, in order
    cur = [list(col) for col in cols]
    oi = 0
    for op in c["ops"]:
        if oi >= len(obs):
            viol("short-output", "the harness produced fewer observations than operations (case %s)" % cid)
            return
        line = obs[oi]
        oi += 1
        if kind == "D" and any(w in line for w in ("nan", "inf")):
            viol("non-finite:%s:%s" % (kind, op[0]), "operation %s returned a non-finite entry (the matrix is regular and well conditioned): %s" % (op[0], line[:200]),
                 {"observed": line})
            return
        cmd, d = parse_obs(kind, line)
        name = op[0]
        if " EXC " in line or " STDEXC " in line or cmd != name:
            viol("exception:%s:%s" % (kind, name), "operation %s raised / was not executed: %s" % (name, line[:200]), {"observed": line})
            return
        if "skipped" in d:
            viol("not-factorized:%s" % kind, "operation %s skipped: %s" % (name, line[:200]), {"observed": line})
            return
        state = "fresh" if fresh else upd + "-updated"
        if name == "LOAD":
            ck.count("verdict:regular->" + d.get("status", "none"))
            if d.get("status") != "OK":
                viol("regular-reported-%s:%s" % (d.get("status"), kind),
                     "a certified regular%s matrix (%s, n=%d) was loaded with status %s" % ("" if exact else " well-conditioned", c["family"], n, d.get("status")),
                     {"observed": line})
                return
            fresh = True
            nupd = 0
            continue
        # index sets of semi-sparse results
        for k, v in d.items():
            if k.startswith("idx_") and v.startswith("BAD"):
                viol("index-set:%s:%s:%s" % (kind, name, v[4:]), "the index set of the semi-sparse result %s of %s is inconsistent with its values: %s (%s)" % (k[4:], name, v[4:], state), {"observed": line})

        def solve_query(kindq, x, b, what, sigop):
            """one solve B x = b (R) or x^T B = b^T (L) against the current specification state"""
            Dx = common_den(x)
            xi = [v * Dx for v in x]
            bi = [v * DB * Dx for v in dense(b, n)]
            Q.vec("x", xi)
            Q.vec("b", bi)
            if os.environ.get("VERIF_STATS") and not exact:
                # calibration aid only (untrusted): the observed ratio residual / (|B||x|+|b|)
                bd = dense(b, n)
                if kindq == "R":
                    r = [p - q for p, q in zip(mat_vec(cur, x), bd)]
                    nb = norm_inf_mat(cur)
                else:
                    r = [p - q for p, q in zip(vec_mat(x, cur), bd)]
                    nb = max(sum(abs(v) for v in col) for col in cur)
                den = nb * max(abs(v) for v in x) + max(abs(v) for v in bd)
                ratio = float(max(abs(v) for v in r) / den) if den else 0.0
                key = "stats:maxratio:%s:%s" % (sigop, state)
                ck.hist[key] = max(ck.hist.get(key, 0.0), ratio)
            if exact:
                Q.q(("solve", cid, sigop, state, what, line, c), "SOLVER" if kindq == "R" else "SOLVEL", "cur", "x", "b")
            else:
                Q.q(("solve", cid, sigop, state, what, line, c), "RESR" if kindq == "R" else "RESL", "cur", "x", "b", fstr(TOL_RES))

        def close_query(x, y, what, sigop):
            if exact:
                if x != y:
                    viol("multi-differs:%s:%s" % (kind, sigop), "%s: %s differs from the single solve (%s)" % (sigop, what, state), {"observed": line})
                return
            if x == y:
                ck.count("multi:bitwise-equal")
                return
            ck.count("multi:not-bitwise")
            if os.environ.get("VERIF_STATS"):
                den = max(abs(v) for v in x) + max(abs(v) for v in y)
                ratio = float(max(abs(p - q) for p, q in zip(x, y)) / den) if den else 0.0
                ck.hist["stats:maxdiff:" + sigop] = max(ck.hist.get("stats:maxdiff:" + sigop, 0.0), ratio)
            D = common_den(x + y)
            Q.vec("x", [v * D for v in x])
            Q.vec("y", [v * D for v in y])
            Q.q(("close", cid, sigop, state, what, line, c), "CLOSE", "x", "y", fstr(TOL_CLOSE))

        ck.count("op:%s:%s" % (name, state if name != "CHG" else upd))
        if name in ("SR", "SRS", "SL", "SLS", "PREP"):
            b = sv_load(op[1])
            if len(d.get("x", [])) != n:
                viol("bad-output", "malformed observation %s" % line[:100])
                return
            solve_query("R" if (name == "PREP" or name[1] == "R") else "L", d["x"], b, "x", name)
            if len(op) > 2 and op[2] == "ref":
                refs.append(d["x"])
            ck.evaluated((cid, oi))
        elif name in ("SL2", "SL2S", "SL3", "SL3S"):
            rhs = [sv_load(b) for b in op[1:]]
            keys = ["x", "y", "z"][:len(rhs)]
            for k, b, r in zip(keys, rhs, refs[-len(rhs):]):
                if len(d.get(k, [])) != n:
                    viol("bad-output", "malformed observation %s" % line[:100])
                    return
                solve_query("L", d[k], b, k, name)
                close_query(d[k], r, k, name)
            refs = []
            ck.evaluated((cid, oi))
        elif name == "CHG":
            idx, mode = op[1], op[2]
            col = sv_load(op[3])
            rhs = [col] + [sv_load(b) for b in op[4:]]
            keys = ["x", "y", "z"][:len(rhs)]
            if mode != "N":
                for k, b, r in zip(keys, rhs, refs[-len(rhs):]):
                    if len(d.get(k, [])) != n:
                        viol("bad-output", "malformed observation %s" % line[:100])
                        return
                    solve_query("R", d[k], b, k, "CHG" + mode)
                    close_query(d[k], r, k, "CHG" + mode)
            refs = []
            # the specification state changes
            if track:
                w = mat_vec(binv, dense(col, n))
                binv = update_inverse(binv, idx, w)
            cur[idx] = dense(col, n)
            Q.vec("c", [v * DB for v in dense(col, n)])
            Q.raw("CHANGE %d c" % idx)
            if track:
                certify("update")
            ck.count("update:refac=%s" % d.get("refac"))
            if d.get("status") != "OK":
                viol("update-status-%s:%s:%s" % (d.get("status"), kind, upd),
                     "after replacing column %d (mode %s, %s) of a matrix that stays regular the status is %s" % (idx, mode, upd, d.get("status")),
                     {"observed": line})
                return
            if d.get("refac") == "0":
                fresh = False
                nupd += 1
            else:
                fresh = True
                nupd = 0
            ck.evaluated((cid, oi))
    if not track:
        st, binv = invert(cur)
        if st == "regular":
            certify("final")
        else:
            ck.count("reference:final-state-singular")
    ck.count("family:" + c["family"])
    ck.count("dim:%02d-%02d" % (n // 10 * 10, n // 10 * 10 + 9))


def decide(ck, Q, res, pending, label):
    """turn checker verdicts into violations"""
    gated = set()
    # certificates first: a case whose reference certificate is rejected or whose condition number is too large is not judged
    for t, info in Q.meta.items():
        if info[0] == "cert":
            if res.get(t) != "true":
                gated.add(info[1])
                ck.count("reference:certificate-rejected")
                if info[2] != "singular" or True:
                    ck.violation("reference-certificate", "the extracted checker rejected a certificate of the reference elimination (%s, case %s): the "
                                 "reference or the checker is broken" % (info[2], info[1]), {"kind": "internal", "case_id": info[1]}, no_input=True)
            else:
                ck.count("reference:%s-certified" % ("singular" if info[2] == "singular" else "regular"))
        elif info[0] == "cond":
            if res.get(t) != "true":
                gated.add(info[1])
                ck.count("reference:cond-above-bound")
    for t, info in Q.meta.items():
        if info[0] in ("solve", "close"):
            _, cid, sigop, state, what, line, c = info
            if cid in gated:
                continue
            v = res.get(t)
            if v == "true":
                continue
            if info[0] == "solve":
                sig = "%s:%s:%s:%s" % ("inexact" if c["kind"] != "D" else "residual", c["kind"], sigop, state)
                msg = "%s: result %s of %s (%s, n=%d, %s) %s" % (label, what, sigop, state, c["n"], c["family"],
                                                                "is not the exact solution" if c["kind"] != "D" else
                                                                "has a residual above 1e-9*(|B||x|+|b|) on a matrix with condition <= 1e6")
            else:
                sig = "multi-differs:%s:%s:%s" % (c["kind"], sigop, state)
                msg = "%s: result %s of %s differs from the single solve by more than 1e-8 relative (%s)" % (label, what, sigop, state)
            if c.get("probe"):
                sig = c["probe"] + ":" + sig
                msg = "[probe %s] %s" % (c["probe"], msg)
            ck.violation(sig, msg, {"case": c, "case_id": cid, "observed": line, "checker": "%s -> %s" % (t, v)})
    for tag, sig, what, extra in pending:
        if extra.get("case_id") in gated:
            continue
        pc = extra.get("case", {}).get("probe")
        if pc:
            sig, what = pc + ":" + sig, "[probe %s] %s" % (pc, what)
        ck.violation(sig, what, extra)
    return gated


# ----------------------------------------------------------------------------------------------------------
# C11: rational matrices whose rounding to doubles misleads, and the rational basis-inverse queries of SoPlex
# ----------------------------------------------------------------------------------------------------------
def plan_rounding_case(rng, nmax):
    """a rational matrix that is exactly regular although its rounding to doubles is exactly singular (a singular
    integer matrix plus a perturbation far below double resolution), or exactly singular although its rounding is
    regular (a column that is 1/3 of another).  Returns a case without updates."""
    n = rng.randint(2, nmax)
    cols = gen_matrix(rng, n, rng.choice(["random", "dense", "bump", "triangular"]), "D")
    sing, how = make_singular(rng, cols, "D")
    ops = [["LOAD"]]
    if rng.random() < 0.6:
        # regular, rounding singular: perturb by 2^-k times a rank-completing matrix
        k = rng.choice([60, 80, 120, 300])
        for t in range(20):
            j, i = rng.randrange(n), rng.randrange(n)
            trial = [list(c) for c in sing]
            trial[j][i] += F(rng.choice([-1, 1]), 2 ** k) * (trial[j][i] if trial[j][i] != 0 else 1)
            st, inv = invert(trial)
            if st == "regular":
                cols = trial
                for _ in range(rng.randint(2, 6)):
                    name = rng.choice(["SR", "SRS", "SL", "SLS"])
                    ops.append([name, sv_json(gen_rhs(rng, n, "R"))])
                return {"kind": "R", "n": n, "utype": rng.randrange(2), "mark": "1/100", "family": "rounding-singular+" + how,
                        "expect": "regular", "cols": [col_json(c) for c in cols], "ops": ops}
    # singular, rounding regular: one column is (p/q) times another with q not a power of two, entries non-representable
    cols = [[v * F(1, 3) if v != 0 and rng.random() < 0.5 else v for v in c] for c in cols]
    st, _ = invert(cols)
    if st == "regular" and n > 1:
        a, b = rng.sample(range(n), 2)
        cols[a] = [v * F(rng.choice([1, 2, 5, 7]), rng.choice([3, 7, 11])) for v in cols[b]]
    return {"kind": "R", "n": n, "utype": rng.randrange(2), "mark": "1/100", "family": "rounding-regular+dupcol-rational",
            "expect": "singular", "cols": [col_json(c) for c in cols], "ops": [["LOAD"], ["SR", sv_json(gen_rhs(rng, n, "R"))]]}


def rq(rng, small=True):
    if small or rng.random() < 0.7:
        return F(rng.choice([-1, 1]) * rng.randint(1, 9), rng.choice([1, 1, 1, 2, 3, 4, 5, 8]))
    return F(rng.choice([-1, 1]) * rng.randint(1, 10 ** 5), rng.randint(1, 10 ** 3))


def plan_lp(rng, mmax, nmax):
    """a small feasible, bounded rational LP and a query history"""
    m = rng.randint(1, mmax)
    n = rng.randint(1, nmax)
    big = rng.random() < 0.3
    ints = rng.random() < 0.5          # tiny integer coefficients: exact cancellation in the factorization and solves
    cols = []
    for j in range(n):
        k = min(m, rng.choice([1, 2, 2, 3, m, m]))
        col = {}
        for i in rng.sample(range(m), k):
            col[i] = F(rng.choice([-1, 1, 1, 1, -1, 2, -2])) if ints else rq(rng, not big)
        cols.append(col)
    x0 = [F(rng.randint(0, 6), rng.choice([1, 1, 2, 3])) for _ in range(n)]
    ax = [sum((cols[j].get(i, 0) * x0[j] for j in range(n)), F(0)) for i in range(m)]
    rows = []
    for i in range(m):
        t = rng.randrange(5)
        s = F(rng.randint(0, 5), rng.choice([1, 2, 3]))
        if t == 0:
            rows.append((fstr(ax[i]), fstr(ax[i])))
        elif t == 1:
            rows.append(("-inf", fstr(ax[i] + s)))
        elif t == 2:
            rows.append((fstr(ax[i] - s), "inf"))
        else:
            rows.append((fstr(ax[i] - s), fstr(ax[i] + s + 1)))
    sense = rng.choice([-1, 1])
    lpcols = []
    for j in range(n):
        lo = x0[j] - F(rng.randint(0, 3), rng.choice([1, 2]))
        obj = rq(rng) if rng.random() < 0.8 else F(0)
        if rng.random() < 0.75:
            up = fstr(x0[j] + F(rng.randint(0, 4), rng.choice([1, 3])))
        else:
            up = "inf"
            # keep the LP bounded: the objective must not reward growing this variable
            if (sense > 0 and obj > 0) or (sense < 0 and obj < 0):
                obj = -obj
        lpcols.append({"obj": fstr(obj), "lo": fstr(lo), "up": up, "col": sv_json(cols[j])})
    ops = [["SOLVE"]]
    ncur = n
    for _ in range(rng.randint(1, 3)):
        ops.append(["TIMES", sv_json(gen_rhs(rng, m, "R", rng.choice(["unit", "sparse", "dense"])))])
    for _ in range(rng.randint(0, 2)):
        # modify the LP, then query without and with a new solve: the cached factorization must not be reused
        j = rng.randrange(n)
        i = rng.randrange(m)
        if ncur >= 2 and rng.random() < 0.4:
            # remove a column that is not the last one: the last column takes its number, a cached factorization and its
            # index array must follow (or be dropped)
            ops.append(["RMCOL", rng.randrange(ncur - 1)])
            ncur -= 1
        else:
            ops.append(["CHGELEM", i, min(j, ncur - 1), fstr(rq(rng))])
        ops.append(["QUERY"])
        ops.append(["TIMES", sv_json(gen_rhs(rng, m, "R"))])
        if rng.random() < 0.6:
            ops.append(["SOLVE"])
            ops.append(["TIMES", sv_json(gen_rhs(rng, m, "R"))])
    return {"kind": "LP", "m": m, "n": n, "sense": sense, "rows": rows, "cols": lpcols, "ops": ops, "family": "lp-ints" if ints else "lp"}


def lp_text(cid, c):
    out = ["LP %s %d %d %d" % (cid, c["m"], c["n"], c["sense"])]
    for i, (l, r) in enumerate(c["rows"]):
        out.append("ROW %d %s %s" % (i, l, r))
    for j, col in enumerate(c["cols"]):
        out.append("LPCOL %d %s %s %s %s" % (j, col["obj"], col["lo"], col["up"], svtext("R", col["col"])))
    for op in c["ops"]:
        if op[0] == "TIMES":
            out.append("TIMES " + svtext("R", op[1]))
        elif op[0] == "CHGELEM":
            out.append("CHGELEM %d %d %s" % (op[1], op[2], op[3]))
        elif op[0] == "RMCOL":
            out.append("RMCOL %d" % op[1])
        else:
            out.append(op[0])
    return out


def walk_lp(ck, cid, c, obs, Q, pending):
    m, n = c["m"], c["n"]
    cols = [dense(sv_load(col["col"]), m) for col in c["cols"]]

    def viol(sig, what, extra=None):
        pending.append((None, sig, what, dict(extra or {}, case=c, case_id=cid)))

    pos = 0
    bname = None
    state = {"ok": False}
    nq = 0
    for op in c["ops"]:
        if pos >= len(obs):
            viol("short-output", "fewer observations than operations in LP case %s" % cid)
            return
        line = obs[pos]
        if " EXC " in line or " STDEXC " in line:
            viol("exception:LP:%s" % op[0], "operation %s raised: %s" % (op[0], line[:200]), {"observed": line})
            return
        if op[0] == "CHGELEM":
            pos += 1
            cols[op[2]][op[1]] = fparse(op[3])
            state["ok"] = False
            continue
        if op[0] == "RMCOL":
            pos += 1
            cols[op[1]] = cols[-1]
            cols.pop()
            state["ok"] = False
            continue
        if op[0] in ("SOLVE", "QUERY"):
            cmd, d = parse_obs("R", line)
            pos += 1
            state["ok"] = False
            ck.count("lp:%s:status=%s" % (op[0], d.get("status", "-")))
            # the rational LP as the user sees it
            rcols = []
            while pos < len(obs) and obs[pos].startswith("RCOL "):
                t = obs[pos].split()
                v = [F(0)] * m
                for k in range(int(t[2])):
                    v[int(t[3 + 2 * k])] = fparse(t[4 + 2 * k])
                rcols.append(v)
                pos += 1
            if rcols != cols:
                viol("lp-columns-differ", "the rational LP seen through colVectorRational differs from the LP that was built / modified (case %s)" % cid,
                     {"observed": [[fstr(v) for v in col] for col in rcols]})
                return
            if d.get("bind", "none") == "none":
                ck.count("lp:%s:no-basis-inverse" % op[0])
                if op[0] == "SOLVE" and d.get("status") == "1" and d.get("hasBasis") == "1":
                    # decide with the reference whether the optimal basis could be factorized: unknown bind -> only count
                    ck.count("lp:optimal-but-no-rational-factorization")
                continue
            bind = [int(x) for x in d["bind"].split(",")]
            if len(bind) != m:
                viol("bad-bind", "getBasisIndRational returned %d entries for %d rows" % (len(bind), m), {"observed": line})
                return
            # basis matrix by the extracted basis_matrix from the rational LP; reference inverse by the untrusted elimination
            nq += 1
            bname = "LB"
            Q.matr("LC", m, cols)
            Q.raw("BASIS %s %d LC %s" % (bname, m, " ".join(str(b) for b in bind)))
            try:
                bm = [cols[b] if b >= 0 else [F(int(i == -1 - b)) for i in range(m)] for b in bind]
            except IndexError:
                viol("bad-bind", "getBasisIndRational returned an index outside the LP: %s" % d["bind"], {"observed": line})
                return
            st, ref = invert(bm)
            rows_obs, cols_obs = [], []
            while pos < len(obs) and (obs[pos].startswith("INVROW ") or obs[pos].startswith("INVCOL ")):
                cmd2, d2 = parse_obs("R", obs[pos])
                t = obs[pos].split()
                (rows_obs if cmd2 == "INVROW" else cols_obs).append((int(t[1]), d2.get("ret"), d2.get("v", []), obs[pos]))
                pos += 1
            if st != "regular":
                Q.vec("kv", ref)
                Q.q(("cert", cid + "/%d" % nq, "singular"), "SINGULAR", bname, "kv")
                if any(r[1] == "1" for r in rows_obs + cols_obs):
                    viol("inverse-of-singular-basis", "basis-inverse rows/columns were returned for a singular basis matrix", {"observed": line})
                ck.count("lp:singular-basis-after-modification")
                continue
            N, dd = scale_inverse(ref, 1)
            Q.mat("N", N)
            Q.q(("cert", cid, "lp-basis"), "REGULAR", bname, "N", dd)
            state["ok"] = True
            ck.count("lp:basis-with-%d-slacks" % min(3, sum(1 for b in bind if b < 0)))
            for (r, ret, v, l) in rows_obs:
                if ret != "1" or len(v) != m:
                    viol("inverse-row-unavailable", "getBasisInverseRowRational failed on a regular basis: %s" % l[:100], {"observed": l})
                    continue
                Q.vec("x", v)
                Q.q(("solve", cid, "INVROW", op[0], "row %d" % r, l, c), "INVROW", bname, r, "x")
                ck.evaluated((cid, pos, "r", r))
            for (cc, ret, v, l) in cols_obs:
                if ret != "1" or len(v) != m:
                    viol("inverse-col-unavailable", "getBasisInverseColRational failed on a regular basis: %s" % l[:100], {"observed": l})
                    continue
                Q.vec("x", v)
                Q.q(("solve", cid, "INVCOL", op[0], "column %d" % cc, l, c), "INVCOL", bname, cc, "x")
                ck.evaluated((cid, pos, "c", cc))
            continue
        if op[0] == "TIMES":
            cmd, d = parse_obs("R", line)
            pos += 1
            if "skipped" in d or not state["ok"]:
                continue
            if d.get("ret") != "1" or len(d.get("v", [])) != m:
                viol("inverse-times-vec-unavailable", "getBasisInverseTimesVecRational failed on a regular basis: %s" % line[:100], {"observed": line})
                continue
            Q.vec("x", d["v"])
            Q.vec("b", dense(sv_load(op[1]), m))
            Q.q(("solve", cid, "TIMES", "lp", "solution", line, c), "SOLVER", bname, "x", "b")
            ck.evaluated((cid, pos, "t"))
    ck.count("family:" + c["family"])
