#!/usr/bin/env python3
"""C06 - modifying an LP in place equals building the modified LP from scratch.

prove (Properties_C06: mirrored row/column files, refinement to a dense LP, renumbering after removal, invalidation
of cached solutions - by induction over arbitrary operation lists) + differential correspondence of the extracted
model with SoPlexBase<double> on random operation histories under sampled settings; at every optimize the solve of
the modified object is compared with a newly constructed default solver that is given the reported LP."""
import json
import math
import os
import sys
from fractions import Fraction

sys.path.insert(0, os.path.dirname(os.path.dirname(os.path.abspath(__file__))))
import vlib

HARNESSES = ["C06"]
MODEL = True

INF = 1e100
ST = {-15: "ERROR", -14: "NO_RATIOTESTER", -13: "NO_PRICER", -12: "NO_SOLVER", -11: "NOT_INIT", -10: "ABORT_EXDECOMP", -9: "ABORT_DECOMP",
      -8: "ABORT_CYCLING", -7: "ABORT_TIME", -6: "ABORT_ITER", -5: "ABORT_VALUE", -4: "SINGULAR", -3: "NO_PROBLEM", -2: "REGULAR",
      -1: "RUNNING", 0: "UNKNOWN", 1: "OPTIMAL", 2: "UNBOUNDED", 3: "INFEASIBLE", 4: "INForUNBD", 5: "OPTIMAL_UNSCALED_VIOLATIONS"}


def dy(x):
    m, e = vlib.dyadic(float(x))
    return "%d:%d" % (m, e)


def undy(t):
    if t in ("inf", "-inf", "nan"):
        return float(t)
    m, e = t.split(":")
    try:
        return math.ldexp(int(m), int(e))
    except OverflowError:
        return math.inf if int(m) > 0 else -math.inf


def canon(t):
    """values at or beyond +-1e100 all denote an infinite bound"""
    v = undy(t)
    if v >= INF:
        return "inf"
    if v <= -INF:
        return "-inf"
    return t


# --------------------------------------------------------------------------------------------------------
# generator: keeps a shadow of the dimensions and of the sides / bounds (only to stay inside the documented domain:
# valid indices, lower <= upper, lhs <= rhs); the prediction of the LP is the extracted Coq model's job
# --------------------------------------------------------------------------------------------------------
class Gen:
    def __init__(self, rng, maxdim=6, whitebox=False, scaled=False, risky=False):
        self.r = rng
        self.maxdim = maxdim
        self.whitebox = whitebox
        self.scaled = scaled          # settings scale persistently: after the first optimize the LP is stored scaled
        self.risky = risky            # allow the patterns of recorded findings (they end the comparison of a history)
        self.solved = False
        self.lhs, self.rhs, self.lo, self.up = [], [], [], []

    # ---- values
    def coef(self):
        r = self.r
        k = r.randrange(20)
        if k == 0:
            return 0.0
        if k == 1:
            return r.choice([0.5, -0.5, 1.5, -2.25, 0.125, 3.75])
        v = r.randint(1, 4)
        return float(v if r.random() < 0.65 else -v)

    def objv(self):
        r = self.r
        if r.random() < 0.1:
            return r.choice([0.5, -1.5, 0.25])
        return float(r.randint(-3, 3))

    def side_pair(self):
        r = self.r
        k = r.random()
        if k < 0.25:
            lo = -INF
        elif k < 0.85:
            lo = float(r.randint(-5, 0))
        else:
            lo = float(r.randint(1, 2))
        k = r.random()
        if k < 0.25:
            hi = INF
        elif k < 0.4 and lo > -INF:
            hi = lo
        else:
            hi = float(r.randint(int(max(lo, 0)) if lo > -INF else 0, 6))
        return lo, hi

    def bound_pair(self):
        r = self.r
        k = r.random()
        if k < 0.1:
            lo = -INF
        elif k < 0.7:
            lo = 0.0
        else:
            lo = float(r.randint(-3, 1))
        k = r.random()
        if k < 0.15:
            hi = INF
        elif k < 0.25 and lo > -INF:
            hi = lo
        else:
            hi = float(r.randint(int(max(lo, 0)) if lo > -INF else 0, 5)) + (0.5 if r.random() < 0.1 else 0.0)
        return lo, hi

    def vec(self, dim, grow, allow_empty=True):
        """sparse vector with distinct indices below dim (+ grow implicit new ones)"""
        r = self.r
        if self.scaled and self.solved and not self.risky:
            grow = 0                  # DESIGN.md section 9 item 20
        top = dim + (grow if r.random() < 0.25 else 0)
        if top <= 0:
            return []
        k = r.randint(0 if allow_empty else 1, min(top, 4))
        idx = r.sample(range(top), k)
        if r.random() < 0.5:
            idx.sort()
        return [(j, self.coef()) for j in idx]

    @staticmethod
    def vs(v):
        return "%d %s" % (len(v), " ".join("%d %s" % (j, dy(x)) for j, x in v)) if v else "0"

    # ---- shadow updates
    def _grow_cols(self, v):
        need = max([j + 1 for j, x in v if x != 0.0], default=0)
        while len(self.lo) < need:
            self.lo.append(0.0)
            self.up.append(INF)

    def _grow_rows(self, v):
        need = max([i + 1 for i, x in v if x != 0.0], default=0)
        while len(self.lhs) < need:
            self.lhs.append(0.0)
            self.rhs.append(INF)

    @staticmethod
    def _rm1(lst, i):
        lst[i] = lst[-1]
        lst.pop()

    def row(self):
        m, n = len(self.lhs), len(self.lo)
        a, b = self.side_pair()
        v = self.vec(n, 2 if n < self.maxdim else 0)
        return a, b, v

    def col(self):
        m, n = len(self.lhs), len(self.lo)
        a, b = self.bound_pair()
        v = self.vec(m, 2 if m < self.maxdim else 0)
        return self.objv(), a, b, v

    def op(self):
        """one random valid operation (text) or None"""
        r = self.r
        m, n = len(self.lhs), len(self.lo)
        k = r.randrange(100)
        if self.whitebox and r.random() < 0.06:
            return "XU"
        small = m < 2 or n < 2
        if small and k >= 30 and r.random() < 0.35:
            k = r.randrange(15)
        if k < 5:
            if m >= self.maxdim + 2:
                return None
            a, b, v = self.row()
            self.lhs.append(a)
            self.rhs.append(b)
            self._grow_cols(v)
            return "AR %s %s %s" % (dy(a), dy(b), self.vs(v))
        if k < 8:
            c = r.randint(0, 3)
            if m + c > self.maxdim + 2:
                return None
            parts = []
            for _ in range(c):
                a, b, v = self.row()
                self.lhs.append(a)
                self.rhs.append(b)
                self._grow_cols(v)
                parts.append("%s %s %s" % (dy(a), dy(b), self.vs(v)))
            return "ARS %d %s" % (c, " ".join(parts))
        if k < 12:
            if n >= self.maxdim + 2:
                return None
            o, a, b, v = self.col()
            self.lo.append(a)
            self.up.append(b)
            self._grow_rows(v)
            return "AC %s %s %s %s" % (dy(o), dy(a), dy(b), self.vs(v))
        if k < 15:
            c = r.randint(0, 3)
            if n + c > self.maxdim + 2:
                return None
            parts = []
            for _ in range(c):
                o, a, b, v = self.col()
                self.lo.append(a)
                self.up.append(b)
                self._grow_rows(v)
                parts.append("%s %s %s %s" % (dy(o), dy(a), dy(b), self.vs(v)))
            return "ACS %d %s" % (c, " ".join(parts))
        if k < 18:
            if m == 0:
                return None
            i = r.randrange(m)
            a, b = self.side_pair()
            v = self.vec(n, 0)
            self.lhs[i], self.rhs[i] = a, b
            return "CR %d %s %s %s" % (i, dy(a), dy(b), self.vs(v))
        if k < 21:
            if n == 0:
                return None
            j = r.randrange(n)
            a, b = self.bound_pair()
            v = self.vec(m, 0)
            self.lo[j], self.up[j] = a, b
            return "CC %d %s %s %s %s" % (j, dy(self.objv()), dy(a), dy(b), self.vs(v))
        if k < 24:                       # lhs single
            if m == 0:
                return None
            i = r.randrange(m)
            a, _ = self.side_pair()
            if a > self.rhs[i]:
                a = self.rhs[i] if self.rhs[i] < INF else 0.0
            self.lhs[i] = a
            return "L1 %d %s" % (i, dy(a))
        if k < 27:
            if m == 0:
                return None
            i = r.randrange(m)
            _, b = self.side_pair()
            if b < self.lhs[i]:
                b = self.lhs[i] if self.lhs[i] > -INF else 0.0
            self.rhs[i] = b
            return "R1 %d %s" % (i, dy(b))
        if k < 30:
            if m == 0:
                return None
            i = r.randrange(m)
            a, b = self.side_pair()
            self.lhs[i], self.rhs[i] = a, b
            return "G1 %d %s %s" % (i, dy(a), dy(b))
        if k < 33:
            if n == 0:
                return None
            j = r.randrange(n)
            a, _ = self.bound_pair()
            if a > self.up[j]:
                a = self.up[j] if self.up[j] < INF else 0.0
            self.lo[j] = a
            return "W1 %d %s" % (j, dy(a))
        if k < 36:
            if n == 0:
                return None
            j = r.randrange(n)
            _, b = self.bound_pair()
            if b < self.lo[j]:
                b = self.lo[j] if self.lo[j] > -INF else 0.0
            self.up[j] = b
            return "U1 %d %s" % (j, dy(b))
        if k < 39:
            if n == 0:
                return None
            j = r.randrange(n)
            a, b = self.bound_pair()
            self.lo[j], self.up[j] = a, b
            return "B1 %d %s %s" % (j, dy(a), dy(b))
        if k < 43:
            if n == 0:
                return None
            return "O1 %d %s" % (r.randrange(n), dy(self.objv()))
        if k < 49 and k >= 43 and self.scaled and self.solved and not self.risky:
            # the vector change functions scale infinite entries of a persistently scaled LP (recorded finding)
            noinf = True
        else:
            noinf = False
        if k < 45:                       # vector versions
            ps = [self.side_pair() for _ in range(m)]
            if noinf:
                ps = [(a if a > -INF else -4.0, b if b < INF else 6.0) for a, b in ps]
            c = r.randrange(3)
            if c == 0:
                new = [min(p[0], self.rhs[i]) if p[0] <= self.rhs[i] else (self.rhs[i] if self.rhs[i] < INF else 0.0) for i, p in enumerate(ps)]
                self.lhs = new
                return "LV %d %s" % (m, " ".join(dy(x) for x in new))
            if c == 1:
                new = [p[1] if p[1] >= self.lhs[i] else (self.lhs[i] if self.lhs[i] > -INF else 0.0) for i, p in enumerate(ps)]
                self.rhs = new
                return "RV %d %s" % (m, " ".join(dy(x) for x in new))
            self.lhs = [p[0] for p in ps]
            self.rhs = [p[1] for p in ps]
            return "GV %d %s %s" % (m, " ".join(dy(x) for x in self.lhs), " ".join(dy(x) for x in self.rhs))
        if k < 47:
            ps = [self.bound_pair() for _ in range(n)]
            if noinf:
                ps = [(a if a > -INF else -3.0, b if b < INF else 5.0) for a, b in ps]
            c = r.randrange(3)
            if c == 0:
                new = [p[0] if p[0] <= self.up[j] else (self.up[j] if self.up[j] < INF else 0.0) for j, p in enumerate(ps)]
                self.lo = new
                return "WV %d %s" % (n, " ".join(dy(x) for x in new))
            if c == 1:
                new = [p[1] if p[1] >= self.lo[j] else (self.lo[j] if self.lo[j] > -INF else 0.0) for j, p in enumerate(ps)]
                self.up = new
                return "UV %d %s" % (n, " ".join(dy(x) for x in new))
            self.lo = [p[0] for p in ps]
            self.up = [p[1] for p in ps]
            return "BV %d %s %s" % (n, " ".join(dy(x) for x in self.lo), " ".join(dy(x) for x in self.up))
        if k < 49:
            return "OV %d %s" % (n, " ".join(dy(self.objv()) for _ in range(n)))
        if k < 57:
            if m == 0 or n == 0:
                return None
            x = self.coef()
            c = r.randrange(12)
            if c == 0:
                x = 1e-17
            elif c == 1:
                x = -1e-16
            elif c == 2:
                x = 0.0
            return "E %d %d %s" % (r.randrange(m), r.randrange(n), dy(x))
        if k < 61:
            if m == 0:
                return None
            i = r.randrange(m)
            self._rm1(self.lhs, i)
            self._rm1(self.rhs, i)
            return "RR %d" % i
        if k < 65:
            if n == 0:
                return None
            j = r.randrange(n)
            self._rm1(self.lo, j)
            self._rm1(self.up, j)
            return "RC %d" % j
        if k < 73:                       # multi-removal of rows
            return self.multi_remove(True)
        if k < 81:
            return self.multi_remove(False)
        if k < 82:
            self.lhs, self.rhs, self.lo, self.up = [], [], [], []
            return "CL"
        if k < 85:
            return "SS %d" % r.choice([1, -1])
        if k < 94:
            if n == 0:
                return None           # an LP without columns is reported as ERROR / NO_PROBLEM depending on the settings
            self.solved = True
            return "OPT"
        if k < 96:
            return "GB"
        if k < 98:
            return "SB %d" % r.randrange(2)
        if k < 99:
            return "CB"
        return "XU" if self.whitebox else "GB"


    def multi_remove(self, rows):
        r = self.r
        dim = len(self.lhs) if rows else len(self.lo)
        if dim == 0 and r.random() < 0.8:
            return None
        kind = r.randrange(3)
        p_rm = r.choice([0.0, 0.2, 0.4, 0.7, 1.0])
        if kind == 0:                    # perm array: negative = remove, anything else = keep
            perm = []
            for i in range(dim):
                if r.random() < p_rm:
                    perm.append(r.choice([-1, -1, -2, -7]))
                else:
                    perm.append(r.choice([i, i, 0, 5, 99]))
            gone = [p < 0 for p in perm]
            txt = "%s %d %s" % ("RRP" if rows else "RCP", dim, " ".join(str(p) for p in perm))
        elif kind == 1:                  # index list (repetitions allowed)
            idx = [i for i in range(dim) if r.random() < p_rm]
            if idx and r.random() < 0.2:
                idx.append(r.choice(idx))
            r.shuffle(idx)
            gone = [i in idx for i in range(dim)]
            txt = "%s %d %s %d" % ("RRI" if rows else "RCI", len(idx), " ".join(str(i) for i in idx), r.randrange(2))
        else:
            if dim == 0:
                return None
            a = r.randrange(dim)
            b = r.randrange(a, dim)
            gone = [a <= i <= b for i in range(dim)]
            txt = "%s %d %d %d" % ("RRG" if rows else "RCG", a, b, r.randrange(2))
        txt = " ".join(txt.split())
        if rows:
            self.lhs = [x for x, g in zip(self.lhs, gone) if not g]
            self.rhs = [x for x, g in zip(self.rhs, gone) if not g]
        else:
            self.lo = [x for x, g in zip(self.lo, gone) if not g]
            self.up = [x for x, g in zip(self.up, gone) if not g]
        return txt

    def history(self, nops):
        ops = []
        # start from a random LP built in one or two calls
        r = self.r
        if r.random() < 0.85:
            for _ in range(r.randint(1, 3)):
                o = None
                while o is None:
                    self_k = r.random()
                    o = self._bulk(self_k < 0.5)
                ops.append(o)
        while len(ops) < nops:
            o = self.op()
            if o is not None:
                ops.append(o)
        return ops

    def _bulk(self, rows):
        r = self.r
        c = r.randint(1, 4)
        parts = []
        for _ in range(c):
            if rows:
                if len(self.lhs) >= self.maxdim:
                    break
                a, b, v = self.row()
                self.lhs.append(a)
                self.rhs.append(b)
                self._grow_cols(v)
                parts.append("%s %s %s" % (dy(a), dy(b), self.vs(v)))
            else:
                if len(self.lo) >= self.maxdim:
                    break
                o, a, b, v = self.col()
                self.lo.append(a)
                self.up.append(b)
                self._grow_rows(v)
                parts.append("%s %s %s %s" % (dy(o), dy(a), dy(b), self.vs(v)))
        return "%s %d %s" % ("ARS" if rows else "ACS", len(parts), " ".join(parts))


def settings(rng):
    return {"scaler": rng.randrange(7), "persist": rng.randrange(2), "simplifier": rng.choice([0, 3, 3, 1]),
            "rep": rng.choice([0, 1, 2]), "sense": rng.choice([1, -1])}


# --------------------------------------------------------------------------------------------------------
# running a batch of cases through harness and model
# --------------------------------------------------------------------------------------------------------
def fields(line):
    """'OP k=v k=v ... | k=v ...' -> (op, {k: v} before the bar, {k: v} after)"""
    if " | " in line:
        a, b = line.split(" | ", 1)
    else:
        a, b = line, ""
    t = a.split()
    d1 = dict(x.split("=", 1) for x in t[1:] if "=" in x)
    d2 = dict(x.split("=", 1) for x in b.split() if "=" in x)
    flags = [x for x in t[1:] if "=" not in x]
    return (t[0] if t else ""), d1, d2, flags


def blocks(out):
    res, cur = {}, None
    for l in out.splitlines():
        if l.startswith("CASE "):
            cur = []
            res[int(l.split()[1])] = cur
        elif cur is not None:
            cur.append(l)
    return res


class Runner:
    def __init__(self, exe, model):
        self.exe, self.model = exe, model
        self.n = 0
        os.makedirs(os.path.join(vlib.BUILD, "run"), exist_ok=True)

    def _tmp(self, tag):
        self.n += 1
        return os.path.join(vlib.BUILD, "run", "C06.%d.%d.%s" % (os.getpid(), self.n, tag))

    def run(self, cases, timeout=3000):
        """cases: list of dicts {set, ops}.  Returns (hlines, mlines, crashed) per case index."""
        hb = {}
        crashed = {}
        start = 0
        while start < len(cases):
            hf = self._tmp("h")
            with open(hf, "w") as f:
                for k in range(start, len(cases)):
                    s = cases[k]["set"]
                    f.write("CASE %d %d %d %d %d %d\n" % (k, s["scaler"], s["persist"], s["simplifier"], s["rep"], s["sense"]))
                    for o in cases[k]["ops"]:
                        f.write(o + "\n")
            rc, out, err = vlib.sh([self.exe, "run", hf], timeout=timeout)
            os.remove(hf)
            b = blocks(out)
            hb.update(b)
            if rc == 0:
                break
            last = max(b) if b else start
            crashed[last] = (rc, err[-1500:])
            start = last + 1
        # model input with the solver's answers as oracle tokens
        mf = self._tmp("m")
        with open(mf, "w") as f:
            for k, c in enumerate(cases):
                f.write("CASE %d %d %s %s\n" % (k, c["set"]["sense"], dy(INF), dy(1e-16)))
                hl = hb.get(k, [])
                for j, o in enumerate(c["ops"]):
                    t = o.split()
                    if t[0] in ("OPT", "CB"):
                        if j + 1 >= len(hl):
                            break
                        _, d1, _, _ = fields(hl[j + 1])
                        if t[0] == "OPT":
                            o = "OPT %s %s" % (d1.get("st", "0"), d1.get("hs", "0"))
                        else:
                            o = "CB %s" % d1.get("st", "0")
                    f.write(o + "\n")
        rc2, mout, merr = vlib.sh([self.model, mf], timeout=timeout)
        os.remove(mf)
        mb = blocks(mout)
        return hb, mb, crashed, (rc2, merr[-500:])


LISTKEYS = ("obj", "lo", "up", "lhs", "rhs")
CMPKEYS = ("m", "n", "nnz", "sense", "obj", "lo", "up", "lhs", "rhs", "A", "AT", "hp", "hd", "hs", "st", "perm")


def same_list(a, b):
    if a == b:
        return True
    x, y = a.split(","), b.split(",")
    if len(x) != len(y):
        return False
    return all(p == q or (p and q and canon(p) == canon(q)) for p, q in zip(x, y))


def grows(o, m, n):
    """does an add operation mention a row/column that does not exist yet?"""
    t = o.split()
    name = t[0]
    if name not in ("AR", "ARS", "AC", "ACS"):
        return False
    dim = n if name in ("AR", "ARS") else m
    p = 1
    cnt = 1
    if name in ("ARS", "ACS"):
        cnt = int(t[1])
        p = 2
    for _ in range(cnt):
        p += 2 if name in ("AR", "ARS") else 3
        k = int(t[p])
        p += 1
        for q in range(k):
            if int(t[p]) >= dim and undy(t[p + 1]) != 0.0:
                return True
            p += 2
    return False


def judge(case, hl, ml, crashed):
    """compare one case; returns list of (signature, what, upto) where upto = number of ops needed to reproduce"""
    res = []
    taint = {"desync": False, "unl": False}

    def add(item):
        """a history that has passed through the situation of a recorded defect may be corrupted by it: mark what is found later"""
        sig, what, upto = item
        if taint["desync"] and not sig.startswith("sense-desync"):
            sig = "sense-desync:" + sig
        elif taint["unl"] and not sig.startswith(("unloaded:", "sense-desync")):
            sig = "unloaded:" + sig
        res.append((sig, what, upto))
    ops = ["init"] + case["ops"]
    prev_bv = "none"
    prev = ({}, {})
    desync = False
    grew_scaled = False  # an add call created rows/columns implicitly while the LP was persistently scaled (item 20)
    freed = False        # a row or column became free (both sides infinite) since the last optimize
    infvec = False       # a vector change with an infinite entry was applied to a persistently scaled LP
    intscale = case["set"]["persist"] == 0 and case["set"]["scaler"] != 0 and case["set"]["simplifier"] == 0
    for j, o in enumerate(ops):
        name = o.split()[0]
        if j >= len(hl):
            if crashed is not None:
                unl = prev[1].get("ld") == "0"       # the real LP is a plain SPxLPBase outside the solver
                add(("%s:%s%s" % ("crash-unloaded" if unl else "crash", name, (":scaler%d" % case["set"]["scaler"]) if (name == "OPT" and not unl) else ""), "the implementation crashed (rc=%s) in %s: %s" % (crashed[0], o[:120], crashed[1][-300:]), j))
            else:
                add(("short-output", "harness printed fewer observations than operations", j))
            break
        if j >= len(ml):
            add(("model-short-output", "model printed fewer observations than operations", j))
            break
        hop, h1, h2, hflags = fields(hl[j])
        mop, m1, _, mflags = fields(ml[j])
        if "INVALID-OP" in mflags:
            add(("generator-invalid-op", "generated operation outside the documented domain: %s" % o[:100], j))
            break
        if "unmodelled" in mflags or "badop" in hflags:
            add(("unmodelled-op", "operation not understood: %s" % o[:100], j))
            break
        if "EXC" in h1:
            unl = prev[1].get("ld") == "0"
            add((("exception-unloaded:" if (unl or prev_bv.split("(")[0] in ("dim", "cnt")) else "exception:") + name, "the implementation threw '%s' in %s" % (bytes.fromhex(h1["EXC"]).decode("latin-1"), o[:120]), j))
            break
        diff = []
        for key in CMPKEYS:
            a, b = h1.get(key), m1.get(key)
            if a == b:
                continue
            if key in LISTKEYS and a is not None and b is not None and same_list(a, b):
                continue
            diff.append(key)
        if diff:
            fl = [d for d in diff if d in ("hp", "hd", "hs", "st")]
            if fl and len(fl) == len(diff):
                sig = "flags-mismatch:%s:%s" % (name, ",".join(fl))
            elif diff == ["perm"]:
                sig = "perm-mismatch:" + name
            elif (set(diff) <= {"nnz", "A", "AT", "obj", "lo", "up", "lhs", "rhs"} and prev[1].get("sc") == "1"
                  and grows(o, int(prev[0].get("m", "0")), int(prev[0].get("n", "0")))):
                # DESIGN.md section 9 item 20
                sig = "implicit-growth-scaled:" + name
            elif name in ("OPT", "XU") and ("n" in diff or "m" in diff):
                # optimize() (or the white-box copy) itself changed the LP: vectors are lost when the LP is copied / loaded
                sig = "vectors-lost-on-copy:%s:ld%s" % (name, prev[1].get("ld", "?"))
            elif grew_scaled:
                sig = "implicit-growth-scaled:later:" + name
            else:
                sig = "lp-mismatch:%s:sc%s:ld%s" % (name, h2.get("sc", "?"), prev[1].get("ld", "?"))
            add((sig, "after %s the accessors and the model disagree in %s\n impl : %s\n model: %s" % (
                o[:100], diff, " ".join("%s=%s" % (d, h1.get(d)) for d in diff), " ".join("%s=%s" % (d, m1.get(d)) for d in diff)), j))
            break
        # property oracles on the implementation's own observations
        if h1.get("sense") != h1.get("lsense") and not desync:
            add(("sense-desync:" + name, "after %s the LP inside the solver has sense %s while OBJSENSE is %s" % (o[:60], h1.get("lsense"), h1.get("sense")), j))
        desync = h1.get("sense") != h1.get("lsense")
        if desync:
            taint["desync"] = True
        if h2.get("ld") == "0":
            taint["unl"] = True
        bv = h2.get("bv", "none")
        if bv not in ("ok", "none") and prev_bv in ("ok", "none"):
            kind = bv.split("(")[0]
            # dim / cnt: wrong dimension or wrong number of basic variables (C06); undef / bnd / fix: a status that does not fit
            # the bounds of its variable (validity in the sense of C04)
            cls = "basis-invalid" if kind in ("dim", "cnt") else "basis-status"
            if desync:
                cls = "sense-desync:" + cls
            add(("%s:%s:%s:ld%s%s" % (cls, kind, name, h2.get("ld"), ":intscale" if (intscale and name == "OPT") else ""), "after %s hasBasis() is true but the reported basis is invalid: %s" % (o[:100], bv), j))
        prev_bv = bv
        for key in ("vg", "cf", "rt"):
            if h2.get(key, "ok") != "ok":
                kind = "".join(ch for ch in h2[key].split("(")[0] if not ch.isdigit() and ch != ",")
                add(("getter-inconsistent:%s:%s:sc%s" % (key, kind, h2.get("sc")), "after %s two accessors of the same datum disagree (%s): %s" % (o[:100], key, h2[key][:300]), j))
        if name == "OPT":
            a = int(h1.get("ost", "0"))
            oa = undy(h1.get("oobj", "0:0"))

            def differs(tag):
                b = int(h1.get(tag + "st", "0"))
                ob = undy(h1.get(tag + "obj", "0:0"))
                if a != b:
                    return "status:%s/%s" % (ST.get(a, a), ST.get(b, b)), "returns %s" % ST.get(b, b)
                if a == 1 and not (abs(oa - ob) <= 1e-6 * max(1.0, abs(oa), abs(ob))):
                    return "value", "returns objective %r" % ob
                return None
            dg_, dp_, df_, dq_ = differs("g"), differs("p"), differs("f"), differs("q")
            mine = "%s%s" % (ST.get(a, a), (" with objective %r" % oa) if a == 1 else "")
            if dg_ and dp_ and dq_:
                # no solver built from scratch agrees - not with the same settings, not without scaler and simplifier, not without
                # them in the same representation (the configuration the warm-started solve itself runs in): the history matters
                pre = "resolve"
                if a in (-8, -7, -6, -5):
                    pre = "resolve-abort"       # the warm-started solve gave up (cycling / limits): no verdict rather than a wrong one
                if desync:
                    pre = "sense-desync:" + pre
                elif infvec:
                    pre = "scaled-vector-inf:" + pre
                elif freed:
                    pre = "freed-nonbasic:" + pre
                add(("%s-%s" % (pre, dg_[0]), "optimize after the history returns %s; a new solver with the same settings given the reported LP %s, "
                            "a new solver without scaler and simplifier %s (in the same representation: %s)" % (mine, dg_[1], dp_[1], dq_[1]), j))
            elif dg_ or dp_ or df_ or dq_:
                # the in-place solve agrees with at least one solve from scratch: the answer depends on the settings, not on the history
                dd = dg_ or dp_ or df_ or dq_
                kind = dd[0]
                both = {ST.get(a, a)} | {kind.split("/")[-1]}
                if kind.startswith("status") and both <= {"INFEASIBLE", "UNBOUNDED", "INForUNBD"}:
                    kind = "status:infeasible-or-unbounded"
                add(("settings-dependent-%s" % kind, "optimize after the history returns %s, but new solvers given the reported LP disagree among "
                            "themselves: %s" % (mine, "; ".join("%s settings %s" % (tg, dd2[1]) for tg, dd2 in (("same", dg_), ("plain", dp_), ("default", df_), ("plain in the same representation", dq_)) if dd2)), j))
        if prev[1].get("sc") == "1" and grows(o, int(prev[0].get("m", "0")), int(prev[0].get("n", "0"))):
            grew_scaled = True
        if name in ("L1", "R1", "G1", "LV", "RV", "GV", "CR", "W1", "U1", "B1", "WV", "UV", "BV", "CC"):
            def nfree(d, a, b):
                x, y = d.get(a, "").split(","), d.get(b, "").split(",")
                return [i for i, (p, q) in enumerate(zip(x, y)) if p and q and canon(p) == "-inf" and canon(q) == "inf"]
            for a, b in (("lhs", "rhs"), ("lo", "up")):
                # only a variable that is in a stored basis can stay non-basic at a value it no longer has
                if set(nfree(h1, a, b)) - set(nfree(prev[0], a, b)) and prev[1].get("hb") == "1":
                    freed = True
            if name in ("LV", "RV", "GV", "WV", "UV", "BV") and prev[1].get("sc") == "1" and any(canon(x) in ("inf", "-inf") for x in o.split()[2:]):
                infvec = True
        prev = (h1, h2)
    return res


def systematic():
    """aimed at every entry point and every case split of the removal / replacement code: one call applied to a fixed
    4 x 4 LP, before and after a solve, under three settings"""
    d = dy
    base = ["ACS 4 %s %s %s 0 %s %s %s 0 %s %s %s 0 %s %s %s 0" % (d(1), d(0), d(4), d(-2), d(0), d(3), d(3), d(-1), d(2), d(0.5), d(0), d(5)),
            "ARS 4 %s %s 3 0 %s 1 %s 3 %s  %s %s 2 1 %s 2 %s  %s %s 4 0 %s 1 %s 2 %s 3 %s  %s %s 1 3 %s" % (
                d(-INF), d(6), d(1), d(2), d(-1), d(-4), d(8), d(3), d(1), d(-5), d(5), d(1), d(-1), d(2), d(1), d(0), d(INF), d(2))]
    ops = ["AR %s %s 2 1 %s 3 %s" % (d(-1), d(3), d(2), d(-1)), "AR %s %s 0" % (d(0), d(1)),
           "ARS 2 %s %s 1 0 %s %s %s 2 2 %s 3 %s" % (d(0), d(2), d(1), d(-3), d(3), d(1), d(1)), "ARS 0",
           "AC %s %s %s 2 0 %s 2 %s" % (d(1), d(0), d(2), d(1), d(-2)), "AC %s %s %s 0" % (d(-1), d(-1), d(1)),
           "ACS 2 %s %s %s 1 3 %s %s %s %s 0" % (d(1), d(0), d(1), d(2), d(0), d(0), d(2)), "ACS 0",
           "CR 1 %s %s 2 0 %s 3 %s" % (d(-2), d(2), d(1), d(1)), "CR 3 %s %s 0" % (d(0), d(0)), "CR 0 %s %s 4 3 %s 2 %s 1 %s 0 %s" % (d(-1), d(9), d(1), d(1), d(1), d(1)),
           "CC 2 %s %s %s 2 1 %s 3 %s" % (d(2), d(0), d(1), d(3), d(-1)), "CC 0 %s %s %s 0" % (d(0), d(-2), d(2)),
           "L1 1 %s" % d(-6), "L1 1 %s" % d(-INF), "L1 0 %s" % d(-3), "R1 1 %s" % d(9), "R1 1 %s" % d(INF), "R1 3 %s" % d(4),
           "G1 2 %s %s" % (d(-1), d(1)), "G1 2 %s %s" % (d(2), d(2)), "G1 0 %s %s" % (d(-INF), d(7)),
           "LV 4 %s %s %s %s" % (d(-7), d(-5), d(-6), d(-1)), "RV 4 %s %s %s %s" % (d(7), d(9), d(6), d(3)),
           "GV 4 %s %s %s %s %s %s %s %s" % (d(-1), d(-2), d(0), d(1), d(5), d(2), d(0), d(1)),
           "W1 2 %s" % d(-2), "W1 1 %s" % d(1), "U1 2 %s" % d(3), "U1 0 %s" % d(0), "B1 3 %s %s" % (d(1), d(1)), "B1 1 %s %s" % (d(-1), d(6)),
           "WV 4 %s %s %s %s" % (d(-1), d(0), d(-2), d(0)), "UV 4 %s %s %s %s" % (d(5), d(4), d(3), d(6)),
           "BV 4 %s %s %s %s %s %s %s %s" % (d(0), d(1), d(-1), d(0), d(1), d(1), d(2), d(3)),
           "O1 0 %s" % d(-1), "O1 3 %s" % d(0), "OV 4 %s %s %s %s" % (d(2), d(-1), d(0), d(1)),
           "E 0 0 %s" % d(5), "E 0 1 %s" % d(7), "E 0 0 %s" % d(0), "E 2 2 %s" % d(1e-17), "E 1 0 %s" % d(-1e-16), "E 3 0 %s" % d(0),
           "RR 0", "RR 1", "RR 3", "RC 0", "RC 2", "RC 3",
           "RRP 4 -1 0 0 0", "RRP 4 0 -1 9 -5", "RRP 4 -1 -1 -1 -1", "RRP 4 0 1 2 3", "RRP 4 7 7 -3 7",
           "RCP 4 -1 0 0 0", "RCP 4 0 -1 9 -5", "RCP 4 -1 -1 -1 -1", "RCP 4 0 1 2 3", "RCP 4 7 7 -3 7",
           "RRI 2 1 3 0", "RRI 2 3 1 1", "RRI 0 1", "RRI 2 2 2 1", "RRI 4 0 1 2 3 1",
           "RCI 2 1 3 0", "RCI 2 3 1 1", "RCI 0 1", "RCI 2 2 2 1", "RCI 4 0 1 2 3 1",
           "RRG 0 1 0", "RRG 3 3 1", "RRG 1 2 1", "RRG 0 3 1", "RCG 0 1 0", "RCG 3 3 1", "RCG 1 2 1", "RCG 0 3 1",
           "CL", "SS 1", "SS -1", "GB", "SB 0", "SB 1", "CB"]
    grow = ["AR %s %s 2 1 %s 5 %s" % (d(0), d(3), d(1), d(2)), "ARS 1 %s %s 1 4 %s" % (d(0), d(3), d(1)),
            "AC %s %s %s 2 0 %s 6 %s" % (d(1), d(0), d(2), d(1), d(-2)), "ACS 1 %s %s %s 1 4 %s" % (d(1), d(0), d(2), d(1))]
    cases = []
    for st in ((0, 0, 0, 0, 1), (2, 1, 1, 0, 1), (3, 0, 3, 2, -1), (6, 1, 0, 1, -1), (0, 0, 0, 2, 1), (0, 0, 0, 2, -1), (0, 0, 0, 1, -1)):
        sd = dict(zip(("scaler", "persist", "simplifier", "rep", "sense"), st))
        for pre in ([], ["OPT"]):
            for o in ops + (grow if not (pre and st[1] == 1 and st[0] != 0) else []):
                cases.append({"set": sd, "ops": base + pre + [" ".join(o.split()), "OPT"], "family": "systematic"})
    return cases


def worsening(rng, count):
    """solve, make the LP 'worse' for the objective (raise the costs of a covering LP, tighten its sides, or both), drop the
    basis and solve again on the SAME object: the second solve starts without a basis, so presolve runs a second time in an
    object that has already presolved a better LP - whatever the simplifier kept from the first run must not be used.  The
    from-scratch solver of the model's LP is the reference."""
    d = dy
    cases = []
    for _ in range(count):
        n, m = rng.randint(2, 5), rng.randint(2, 4)
        cols = [(rng.randint(1, 3), 0, rng.choice([INF, INF, 4, 6])) for _ in range(n)]
        rows = []
        for i in range(m):
            js = rng.sample(range(n), rng.randint(1, min(3, n)))
            rows.append((rng.randint(1, 3), [(j, rng.choice([1, 1, 2])) for j in sorted(js)]))
        base = ["ACS %d %s" % (n, " ".join("%s %s %s 0" % (d(c), d(lo), d(up)) for (c, lo, up) in cols)),
                "ARS %d %s" % (m, " ".join("%s %s %d %s" % (d(b), d(INF), len(es), " ".join("%d %s" % (j, d(a)) for j, a in es)) for (b, es) in rows))]
        k = rng.choice([2, 3, 10])
        worse = []
        w = rng.randrange(3)
        if w in (0, 2):
            worse.append("OV %d %s" % (n, " ".join(d(c * k) for (c, lo, up) in cols)))
        if w in (1, 2):
            worse.append("LV %d %s" % (m, " ".join(d(b * rng.choice([2, 2, 3])) for (b, es) in rows)))
        sd = {"scaler": rng.choice([0, 2, 2, 3]), "persist": rng.randrange(2), "simplifier": rng.choice([1, 1, 3]), "rep": rng.randrange(3), "sense": -1}
        cases.append({"set": sd, "ops": base + ["OPT"] + worse + ["CB", "OPT"] + (["CB", "OPT"] if rng.random() < 0.3 else []), "family": "worsening"})
    return cases


def fix_relax(rng, count):
    """branch-and-bound style histories: solve, fix one column at a value inside its bounds (index form), solve, relax the bound again through one
    of the change functions (index / vector form, lower / upper / both; a relaxed lower bound is often exactly 0), solve.  The basis status
    of the fixed column has to follow every step (P_FIXED while lower == upper only)."""
    d = dy
    cases = []
    for _ in range(count):
        n, m = rng.randint(2, 4), rng.randint(2, 4)
        cols = [(rng.choice([-3, -2, -1, 1, 2, 3]), 0, rng.choice([INF, 4, 6, 8])) for _ in range(n)]
        rows = []
        for i in range(m):
            js = rng.sample(range(n), rng.randint(1, min(3, n)))
            rows.append((rng.randint(4, 12), [(j, rng.choice([1, 1, 2])) for j in sorted(js)]))
        base = ["ACS %d %s" % (n, " ".join("%s %s %s 0" % (d(c), d(lo), d(up)) for (c, lo, up) in cols)),
                "ARS %d %s" % (m, " ".join("%s %s %d %s" % (d(-INF), d(b), len(es), " ".join("%d %s" % (j, d(a)) for j, a in es)) for (b, es) in rows))]
        j = rng.randrange(n)
        v = rng.choice([1, 2, 3])
        fix = "B1 %d %s %s" % (j, d(v), d(v))
        lo_after = [0] * n
        up_after = [c[2] for c in cols]
        kind = rng.randrange(6)
        if kind == 0:
            relax = ["WV %d %s" % (n, " ".join(d(x) for x in lo_after))]
        elif kind == 1:
            relax = ["W1 %d %s" % (j, d(0))]
        elif kind == 2:
            relax = ["UV %d %s" % (n, " ".join(d(v if k == j and up_after[k] == INF else up_after[k]) for k in range(n))), "WV %d %s" % (n, " ".join(d(x) for x in lo_after))]
        elif kind == 3:
            relax = ["BV %d %s %s" % (n, " ".join(d(x) for x in lo_after), " ".join(d(max(x, v)) for x in up_after))]
        elif kind == 4:
            relax = ["WV %d %s" % (n, " ".join(d(x if k != j else rng.choice([0, 0, 1, -1])) for k, x in enumerate(lo_after)))]
        else:
            relax = ["UV %d %s" % (n, " ".join(d(max(x, v)) for x in up_after))]
        sd = {"scaler": rng.choice([0, 2, 2, 3]), "persist": rng.randrange(2), "simplifier": rng.choice([0, 0, 1, 3]), "rep": rng.randrange(3),
              "sense": rng.choice([1, -1])}
        cases.append({"set": sd, "ops": base + ["OPT", fix, "OPT"] + relax + ["OPT"], "family": "fix-relax"})
    return cases


def main():
    ck = vlib.Check("C06", "proof")
    proved = ck.prove()
    try:
        exe = vlib.build_harness("C06")
    except vlib.BuildError as e:
        ck.violation("harness-build", "harness does not compile against the current tree: %s" % str(e)[-1500:], {"kind": "build"}, no_input=True)
        ck.finish()
    try:
        model = vlib.build_model("C06")
    except vlib.BuildError as e:
        ck.violation("model-build", "extracted model does not build: %s" % str(e)[-800:], {"kind": "extraction"}, no_input=True)
        ck.finish()
    rn = Runner(exe, model)

    cases = []
    if ck.args.replay:
        rp = json.load(open(ck.args.replay))
        if "case" in rp:
            cases.append(rp["case"])
    else:
        cdir = os.path.join(vlib.ROOT, "corpus", "C06")
        if os.path.isdir(cdir):
            for f in sorted(os.listdir(cdir)):
                if f.endswith(".json"):
                    c = json.load(open(os.path.join(cdir, f)))
                    c = {"set": c["set"], "ops": c["ops"], "family": "corpus:" + f}
                    cases.append(c)
        cases += systematic()
        cases += worsening(ck.rng, 60 if ck.tier == "quick" else 600)
        cases += fix_relax(ck.rng, 120 if ck.tier == "quick" else 1500)
        for c in cases:
            ck.count("family:" + c["family"].split(":")[0])
        ncases, nops = (2000, 25) if ck.tier == "quick" else (30000, 80)
        for c in range(ncases):
            wb = ck.rng.random() < 0.12
            st = settings(ck.rng)
            pre = []
            if ck.rng.random() < 0.06:
                # public-API way into the "real LP outside the solver" state: optimize() on the empty LP with a scaler but
                # neither persistent scaling nor simplifier ends with status ERROR and leaves the LP outside
                st.update({"scaler": ck.rng.randint(1, 6), "persist": 0, "simplifier": 0})
                pre = ["OPT"]
            g = Gen(ck.rng, maxdim=ck.rng.choice([3, 5, 6]), whitebox=wb, scaled=(st["persist"] == 1 and st["scaler"] != 0),
                    risky=ck.rng.random() < 0.15)
            cases.append({"set": st, "ops": pre + g.history(ck.rng.randint(4, nops)), "family": "whitebox" if wb else ("api-unloaded" if pre else "api")})
            ck.count("family:" + cases[-1]["family"])

    found = {}          # signature -> (what, case, upto)
    B = 400
    for b0 in range(0, len(cases), B):
        batch = cases[b0:b0 + B]
        hb, mb, crashed, mrc = rn.run(batch)
        if mrc[0] != 0:
            ck.violation("model-crash", "model runner failed rc=%d: %s" % mrc, {"kind": "model"}, no_input=True)
        for k, c in enumerate(batch):
            hl, ml = hb.get(k, []), mb.get(k, [])
            s = c["set"]
            ck.count("scaler:%d" % s["scaler"])
            ck.count("persist:%d" % s["persist"])
            ck.count("simplifier:%d" % s["simplifier"])
            ck.count("rep:%d" % s["rep"])
            for j, o in enumerate(c["ops"]):
                name = o.split()[0]
                ck.count("op:" + name)
                if j + 1 < len(hl):
                    _, h1, h2, _ = fields(hl[j + 1])
                    ck.evaluated((name, hl[j + 1].split(" | ")[0]), nontrivial=True)
                    ck.count("state:ld%s,sc%s,hb%s" % (h2.get("ld"), h2.get("sc"), h2.get("hb")))
                    if name == "OPT":
                        ck.count("solve:" + ST.get(int(h1.get("ost", "0")), "?"))
            for sig, what, upto in judge(c, hl, ml, crashed.get(k)):
                if "XU" in [o.split()[0] for o in c["ops"][:upto]]:
                    if sig in found or "wb:" + sig in found:
                        continue
                    # does the finding need the white-box operation?
                    c2 = {"set": c["set"], "ops": [("GB" if o.split()[0] == "XU" else o) for o in c["ops"][:upto]]}
                    if reproduces(rn, c2, sig) is not None:
                        c = c2
                    else:
                        sig = "wb:" + sig
                if sig not in found:
                    found[sig] = (what, c, upto)
            if b0 == 0 and k < 3:
                ck.sample({"set": c["set"], "ops": c["ops"][:6]})

    # shrink (delta debugging over operations) and report
    budget = [12 if ck.tier == "quick" else 60]
    for sig, (what, c, upto) in found.items():
        case = {"set": c["set"], "ops": c["ops"][:upto]}
        known = any(__import__("re").fullmatch(k["signature"], sig) for k in ck.known)
        if not known and budget[0] > 0 and not ck.args.replay and not sig.startswith(("generator-", "unmodelled", "model-")):
            budget[0] -= 1
            case = shrink(rn, case, sig, maxruns=120 if ck.tier == "quick" else 400)
        hb, mb, crashed, _ = rn.run([case])
        ck.violation(sig, what, {"case": case, "implementation": hb.get(0, []), "model": mb.get(0, []),
                                 "correspondence": "LPOpsModel.step vs SoPlexBase<double> real modification interface"},
                     no_input=sig.startswith(("generator-", "unmodelled", "model-")))

    ck.cov["families"] = "corpus (minimal histories of recorded findings and renumbering regressions), systematic (every entry point on a fixed 4x4 LP before/after a solve under 4 settings), api (random), api-unloaded (random, starting with optimize() on the empty LP which leaves the real LP outside the solver), whitebox (random with the XU operation that copies the LP out of the solver as _preprocessAndSolveReal does)"
    ck.cov["rule"] = ("histories over 40 operation kinds (add/replace/remove rows and columns in all variants, changes of sides, bounds, "
                      "objective, elements, sense, clearLP, optimize, getBasis/setBasis/clearBasis) drawn from one PRNG under sampled "
                      "scaler x persistent scaling x simplifier x representation x sense; an evaluation is one operation executed on "
                      "both sides and compared; distinct = distinct (operation kind, resulting observation) pairs")
    ck.cov["trusted_base"] = ["Coq 8.16.1 kernel (coqc), no native_compute",
                              "axioms: none (Print Assumptions: closed under the global context)" if not ck.coq.get("axioms") else "axioms: " + ", ".join(ck.coq["axioms"]),
                              "extraction: ExtrOcamlBasic only; OCaml 4.13.1; extract/zutil.ml + extract/C06/driver.ml (zarith for I/O only)",
                              "harness/C06.cpp compiled with g++ -fno-access-control against /repo/src",
                              "checks/C06.py (generator, comparison, shrinker)",
                              "the solver's answers (status, hasSol after optimize; status after clearBasis) enter the model as oracle tokens"]
    ck.assumptions = ["generated calls stay inside the documented domain: valid indices, vectors of matching dimension, sparse vectors without "
                      "repeated indices, lower <= upper and lhs <= rhs, distinct sides/bounds differ by more than epsilon",
                      "values at or beyond +-1e100 are compared as 'infinite'",
                      "hasBasis is not predicted (implementation freedom); a basis that is reported must be valid (dimension, number of basic "
                      "variables, statuses compatible with the bounds)",
                      "solve comparison at every optimize against four solvers constructed from scratch from the reported LP (same settings, "
                      "default settings, no scaler/simplifier, no scaler/simplifier in the same representation = what a warm start runs): same status, objective value within relative 1e-6 (small-integer LPs); a "
                      "difference to all of the same-settings and the two plain solvers is attributed to the modification history (resolve-*), a "
                      "difference among the from-scratch solvers themselves to the settings (settings-dependent-*, decided by C01/C02/C08)",
                      "row objectives (no accessor in the real interface) are not observed"]
    ck.finish()


def reproduces(rn, case, sig):
    hb, mb, crashed, _ = rn.run([case], timeout=120)
    for s, what, upto in judge(case, hb.get(0, []), mb.get(0, []), crashed.get(0)):
        if s == sig or "wb:" + s == sig:
            return upto
        if s.startswith(("generator-", "unmodelled", "model-", "short")):
            return None
    return None


def shrink(rn, case, sig, maxruns=250):
    """ddmin over the operation list; a candidate counts only if the same signature reappears and the model accepts
    every operation as valid"""
    ops = list(case["ops"])
    runs = [0]

    def test(cand):
        runs[0] += 1
        if runs[0] > maxruns:
            return None
        return reproduces(rn, {"set": case["set"], "ops": cand}, sig)

    n = 2
    while len(ops) >= 2 and runs[0] <= maxruns:
        chunk = max(1, len(ops) // n)
        reduced = False
        for i in range(0, len(ops), chunk):
            cand = ops[:i] + ops[i + chunk:]
            if not cand:
                continue
            u = test(cand)
            if u is not None:
                ops = cand[:u]
                n = max(n - 1, 2)
                reduced = True
                break
        if not reduced:
            if chunk == 1:
                break
            n = min(len(ops), n * 2)
    # try default settings one by one
    st = dict(case["set"])
    for key, dflt in (("scaler", 0), ("persist", 0), ("simplifier", 0), ("rep", 0), ("sense", 1)):
        if st[key] != dflt and runs[0] <= maxruns:
            c2 = dict(st)
            c2[key] = dflt
            runs[0] += 1
            if reproduces(rn, {"set": c2, "ops": ops}, sig) is not None:
                st = c2
    return {"set": st, "ops": ops}


if __name__ == "__main__":
    main()
