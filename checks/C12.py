#!/usr/bin/env python3
"""C12 - LP/MPS files round-trip to an equivalent LP; numeric literals are read exactly.

prove (Properties_C12) + three correspondence / oracle legs on the current tree:
  (i)   literals: bounded-exhaustive over {+,-,0,1,9,.,e,E,/} (grammar of LiteralModel.denote) and random long ones;
        every literal through an LP file and an MPS file in rational and real read mode and through ratFromString;
        expected value = extracted [denote]; real mode = the double the extracted [nearest_doubleb] accepts;
        ratFromString additionally compared with the extracted model of the code [rat_code] (stored num/den).
  (ii)  round trips: random LPs -> writeFile -> readFile into a fresh solver; the re-read LP must be the extracted
        [lpf_image] / [mps_image] of what the writer was given.
  (iii) writeDualFileReal: primal and dual optimal values agree.
"""
import itertools
import json
import math
import os
import re
import shutil
import sys
import tempfile
from fractions import Fraction

sys.path.insert(0, os.path.dirname(os.path.dirname(os.path.abspath(__file__))))
import vlib

HARNESSES = ["C12"]
MODEL = True
if hasattr(sys, "set_int_max_str_digits"):
    sys.set_int_max_str_digits(0)

ALPHABET = "+-019.eE/"
GRAMMAR = re.compile(r'^[+-]?(\d+\.?\d*|\.\d+)([eE][+-]?\d+)?$|^[+-]?\d+/\d+$')
BATCH = 250          # literals per file (kept well below 984: see the ClassSet::reMax note in the report)
INF = "inf"


def dy(x):
    if x != x:
        return "nan"
    if math.isinf(x):
        return "inf" if x > 0 else "-inf"
    m, e = vlib.dyadic(x)
    return "%d:%d" % (m, e)


def hx(s):
    return s.encode("latin-1").hex()


def unhx(h):
    return bytes.fromhex(h).decode("latin-1")


def frac_of(tok):
    """num/den or m:e -> Fraction; inf/-inf -> +-'inf'"""
    if tok in ("inf", "-inf"):
        return tok
    if ":" in tok:
        m, e = tok.split(":")
        m, e = int(m), int(e)
        return Fraction(m) * (Fraction(2) ** e)
    n, d = tok.split("/")
    return Fraction(int(n), int(d))


# ----------------------------------------------------------------------------------------------------------------
# literals
# ----------------------------------------------------------------------------------------------------------------

def digit_strings(n, digits="019"):
    return ["".join(t) for t in itertools.product(digits, repeat=n)]


def enumerate_grammar(maxlen, min_exp_digits=1, max_exp_digits=3):
    """all strings of the grammar over ALPHABET up to maxlen whose exponent (if any) has between min_exp_digits and
    max_exp_digits digits (constructive; checked against GRAMMAR and - for short strings - against the extracted
    [denote]).  Exponents of four and more digits only ever overflow or underflow and cost seconds each in exact
    arithmetic: they are sampled, not enumerated."""
    D = {n: digit_strings(n) for n in range(0, maxlen + 1)}
    out = set()
    mant = []                                   # (text) without sign
    for a in range(0, maxlen + 1):
        for b in range(0, maxlen + 1 - a):
            if a + b == 0:
                continue
            if a >= 1 and b == 0:
                for x in D[a]:
                    mant.append(x)
                    if a + 1 <= maxlen:
                        mant.append(x + ".")
            elif a + b + 1 <= maxlen:
                for x in D[a]:
                    for y in D[b]:
                        mant.append(x + "." + y)
    exps = [""] if min_exp_digits <= 1 else []
    for n in range(min_exp_digits, min(maxlen, max_exp_digits + 1)):
        for e in "eE":
            for s in ("", "+", "-"):
                if 1 + len(s) + n <= maxlen:
                    for x in D[n]:
                        exps.append(e + s + x)
    for s in ("", "+", "-"):
        for m in mant:
            if len(s) + len(m) > maxlen:
                continue
            for e in exps:
                if len(s) + len(m) + len(e) <= maxlen:
                    out.add(s + m + e)
        for a in range(1, maxlen if min_exp_digits <= 1 else 0):
            for b in range(1, maxlen - a):
                if len(s) + a + 1 + b <= maxlen:
                    for x in D[a]:
                        for y in D[b]:
                            if int(y) != 0:
                                out.add(s + x + "/" + y)
    return sorted(out, key=lambda t: (len(t), t))


def random_literals(rng, n):
    out = []
    special = ["9007199254740993", "9007199254740993.0000000000000000000000000001", "9007199254740992.9999999999999999999",
               "4.9406564584124654e-324", "2.4703282292062327e-324", "2.4703282292062328e-324", "2.2250738585072011e-308",
               "1.7976931348623157e308", "1.7976931348623158e308", "1.7976931348623159e308",
               "0.1", "0.2", "0.3", "1e-1", "1e-2", "1e-3", "1e22", "1e23", "1e24", "123456789012345678901234567890e-20",
               "0.000000000000000000000000000000000000001", "1/3", "2/3", "10/4", "-7/21", "123456789/1000000007",
               "-0.0", "-0.000", "-.0", "-00.0e5", "-0e0", "0.1e1", "1.e-1", "5.E+2", "+.5E-1", "1e400", "-1e999", "1e-400",
               "0e999", "1e+0000000001", "1e-0000000001", "100000000000000000000000000000000000000000000000000000000000",
               "3602879701896397/36028797018963968"]
    out += special
    for _ in range(n):
        k = rng.randrange(8)
        sign = rng.choice(["", "", "+", "-"])
        ip = "".join(rng.choice("0123456789") for _ in range(rng.choice([0, 1, 1, 2, 5, 17, 25, 40])))
        fp = "".join(rng.choice("0123456789") for _ in range(rng.choice([0, 1, 2, 3, 8, 17, 30])))
        if k == 0 and ip:
            lit = sign + ip
        elif k == 1 and ip:
            dn = "".join(rng.choice("0123456789") for _ in range(rng.choice([1, 2, 5, 19, 30])))
            if int(dn) == 0:
                dn = "7"
            lit = sign + ip + "/" + dn
        else:
            if not ip and not fp:
                ip = "1"
            m = ip + ("." + fp if (fp or rng.random() < 0.2) else "")
            if m.startswith(".") and not fp:
                m = "0" + m
            ex = ""
            if k >= 3:
                ex = rng.choice("eE") + rng.choice(["", "+", "-"]) + str(rng.choice(
                    [0, 1, 2, 3, 5, 10, 15, 16, 17, 22, 23, 24, 30, 50, 100, 200, 290, 300, 307, 308, 309, 310, 320, 323, 324, 330, 400]))
            lit = sign + m + ex
        if GRAMMAR.match(lit) and len(lit) < 120:
            out.append(lit)
    return out


def lit_class(lit):
    """shape class of a literal (for stable violation signatures)"""
    if "/" in lit:
        return "fraction"
    m = re.match(r'^([+-]?)(\d*)\.?(\d*)(?:[eE]([+-]?\d+))?$', lit)
    sign, ip, fp, ex = m.group(1), m.group(2), m.group(3), m.group(4)
    dec = "." in lit
    if sign == "-" and dec and int((ip + fp) or "0") == 0:
        return "neg-zero-mantissa"
    if ex is None:
        return "decimal" if dec else "integer"
    e = int(ex)
    if e > 308:
        return "exp-above-308"
    if e > 22:
        return "exp-23-to-308"
    if e < 0:
        return "exp-negative"
    return "exp-0-to-22"


def python_double(lit):
    if "/" in lit:
        s = lit.lstrip("+")
        n, d = s.split("/")
        try:
            return int(n) / int(d)
        except OverflowError:
            return math.inf if (int(n) > 0) else -math.inf
    return float(lit)


def check_literals(ck, exe, model, tmp, lits, validate_filter_upto):
    # ---- model pass
    mf = os.path.join(tmp, "lit.m.cases")
    with open(mf, "w") as f:
        for k in range(-345, 330):
            try:
                v = math.pow(10.0, k)
            except OverflowError:
                v = math.inf
            f.write("POW %d %s\n" % (k, dy(v)))
        if validate_filter_upto:
            for L in range(1, validate_filter_upto + 1):
                for t in itertools.product(ALPHABET, repeat=L):
                    f.write("S %s\n" % hx("".join(t)))
        for lit in lits:
            f.write("L %s %s\n" % (hx(lit), dy(python_double(lit))))
    rc, mout, merr = vlib.sh([model, "lit", mf], timeout=6000)
    if rc != 0:
        ck.violation("model-crash", "model runner failed rc=%d: %s" % (rc, merr[-400:]), {"kind": "model"}, no_input=True)
        return
    M = {}
    nfilter = 0
    for l in mout.splitlines():
        t = l.split()
        if t[0] == "S":
            s = unhx(t[1])
            ing = bool(GRAMMAR.match(s)) and not re.match(r'^[+-]?\d+/0+$', s)
            nfilter += 1
            if ing != (t[2] == "1"):
                ck.violation("grammar-filter", "the generator's grammar and LiteralModel.denote disagree on %r" % s,
                             {"literal": s, "python": ing, "denote_is_some": t[2]}, no_input=True)
        elif t[0] == "L":
            M[unhx(t[1])] = dict(x.split("=", 1) for x in t[2:])
    ck.cov["grammar_filter_strings_validated"] = nfilter

    # ---- partition into homogeneous batches
    groups = {"plain": [], "fraction": [], "crash": []}
    for lit in lits:
        m = M.get(lit)
        if m is None or m["den"] == "none":
            ck.violation("grammar-filter", "generated literal %r is not in the grammar of LiteralModel.denote" % lit,
                         {"literal": lit}, no_input=True)
            continue
        if m.get("chk") == "0":
            ck.violation("model-inconsistent", "denote and denote_sci disagree on %r" % lit, {"literal": lit}, no_input=True)
            continue
        if m["den"] == "huge":
            ck.count("lit:skipped-astronomic-exponent")
            continue
        if m["code"] == "CRASH":
            groups["crash"].append(lit)
        elif "/" in lit:
            groups["fraction"].append(lit)
        else:
            groups["plain"].append(lit)
    # one harness process for the batched groups; the literals for which the code model predicts a SIGFPE are run one
    # file each, in separate processes of 1000 literals (the harness abandons - leaks - a solver object per SIGFPE)
    jobs = []
    hf = os.path.join(tmp, "lit.h.cases")
    with open(hf, "w") as f:
        for g in ("plain", "fraction"):
            L = groups[g]
            for i in range(0, len(L), BATCH):
                f.write("B " + " ".join(hx(x) for x in L[i:i + BATCH]) + "\n")
    jobs.append(hf)
    for k in range(0, len(groups["crash"]), 1000):
        cf = os.path.join(tmp, "lit.h%d.cases" % k)
        with open(cf, "w") as f:
            for x in groups["crash"][k:k + 1000]:
                f.write("L " + hx(x) + "\n")
        jobs.append(cf)
    H = {}
    for jf in jobs:
        rc, hout, herr = vlib.sh([exe, "lit", jf, tmp], timeout=6000)
        for l in hout.splitlines():
            t = l.split()
            if t and t[0] == "L" and len(t) == 7:
                H[unhx(t[1])] = dict(x.split("=", 1) for x in t[2:])
        if rc != 0:
            asked = [unhx(w) for l in open(jf) for w in l.split()[1:]]
            missing = [x for x in asked if x not in H]
            ck.violation("harness-crash:lit", "the literal harness died (rc=%d) near literal %r" % (rc, missing[:1]),
                         {"kind": "crash", "first_unreported_literals": missing[:5], "stderr": herr[-1500:]})

    rejected = {}
    for lit in lits:
        m, h = M.get(lit), H.get(lit)
        if m is None or h is None or m["den"] in ("none", "huge") or m.get("chk") == "0":
            continue
        cls = lit_class(lit)
        ck.count("lit:" + cls)
        ck.evaluated(("lit", lit))
        want = frac_of(m["den"])
        # -- correspondence: ratFromString called directly vs the model of the code
        code = m["code"]
        rfs = h["rfs"]
        exp_rfs = code[2:] if code.startswith("V:") else ("EXC" if code == "THROW" else "SIGFPE")
        got_rfs = "EXC" if rfs.startswith("EXC") else rfs
        canon = "%d/%d" % (want.numerator, want.denominator)         # the intended ratFromString: exact and canonical
        if got_rfs != exp_rfs and got_rfs != canon:
            ck.violation("model-mismatch:ratFromString:" + cls,
                         "ratFromString(%r): implementation %s, model of the code %s" % (lit, rfs, code),
                         {"literal": lit, "implementation": rfs, "model": code, "correspondence": "LiteralModel.rat_code"},
                         no_input=True)
        # -- property: rational mode, every place of the literal, both formats, and the direct call
        for where, val in (("ratFromString", [rfs]), ("lp", h["lpq"].split(",")), ("mps", h["mpsq"].split(","))):
            if len(val) == 1 and not re.match(r'^-?\d+/\d+$', val[0]):
                tok = val[0].split(":")[0]
                rejected[(where, "rational", cls, tok)] = rejected.get((where, "rational", cls, tok), 0) + 1
                kind = {"SIGFPE": "crash", "EXC": "throws", "FAIL": "rejected"}.get(tok, "rejected")
                ck.violation("literal-%s:rational:%s" % (kind, cls),
                             "literal %r (%s): %s in rational mode gives %s; it denotes %s" % (lit, cls, where, val[0], m["den"]),
                             {"literal": lit, "where": where, "observed": val[0], "denotation": m["den"],
                              "model_of_code": code})
                continue
            bad = None
            for v in val:
                n, d = v.split("/")
                if int(d) == 0 or Fraction(int(n), int(d)) != want:
                    bad = v
                    break
            if bad is not None:
                ck.violation("literal-inexact:rational:%s" % cls,
                             "literal %r (%s) read through %s in rational mode becomes %s instead of %s" % (lit, cls, where, bad, m["den"]),
                             {"literal": lit, "where": where, "observed": val, "denotation": m["den"], "model_of_code": code})
            else:
                nc = [v for v in val if math.gcd(int(v.split("/")[0]), int(v.split("/")[1])) != 1 or int(v.split("/")[1]) < 0]
                if nc:
                    ck.violation("literal-noncanonical:rational:%s" % ("fraction" if cls == "fraction" else "decimal-point"),
                                 "literal %r read through %s is stored as the non-canonical pair %s (GMP requires canonical "
                                 "operands; mpq_set_str without mpq_canonicalize)" % (lit, where, nc[0]),
                                 {"literal": lit, "where": where, "observed": val, "denotation": m["den"]})
            # correspondence of the readers with the model of the code
            # (a zero value is re-normalised to 0/1 by mpq_mul's zero short-cut in val *= pre_sign and is not stored as a
            # matrix entry at all: compare stored pairs for non-zero values only)
            if want == 0:
                continue
            if all(v == canon for v in val):
                continue
            if where == "lp" and m["lpf"].startswith("V:") and any(v != m["lpf"][2:] for v in val):
                ck.violation("model-mismatch:lp-reader:" + cls, "LP reader stores %s for %r, model of the code %s" % (val, lit, m["lpf"]),
                             {"literal": lit, "implementation": val, "model": m["lpf"]}, no_input=True)
            if where == "mps" and code.startswith("V:") and any(v != code[2:] for v in val):
                ck.violation("model-mismatch:mps-reader:" + cls, "MPS reader stores %s for %r, model of the code %s" % (val, lit, code),
                             {"literal": lit, "implementation": val, "model": code}, no_input=True)
        # -- property: real mode = correctly rounded double (accepted by the extracted nearest_doubleb)
        cand = dy(python_double(lit))
        if m["nd"] not in ("1", "ovf1"):
            ck.violation("model-nearest", "Python's correctly rounded conversion of %r = %s is not accepted by nearest_doubleb (%s)" % (lit, cand, m["nd"]),
                         {"literal": lit, "candidate": cand, "model": m["nd"]}, no_input=True)
            continue
        for where, val in (("lp", h["lpr"]), ("mps", h["mpsr"])):
            vs = val.split(",")
            if len(vs) == 1:
                tok = vs[0].split(":")[0]
                rejected[(where, "real", cls, tok)] = rejected.get((where, "real", cls, tok), 0) + 1
                ck.violation("literal-rejected:real:%s:%s" % (where, cls),
                             "literal %r (%s): the %s reader in real mode gives %s" % (lit, cls, where.upper(), vs[0]),
                             {"literal": lit, "where": where, "observed": vs[0], "expected_double": cand})
                continue
            if any(v != cand for v in vs):
                ck.violation("literal-misrounded:real:%s:%s" % (where, cls),
                             "literal %r (%s) read through %s in real mode becomes %s; the correctly rounded double is %s" % (lit, cls, where, vs, cand),
                             {"literal": lit, "where": where, "observed": vs, "expected_double": cand, "denotation": m["den"]})
    ck.cov["literal_forms_rejected_by_a_reader"] = {"%s/%s/%s/%s" % k: v for k, v in sorted(rejected.items())}
    ck.cov["literals"] = {"total": len(lits), "batched_plain": len(groups["plain"]), "fractions": len(groups["fraction"]),
                          "model_predicts_crash": len(groups["crash"])}


# ----------------------------------------------------------------------------------------------------------------
# round trips
# ----------------------------------------------------------------------------------------------------------------

def rnd_value(rng, mode, mag="normal"):
    k = rng.randrange(10)
    if mode == "rat":
        if k < 4:
            return Fraction(rng.randint(-9, 9))
        if k < 7:
            return Fraction(rng.randint(-50, 50), rng.randint(1, 12))
        if k < 9:
            return Fraction(rng.randint(-10**6, 10**6), rng.randint(1, 10**5))
        return Fraction(rng.randint(-10**25, 10**25), rng.randint(1, 10**20))
    if k < 4:
        v = float(rng.randint(-9, 9))
    elif k < 6:
        v = rng.randint(-80, 80) / 8.0
    elif k < 8:
        v = rng.uniform(-10, 10)
    elif k == 8:
        v = rng.uniform(-1, 1) * 10 ** rng.randint(-6, 9)
    else:
        v = rng.choice([0.1, -0.3, 1e-7, 123456.789012345, 2.0 ** 40, 1 / 3.0, -2 / 3.0, 1e15 + 0.5])
    return Fraction(v)


def tok(v, mode):
    if v in ("inf", "-inf"):
        return v
    if mode == "rat":
        return "%d/%d" % (v.numerator, v.denominator)
    return dy(float(v))


NAME_CHARS = "abcdfghijklmnopqrstuvwxyzABCDFGHIJKLMNOPQRSTUVWXYZ"


def rnd_name(rng, used, longnames):
    while True:
        n = rng.randint(9, 20) if longnames else rng.randint(1, 8)
        s = rng.choice(NAME_CHARS) + "".join(rng.choice(NAME_CHARS + "0123456789_") for _ in range(n - 1))
        if s not in used and s.upper() not in ("MINIMIZE", "RHS", "RANGE", "BOUND", "FREE", "INF", "INFINITY", "END", "ST", "BOUNDS",
                                                "GENERALS", "BINARY", "MAX", "MIN", "MARKER"):
            used.add(s)
            return s


def rnd_lp(rng, mode, family):
    n = rng.randint(1, 6)
    m = rng.randint(0, 6)
    if family == "longcoef":
        n = rng.randint(5, 12)
        m = rng.randint(1, 3)
    zero_obj = rng.random() < 0.15
    cols, rows = [], []
    used = set()
    longn = family == "longnames"
    for j in range(n):
        obj = Fraction(0) if (zero_obj or rng.random() < 0.3) else rnd_value(rng, mode)
        bt = rng.randrange(9)
        a, b = sorted([rnd_value(rng, mode), rnd_value(rng, mode)])
        if bt == 0:
            lo, up = Fraction(0), "inf"
        elif bt == 1:
            lo, up = "-inf", "inf"
        elif bt == 2:
            lo, up = (a if a != 0 else Fraction(1)), "inf"
        elif bt == 3:
            lo, up = "-inf", b
        elif bt == 4:
            lo, up = (a, b) if a != b else (a, a + 1)
        elif bt == 5:
            lo, up = a, a
        elif bt == 6:
            lo, up = Fraction(0), abs(b) + 1
        elif bt == 7:
            lo, up = Fraction(0), Fraction(0)
        else:
            lo, up = Fraction(0), "inf"
        isint = 1 if (family != "noint" and rng.random() < 0.25) else 0
        cols.append({"obj": obj, "lo": lo, "up": up, "int": isint, "name": rnd_name(rng, used, longn)})
    for i in range(m):
        rt = rng.randrange(7)
        a, b = sorted([rnd_value(rng, mode), rnd_value(rng, mode)])
        if rt == 0:
            lhs, rhs = "-inf", "inf"                        # free row
            if family == "nofree":
                lhs, rhs = a, "inf"
        elif rt == 1:
            lhs, rhs = a, "inf"
        elif rt == 2:
            lhs, rhs = "-inf", b
        elif rt == 3:
            lhs, rhs = a, a
        elif rt == 4 or rt == 5:
            lhs, rhs = (a, b) if a != b else (a, a + 2)
        else:
            lhs, rhs = Fraction(0), "inf"
        es = {}
        if rng.random() > 0.12 or family == "longcoef":     # else an empty row
            for j in (range(n) if family == "longcoef" else rng.sample(range(n), rng.randint(1, n))):
                v = rnd_value(rng, mode)
                if v != 0:
                    es[j] = v
        rows.append({"lhs": lhs, "rhs": rhs, "es": es, "name": rnd_name(rng, used, longn)})
    if family == "longcoef":
        # coefficients with thousands of digits: five of them on one physical line exceed the LP reader's line buffer, which then
        # has to grow (8192 -> 16384 -> 32768 -> 65536) while the line is being assembled
        D = rng.choice([1700, 3300, 3300, 5000, 6600, 6600, 9000])
        for r in rows:
            for j in list(r["es"]):
                num = int("".join(rng.choice("123456789") + "".join(rng.choice("0123456789") for _ in range(D + rng.randint(-40, 40)))))
                r["es"][j] = Fraction(rng.choice([1, -1]) * num, rng.choice([1, 1, 3, 7, 10**9 + 7]))
    if mode == "real":                                       # every value must be a double
        rd = lambda v: v if v in ("inf", "-inf") else Fraction(float(v))
        for x in cols:
            x["obj"], x["lo"], x["up"] = rd(x["obj"]), rd(x["lo"]), rd(x["up"])
        for r in rows:
            r["lhs"], r["rhs"] = rd(r["lhs"]), rd(r["rhs"])
            r["es"] = {j: rd(v) for j, v in r["es"].items() if rd(v) != 0}
    return {"sense": rng.choice(["min", "max"]), "offset": rng.choice([0.0, 0.0, 2.5, -7.0]), "cols": cols, "rows": rows}


def case_text(cid, c, lp, mode):
    out = ["CASE %s %s %s names=%d wzo=%d unscale=%d scale=%d" % (cid, c["fmt"], mode, c["names"], c["wzo"], c["unscale"], c["scale"]),
           "SENSE %s OFFSET %s" % (lp["sense"], dy(lp["offset"]))]
    for x in lp["cols"]:
        out.append("COL %s %s %s %d %s" % (tok(x["obj"], mode), tok(x["lo"], mode), tok(x["up"], mode), x["int"], x["name"]))
    for r in lp["rows"]:
        es = sorted(r["es"].items())
        out.append("ROW %s %s %s %d %s" % (tok(r["lhs"], mode), tok(r["rhs"], mode), r["name"], len(es),
                                           " ".join("%d %s" % (j, tok(v, mode)) for j, v in es)))
    out.append("END")
    return "\n".join(out) + "\n"


def parse_dump(s):
    d = {}
    for part in s.split(" "):
        if "=" not in part:
            continue
        k, v = part.split("=", 1)
        d[k] = v
    r = {"m": int(d["m"]), "n": int(d["n"]), "sense": d["sense"], "off": frac_of(d["off"])}
    for k in ("obj", "lo", "up", "lhs", "rhs"):
        r[k] = [frac_of(x) for x in d[k].split(",") if x != ""]
    A = {}
    for e in d.get("A", "").split(";"):
        if e:
            i, j, v = e.split(",")
            A[(int(i), int(j))] = frac_of(v)
    r["A"] = A
    if "cn" in d:
        r["cn"] = [unhx(x) for x in d["cn"].split(",") if x != ""]
        r["rn"] = [unhx(x) for x in d["rn"].split(",") if x != ""]
        r["int"] = [int(x) for x in d["int"].split(",") if x != ""]
    return r


def dump_to_case(cid, c, d, ints, names_c, names_r, mode):
    """case text (model input) from a parsed harness dump: what the writer was given"""
    def tk(v):
        if v in ("inf", "-inf"):
            return v
        return "%d/%d" % (v.numerator, v.denominator)
    out = ["CASE %s %s rat names=%d wzo=%d unscale=%d scale=%d" % (cid, c["fmt"], c["names"], c["wzo"], c["unscale"], c["scale"]),
           "SENSE %s OFFSET %s" % (d["sense"], dy(float(d["off"])))]
    for j in range(d["n"]):
        out.append("COL %s %s %s %d %s" % (tk(d["obj"][j]), tk(d["lo"][j]), tk(d["up"][j]), ints[j], names_c[j]))
    for i in range(d["m"]):
        es = sorted((j, v) for (ii, j), v in d["A"].items() if ii == i)
        out.append("ROW %s %s %s %d %s" % (tk(d["lhs"][i]), tk(d["rhs"][i]), names_r[i], len(es), " ".join("%d %s" % (j, tk(v)) for j, v in es)))
    out.append("END")
    return "\n".join(out) + "\n"


def blocks(out):
    res, cur = {}, None
    for l in out.splitlines():
        if l.startswith("CASE "):
            cur = {}
            res[l.split()[1]] = cur
        elif cur is not None and " " in l:
            k, v = l.split(" ", 1)
            cur[k] = v
        elif cur is not None:
            cur[l] = ""
    return res


def close(a, b, tol):
    if a in ("inf", "-inf") or b in ("inf", "-inf"):
        return a == b
    if tol is None:
        return a == b
    return abs(a - b) <= tol(a)


def check_roundtrips(ck, exe, model, tmp, cases):
    hf = os.path.join(tmp, "rt.h.cases")
    with open(hf, "w") as f:
        for cid, (c, lp) in enumerate(cases):
            f.write(case_text(str(cid), c, lp, c["mode"]))
    rc, hout, herr = vlib.sh([exe, "rt", hf, tmp], timeout=6000)
    HB = blocks(hout)
    if rc != 0:
        last = max([int(k) for k in HB] or [0])
        c, lp = cases[min(last, len(cases) - 1)]
        ck.violation("harness-crash:rt:%s:%s" % (c["fmt"], c["mode"]), "the round-trip harness died (rc=%d) in case %d" % (rc, last),
                     {"kind": "crash", "case": case_text(str(last), c, lp, c["mode"]), "stderr": herr[-1500:]})
    # model input: what the writer had in hand (user view, or the stored scaled LP when unscale=0)
    mf = os.path.join(tmp, "rt.m.cases")
    given = {}
    with open(mf, "w") as f:
        for cid, (c, lp) in enumerate(cases):
            hb = HB.get(str(cid))
            if hb is None or "ORIG" not in hb:
                continue
            orig = parse_dump(hb["ORIG"])
            src = orig
            if c["mode"] == "real":
                raw = hb["RAW"].split(" ", 1)
                scaled = raw[0] == "scaled=1"
                ck.count("rt:scaled" if scaled else "rt:unscaled")
                if scaled and not c["unscale"]:
                    src = parse_dump(raw[1])
            given[cid] = (orig, src)
            f.write(dump_to_case(str(cid), c, src, [x["int"] for x in lp["cols"]], [x["name"] for x in lp["cols"]],
                                 [r["name"] for r in lp["rows"]], c["mode"]))
    rc2, mout, merr = vlib.sh([model, "rt", mf], timeout=6000)
    if rc2 != 0:
        ck.violation("model-crash", "model runner failed rc=%d: %s" % (rc2, merr[-400:]), {"kind": "model"}, no_input=True)
    MB = blocks(mout)

    for cid, (c, lp) in enumerate(cases):
        hb, mb = HB.get(str(cid)), MB.get(str(cid))
        if hb is None or mb is None or cid not in given:
            continue
        fam = "%s:%s" % (c["fmt"], c["mode"])
        ck.count("rt:" + fam)
        ck.count("rt:family:" + c["family"])
        ck.evaluated(("rt", hb.get("ORIG", ""), c["fmt"], c["mode"], c["names"], c["wzo"], c["unscale"]))
        orig, src = given[cid]
        replay = {"case": case_text(str(cid), c, lp, c["mode"]), "config": {k: c[k] for k in ("fmt", "mode", "names", "wzo", "unscale", "scale", "family")},
                  "lp": lp_to_json(lp), "file": unhx(hb.get("FILE", ""))[:4000]}
        # the API stored what was given
        want_in = {"obj": [x["obj"] for x in lp["cols"]], "lo": [x["lo"] for x in lp["cols"]], "up": [x["up"] for x in lp["cols"]],
                   "lhs": [r["lhs"] for r in lp["rows"]], "rhs": [r["rhs"] for r in lp["rows"]]}
        for k in want_in:
            if orig[k] != want_in[k]:
                ck.violation("api-store:" + k, "the LP built through the API differs from the case in %s" % k, dict(replay, observed=hb["ORIG"]), no_input=True)
        # features of the case that are tied to a reported defect of the writers / readers; a difference they explain
        # gets the feature names as signature, anything else is reported as "unexplained"
        feat = []
        if any(r["lhs"] == "-inf" and r["rhs"] == "inf" for r in lp["rows"]):
            feat.append("free-row")                 # writeMPS throws XMPSWR02
        if c["names"] and max([len(x["name"]) for x in lp["cols"]] + [len(r["name"]) for r in lp["rows"]] + [0]) > 8:
            feat.append("long-names")               # MPS writers truncate names to 8 characters
        if c["fmt"] == "mps":
            if c["mode"] == "real" and c["names"] and any(len(x["name"]) >= 8 for x in lp["cols"]):
                feat.append("name8")                # real writeMPS: an 8-character column name runs into the next field
            if c["mode"] == "real" and any(x["int"] and src["up"][j] == "inf" and src["lo"][j] != "-inf" and src["lo"][j] != src["up"][j]
                                           for j, x in enumerate(lp["cols"])):
                feat.append("int-inf-upper")        # real writeMPS: "UP" record of 1e100 cut at 80 characters
            if any(src["lo"][j] == "-inf" and src["up"][j] != "inf" for j in range(len(lp["cols"]))):
                feat.append("mi-bound")             # readMPS: "MI" is taken for an integer bound (second letter 'I')
        explains = {"free-row": {"write"}, "long-names": {"read", "columns", "rownames"}, "name8": {"read", "columns"},
                    "int-inf-upper": {"up"}, "mi-bound": {"int"}}

        def sig(kind, fields):
            ex = set()
            for t in feat:
                ex |= explains[t]
            rel = [t for t in feat if explains[t] & set(fields)]
            if set(fields) <= ex and rel:
                return "roundtrip-%s:%s:%s" % (kind, fam, "+".join(rel))
            return "roundtrip-%s:%s:unexplained:%s" % (kind, fam, ",".join(sorted(fields)))

        if hb.get("WRITE") != "ok":
            ck.violation(sig("write-fails", ["write"]), "writeFile (%s, %s) fails: %s" % (c["fmt"], c["mode"], hb.get("WRITE")),
                         dict(replay, observed=hb.get("WRITE"), features=feat))
            continue
        if hb.get("READ") != "ok":
            ck.violation(sig("read-fails", ["read"]), "the file written by writeFile (%s, %s) is rejected by readFile: %s" % (c["fmt"], c["mode"], hb.get("READ")),
                         dict(replay, observed=hb.get("READ"), features=feat))
            continue
        back = parse_dump(hb["BACK"])
        img = parse_dump(mb["IMG"])
        keep = [ch == "1" for ch in mb["KEEP"]]
        kept = [j for j, k in enumerate(keep) if k]
        tol = None
        if c["fmt"] == "mps" and c["mode"] == "real":
            tol = lambda v: Fraction(1, 10 ** 15)
        problems = []
        # columns by name
        if c["names"]:
            exp_cn = {x["name"]: j for j, x in enumerate(lp["cols"])}
        else:
            exp_cn = {"x%d" % j: j for j in range(len(lp["cols"]))}
        colmap = []
        for nm in back["cn"]:
            colmap.append(exp_cn.get(nm))
        if None in colmap or len(set(colmap)) != len(colmap) or sorted(colmap) != kept:
            problems.append(("columns", "columns read back %r, expected the columns %r (%s)" % (back["cn"], kept, [lp["cols"][j]["name"] if c["names"] else "x%d" % j for j in kept])))
        else:
            pos = {j: k for k, j in enumerate(kept)}                 # orig index -> position in IMG
            for kb, j in enumerate(colmap):
                ki = pos[j]
                for fld in ("obj", "lo", "up"):
                    if not close(back[fld][kb], img[fld][ki], tol):
                        problems.append((fld, "%s of column %d: read back %s, expected %s" % (fld, j, back[fld][kb], img[fld][ki])))
            if back["m"] != img["m"]:
                problems.append(("rows", "%d rows read back, expected %d" % (back["m"], img["m"])))
            else:
                ranged_rhs = set()
                if c["fmt"] == "mps":
                    for i in range(img["m"]):
                        if img["lhs"][i] != "-inf" and img["rhs"][i] != "inf" and img["lhs"][i] != img["rhs"][i]:
                            ranged_rhs.add(i)
                for i in range(img["m"]):
                    if not close(back["lhs"][i], img["lhs"][i], tol):
                        problems.append(("lhs", "lhs of row %d: read back %s, expected %s" % (i, back["lhs"][i], img["lhs"][i])))
                    t2 = tol
                    if tol is not None and i in ranged_rhs:
                        # rhs is rebuilt as lhs + range in floating point from two printed values
                        mag = max(abs(img["lhs"][i]), abs(img["rhs"][i]))
                        t2 = lambda v, mag=mag: Fraction(3, 10 ** 15) + 3 * mag * Fraction(1, 2 ** 52)
                    if not close(back["rhs"][i], img["rhs"][i], t2):
                        problems.append(("rhs", "rhs of row %d: read back %s, expected %s" % (i, back["rhs"][i], img["rhs"][i])))
                Ab = {}
                for (i, kb), v in back["A"].items():
                    Ab[(i, pos[colmap[kb]])] = v
                for key in set(Ab) | set(img["A"]):
                    a, b = Ab.get(key, Fraction(0)), img["A"].get(key, Fraction(0))
                    if not close(a, b, tol):
                        problems.append(("coef", "coefficient %r: read back %s, expected %s" % (key, a, b)))
            ints_back = sorted(colmap[k] for k in back["int"] if k < len(colmap))
            ints_want = sorted(j for j in kept if lp["cols"][j]["int"])
            if ints_back != ints_want:
                problems.append(("int", "integer markers read back %r, expected %r" % (ints_back, ints_want)))
        if back["sense"] != img["sense"]:
            problems.append(("sense", "sense read back %s, expected %s" % (back["sense"], img["sense"])))
        if back["off"] != 0:
            problems.append(("offset", "offset read back %s" % back["off"]))
        # row names
        exp_rn = []
        for i, r in enumerate(lp["rows"]):
            base = r["name"] if c["names"] else "C%d" % i
            ranged = src["lhs"][i] != "-inf" and src["rhs"][i] != "inf" and src["lhs"][i] != src["rhs"][i]
            if c["fmt"] == "lp" and ranged:
                exp_rn += [base + "_1", base + "_2"]
            else:
                exp_rn.append(base)
        if back["rn"] != exp_rn:
            problems.append(("rownames", "row names read back %r, expected %r" % (back["rn"], exp_rn)))
        if problems:
            kinds = sorted(set(p[0] for p in problems))
            ck.violation(sig("differs", kinds),
                         "writeFile/readFile (%s, %s, names=%d wzo=%d unscale=%d) does not give back the LP: %s" % (
                             c["fmt"], c["mode"], c["names"], c["wzo"], c["unscale"], "; ".join(p[1] for p in problems[:4])),
                         dict(replay, given=hb["RAW"] if (c["mode"] == "real" and src is not orig) else hb["ORIG"],
                              read_back=hb["BACK"], expected_image=mb["IMG"], kept_columns=mb["KEEP"], features=feat,
                              differing_fields=kinds))
        if cid < 2:
            ck.sample({"config": replay["config"], "file": replay["file"][:600]})


def parse_dlp(line):
    """'sense=.. n=.. m=.. cols=o,l,u;... rows=lhs,rhs,j=v,...;' (dyadic tokens, +-1e100 = infinite) -> canonical tuple"""
    d = dict(t.split("=", 1) for t in line.split() if "=" in t)

    def val(t, lo):
        v = frac_of(t)
        if v >= Fraction(10) ** 100:
            return "inf"
        if v <= -Fraction(10) ** 100:
            return "-inf"
        return v
    cols = [tuple(val(t, k == 1) for k, t in enumerate(c.split(","))) for c in d.get("cols", "").split(";") if c]
    rows, A = [], set()
    for i, r in enumerate(x for x in d.get("rows", "").split(";") if x):
        t = r.split(",")
        rows.append((val(t[0], True), val(t[1], False)))
        for e in t[2:]:
            j, v = e.split("=")
            if frac_of(v) != 0:
                A.add((i, int(j), frac_of(v)))
    return d.get("sense"), cols, rows, A


def parse_model_dump(line):
    d = dict(t.split("=", 1) for t in line.split() if "=" in t)

    def vec(k):
        return [t if t in ("inf", "-inf") else Fraction(t) for t in d.get(k, "").split(",") if t != ""]
    cols = list(zip(vec("obj"), vec("lo"), vec("up")))
    rows = list(zip(vec("lhs"), vec("rhs")))
    A = set()
    for e in d.get("A", "").split(";"):
        if e:
            i, j, v = e.split(",")
            A.add((int(i), int(j), Fraction(v)))
    return d.get("sense"), cols, rows, A


def check_duals(ck, exe, tmp, cases, model=None):
    hf = os.path.join(tmp, "dual.h.cases")
    with open(hf, "w") as f:
        for cid, (c, lp) in enumerate(cases):
            f.write(case_text(str(cid), c, lp, "real"))
    rc, hout, herr = vlib.sh([exe, "dual", hf, tmp], timeout=6000)
    HB = blocks(hout)
    # the model's dual LP (coq/DualModel.v: dual_of) for the same cases
    MB = {}
    if model is not None:
        rcm, mout, merr = vlib.sh([model, "rt", hf], timeout=6000)
        if rcm != 0:
            ck.violation("model-crash", "model runner failed rc=%d: %s" % (rcm, merr[-400:]), {"kind": "model"}, no_input=True)
        MB = blocks(mout)
    if rc != 0:
        ck.violation("harness-crash:dual", "the dual-writer harness died (rc=%d)" % rc, {"kind": "crash", "stderr": herr[-1500:]})
    for cid, (c, lp) in enumerate(cases):
        hb = HB.get(str(cid))
        if hb is None:
            continue
        replay = {"case": case_text(str(cid), c, lp, "real"), "dual": True, "config": dict(c), "lp": lp_to_json(lp),
                  "file": unhx(hb.get("FILE", ""))[:4000]}
        ck.evaluated(("dual", replay["case"]))
        if hb.get("WRITE", "").startswith("CRASH"):
            ck.violation("dual-writer-crash:%s" % c["fmt"], "writeDualFileReal(\"x.%s\") crashes: %s" % (c["fmt"], hb.get("WRITE")), replay)
            continue
        # exact correspondence of buildDualProblem with the Coq model dual_of
        mb = MB.get(str(cid))
        if mb is not None and "DUAL" in mb and hb.get("DLP", "").startswith("sense="):
            hi, mo = parse_dlp(hb["DLP"]), parse_model_dump(mb["DUAL"])
            ck.count("dual:model-compared")
            if hi != mo:
                what = [k for k, a, b in zip(("sense", "columns", "row sides", "matrix"), hi, mo) if a != b]
                ck.violation("dual-model-mismatch:%s" % "+".join(what).replace(" ", "-"),
                             "buildDualProblem and coq/DualModel.v (dual_of) differ in %s: implementation %s, model %s" % (", ".join(what), str(hi)[:600], str(mo)[:600]),
                             dict(replay, correspondence="DualModel.dual_of vs SPxLPBase::buildDualProblem", implementation=hb["DLP"], model=mb["DUAL"]), no_input=True)
        if hb.get("WRITE") != "ok" or hb.get("READ") != "ok":
            ck.violation("dual-file:%s" % c["fmt"], "writeDualFileReal / reading the dual file fails: write=%s read=%s" % (hb.get("WRITE"), hb.get("READ")), replay)
            continue
        ps, pv = hb["P"].split()
        ds_, dv = hb["D"].split()
        ck.count("dual:primal-" + ps)
        # buildDualProblem takes a free row for ">= -1e100": the dual variable gets the cost -1e100 instead of being
        # fixed at zero (reported separately)
        ftag = ":free-row" if any(r["lhs"] == "-inf" and r["rhs"] == "inf" for r in lp["rows"]) else ""
        if ps == "OPTIMAL":
            p, d = float(frac_of(pv)), float(frac_of(dv)) if ds_ == "OPTIMAL" else None
            if d is not None and c["fmt"] == "mps" and lp["sense"] == "min":
                d = -d          # the dual of a minimisation problem is a maximisation problem, which MPS stores negated
            if ds_ != "OPTIMAL" or abs(p - d) > 1e-6 * (1 + abs(p)):
                ck.violation("dual-value:%s%s" % (c["fmt"], ftag), "primal optimum %r but the LP written by writeDualFileReal has status %s value %r" % (p, ds_, d),
                             dict(replay, primal=hb["P"], dual=hb["D"]))
        elif ps in ("UNBOUNDED", "INFEASIBLE") and ds_ == "OPTIMAL":
            ck.violation("dual-status:%s%s" % (c["fmt"], ftag), "primal %s but the dual LP has an optimum" % ps.lower(), dict(replay, primal=hb["P"], dual=hb["D"]))


def rnd_bounded_lp(rng):
    """a small LP that is feasible by construction (rows are placed around a point inside the bounds) and usually
    bounded (for the dual writer)"""
    n, m = rng.randint(1, 5), rng.randint(1, 5)
    used = set()
    cols, rows, x0 = [], [], []
    for j in range(n):
        bt = rng.randrange(6)
        a = Fraction(rng.randint(-5, 5))
        if bt == 0:
            lo, up = Fraction(0), "inf"
        elif bt == 1:
            lo, up = Fraction(0), Fraction(rng.randint(1, 9))
        elif bt == 2:
            lo, up = a, a + rng.randint(1, 6)
        elif bt == 3:
            lo, up = "-inf", Fraction(rng.randint(-3, 6))
        elif bt == 4:
            lo, up = a, a
        else:
            lo, up = Fraction(rng.randint(1, 4)), "inf"
        base = lo if lo != "-inf" else up - rng.randint(0, 3)
        x0.append(base if up == "inf" or lo == "-inf" else Fraction(rng.randint(int(lo), int(up))))
        cols.append({"obj": Fraction(rng.randint(-6, 6)), "lo": lo, "up": up, "int": 0, "name": rnd_name(rng, used, False)})
    for i in range(m):
        es = {j: Fraction(rng.randint(-4, 6)) for j in rng.sample(range(n), rng.randint(1, n))}
        es = {j: v for j, v in es.items() if v != 0}
        act = sum(v * x0[j] for j, v in es.items())
        rt = rng.randrange(5)
        if rt == 0:
            lhs, rhs = "-inf", act + rng.randint(0, 6)
        elif rt == 1:
            lhs, rhs = act - rng.randint(0, 8), "inf"
        elif rt == 2:
            lhs, rhs = act - rng.randint(0, 6), act + rng.randint(1, 6)
        elif rt == 3:
            lhs, rhs = act, act
        else:
            lhs, rhs = "-inf", "inf"                    # free row
        rows.append({"lhs": lhs, "rhs": rhs, "es": es, "name": rnd_name(rng, used, False)})
    return {"sense": rng.choice(["min", "max"]), "offset": 0.0, "cols": cols, "rows": rows}


def load_corpus():
    lits, rts = [], []
    cdir = os.path.join(vlib.ROOT, "corpus", "C12")
    if os.path.isdir(cdir):
        for f in sorted(os.listdir(cdir)):
            p = os.path.join(cdir, f)
            if f.endswith(".literals"):
                lits += [l.strip() for l in open(p) if l.strip() and not l.startswith("#")]
            elif f.endswith(".json"):
                rts.append(json.load(open(p)))
    return lits, rts


def lp_to_json(lp):
    def v(x):
        return x if x in ("inf", "-inf") else "%d/%d" % (x.numerator, x.denominator)
    return {"sense": lp["sense"], "offset": lp["offset"],
            "cols": [{"obj": v(c["obj"]), "lo": v(c["lo"]), "up": v(c["up"]), "int": c["int"], "name": c["name"]} for c in lp["cols"]],
            "rows": [{"lhs": v(r["lhs"]), "rhs": v(r["rhs"]), "name": r["name"], "es": {str(k): v(x) for k, x in r["es"].items()}} for r in lp["rows"]]}


def lp_from_json(j):
    def v(x):
        return x if x in ("inf", "-inf") else Fraction(x)
    lp = {"sense": j["sense"], "offset": float(j.get("offset", 0.0)),
          "cols": [{"obj": v(c["obj"]), "lo": v(c["lo"]), "up": v(c["up"]), "int": int(c.get("int", 0)), "name": c["name"]} for c in j["cols"]],
          "rows": [{"lhs": v(r["lhs"]), "rhs": v(r["rhs"]), "name": r["name"], "es": {int(k): v(x) for k, x in r["es"].items()}} for r in j["rows"]]}
    return lp


def main():
    ck = vlib.Check("C12", "proof")
    ck.prove()
    try:
        exe = vlib.build_harness("C12")
    except vlib.BuildError as e:
        ck.violation("harness-build", "harness does not build against the current tree: %s" % str(e)[-800:], {"kind": "build"}, no_input=True)
        ck.finish()
    try:
        model = vlib.build_model("C12")
    except vlib.BuildError as e:
        ck.violation("model-build", "extracted model does not build: %s" % str(e)[-800:], {"kind": "extraction"}, no_input=True)
        ck.finish()
    tmp = tempfile.mkdtemp(prefix="c12-", dir="/dev/shm" if os.path.isdir("/dev/shm") else None)
    try:
        quick = ck.tier == "quick"
        corp_lits, corp_rts = load_corpus()
        if not ck.args.replay:
            rdir = os.path.join(vlib.ROOT, "replays", "C12")
            if os.path.isdir(rdir):
                for f in os.listdir(rdir):
                    if f.endswith(".json"):
                        os.remove(os.path.join(rdir, f))
        if ck.args.replay:
            rp = json.load(open(ck.args.replay))
            lits = [rp["literal"]] if "literal" in rp else []
            if lits:
                check_literals(ck, exe, model, tmp, lits, 0)
            if "lp" in rp and "config" in rp:
                one = [(dict(rp["config"]), lp_from_json(rp["lp"]))]
                if rp.get("dual"):
                    check_duals(ck, exe, tmp, one, model)
                else:
                    check_roundtrips(ck, exe, model, tmp, one)
            ck.finish()
        # ---- (i) literals
        maxlen = 7 if quick else 9
        longexp = enumerate_grammar(maxlen, 4, 4)
        lits = list(dict.fromkeys(corp_lits + enumerate_grammar(maxlen) + ck.rng.sample(longexp, min(len(longexp), 40 if quick else 600))
                                  + random_literals(ck.rng, 1500 if quick else 20000)))
        ck.cov["literal_enumeration"] = {"alphabet": ALPHABET, "max_length": maxlen, "exhaustive_for_exponent_digits_up_to": 3,
                                         "sampled_four_digit_exponent_literals_of": len(longexp)}
        check_literals(ck, exe, model, tmp, lits, 5 if quick else 6)
        # ---- (ii) round trips
        cases = []
        for j in corp_rts:
            cases.append((dict(j["config"]), lp_from_json(j["lp"])))
        nrt = 500 if quick else 6000
        for k in range(nrt):
            fmt = ck.rng.choice(["lp", "mps"])
            mode = ck.rng.choice(["real", "rat"])
            fam = ck.rng.choices(["general", "nofree", "longnames"], weights=[3, 6, 1])[0]
            if k < (8 if quick else 60):
                fam, fmt, mode = "longcoef", "lp", "rat"
            lp = rnd_lp(ck.rng, mode, fam)
            scale = ck.rng.choice([0, 0, 0, 2, 3, 5]) if mode == "real" else 0
            c = {"fmt": fmt, "mode": mode, "names": 1 if fam == "longnames" else ck.rng.randrange(2), "wzo": ck.rng.randrange(2),
                 "unscale": ck.rng.randrange(2) if scale else 1, "scale": scale, "family": fam}
            cases.append((c, lp))
        check_roundtrips(ck, exe, model, tmp, cases)
        # ---- (iii) dual writer
        dcases = []
        for k in range(150 if quick else 2000):
            dcases.append(({"fmt": ck.rng.choice(["lp", "mps"]), "mode": "real", "names": 0, "wzo": ck.rng.randrange(2), "unscale": 1, "scale": 0,
                            "family": "dual"}, rnd_bounded_lp(ck.rng)))
        check_duals(ck, exe, tmp, dcases, model)
    finally:
        if not os.environ.get("VERIF_KEEP"):
            shutil.rmtree(tmp, ignore_errors=True)

    ck.cov["rule"] = ("literals: every string of the grammar over the alphabet up to the length bound plus seeded random long literals; each "
                      "literal is one evaluation (8 file reads + 1 direct call), distinct = distinct literal texts. round trips: one evaluation per "
                      "(LP, format, mode, names, writeZeroObjective, unscale) case; dual: one per LP; non-trivial = all")
    ck.cov["trusted_base"] = ["Coq 8.16.1 kernel (coqc), no native_compute; vm_compute for the refutation witnesses",
                              "axioms: none (Print Assumptions: closed under the global context)" if not ck.coq["axioms"] else "axioms: " + ", ".join(ck.coq["axioms"]),
                              "extraction: ExtrOcamlBasic only; OCaml 4.13.1; extract/zutil.ml + extract/C12/driver.ml (zarith for I/O only)",
                              "harness/C12.cpp compiled with g++ -fno-access-control against /repo/src",
                              "pow(10,k) of the C library is an oracle of the code model rat_code: supplied by the generator (Python math.pow = the same libm)",
                              "Python float()/int division propose the correctly rounded double; the extracted nearest_doubleb decides",
                              "checks/C12.py maps re-read columns to original columns by name and applies the tolerances stated in 'assumptions'"]
    ck.assumptions = ["real MPS files: values compared to absolute 1e-15 (the writer prints %.15lf); the right-hand side of a ranged row, which the "
                      "reader rebuilds as lhs + range in floating point, to 3e-15 + 3 ulp",
                      "columns with zero cost and no row entry are not written unless writeZeroObjective is set (drop_unused in the model); the objective "
                      "offset is never written (drop_offset); maximisation is written negated in MPS (mps_max_to_min)",
                      "dual writer: only the optimal values of primal and dual are compared (floating-point solves, relative 1e-6); no Coq model of buildDualProblem"]
    ck.finish()


if __name__ == "__main__":
    main()
