#!/usr/bin/env python3
"""C10 - the LU factorization and its updates solve with the current basis matrix.
prove (Properties_C10 over coq/LUModel.v) + validation of every solve / verdict of SLUFactor<double>, driven
stand-alone through load / solve / update histories, by the extracted checkers."""
import json
import os
import sys

sys.path.insert(0, os.path.dirname(os.path.abspath(__file__)))
sys.path.insert(0, os.path.dirname(os.path.dirname(os.path.abspath(__file__))))
import vlib
import lu_common as lu

HARNESSES = ["C10"]
MODEL = True


def main():
    ck = vlib.Check("C10", "proof")
    ck.prove()
    try:
        exe = vlib.build_harness("C10")
    except vlib.BuildError as e:
        ck.violation("harness-build", "harness does not build against the current tree: %s" % str(e)[-800:], {"kind": "build"}, no_input=True)
        ck.finish()
    try:
        model = vlib.build_model("C10")
    except vlib.BuildError as e:
        ck.violation("model-build", "extracted checker does not build: %s" % str(e)[-800:], {"kind": "extraction"}, no_input=True)
        ck.finish()

    cases = []
    if ck.args.replay:
        rp = json.load(open(ck.args.replay))
        if "case" in rp:
            cases.append(rp["case"])
    else:
        cdir = os.path.join(vlib.ROOT, "corpus", "C10")
        if os.path.isdir(cdir):
            for f in sorted(os.listdir(cdir)):
                if f.endswith(".json"):
                    cases.append(json.load(open(os.path.join(cdir, f))))
        if ck.tier == "quick":
            nreg, nsing, nmax, nops = 320, 80, 25, 14
        else:
            nreg, nsing, nmax, nops = 700, 300, 60, 30
        for k in range(nreg):
            # a share of small dimensions, the rest up to nmax
            u = ck.rng.random()
            if ck.tier == "quick":
                nm = nmax if u < 0.6 else max(4, nmax // 2)
            else:
                nm = nmax if u < 0.12 else (40 if u < 0.35 else 20)
            cases.append(lu.plan_case(ck.rng, "D", nm, nops, lu.FAMILIES, stats=ck.hist))
        for k in range(nsing):
            cases.append(lu.plan_singular(ck.rng, "D", max(4, nmax // 2), lu.FAMILIES))
        # Forrest-Tomlin column-file memory management: long histories without re-loads, growing columns
        for k in range(36 if ck.tier == "quick" else 160):
            if ck.tier == "quick":
                a, b, u = ck.rng.choice([(12, 20, 80), (12, 20, 80), (20, 30, 100), (30, 40, 110)])
            else:
                a, b, u = ck.rng.choice([(12, 20, 80), (20, 30, 100), (30, 40, 120), (30, 40, 120), (40, 60, 150)])
            cases.append(lu.plan_ftgrow(ck.rng, a, b, u))

    # change(idx, column) with neither a preceding solve...4update nor an explicit eta (ETA only) is probed in separate
    # processes: a crash there must not hide the other cases
    probes = [c for c in cases if c.get("probe") == "change-without-eta"]
    cases = [c for c in cases if c.get("probe") != "change-without-eta"]
    if not ck.args.replay:
        for k in range(6 if ck.tier == "quick" else 40):
            c = lu.plan_case(ck.rng, "D", 8, 6, lu.FAMILIES, utype=0, modes=["N"])
            c["probe"] = "change-without-eta"
            if any(o[0] == "CHG" and o[2] == "N" for o in c["ops"]):
                probes.append(c)
    elif cases and any(o[0] == "CHG" and o[2] == "N" for o in cases[0]["ops"]):
        probes, cases = probes + cases, []

    lu.HARNESS_TIMEOUT = 90 if ck.tier == "quick" else 900
    blocks, crashes = lu.run_all(exe, cases, "C10")
    for (last, nobs, rc, err) in crashes:
        cc = dict(cases[last])
        cc["ops"] = cases[last]["ops"][:nobs + 1]
        opn = cases[last]["ops"][nobs][0] if nobs < len(cases[last]["ops"]) else "end"
        ck.violation("crash:D:" + opn, "the implementation crashed or did not terminate (rc=%d; 124 = timeout) in case %d after %d observations" % (rc, last, nobs),
                     {"kind": "crash", "case": cc, "stderr": err})
    for k, c in enumerate(probes):
        cid = "p%d" % k
        prc, pout, perr = lu.run_harness(exe, lu.case_text(cid, c), "C10p")
        ck.count("probe:change-without-eta:" + ("ran" if prc == 0 else "crashed"))
        if prc != 0:
            nobs = len(lu.split_cases(pout).get(cid, []))
            cc = dict(c)
            cc["ops"] = c["ops"][:nobs + 1]
            ck.violation("crash:D:change-without-eta", "SLUFactor<double>::change(idx, column) without a preceding solveRight4update and without an eta vector "
                         "(ETA update, the documented optional-eta form of SLinSolver::change) crashed the process (rc=%d) at operation %d" % (prc, nobs),
                         {"kind": "crash", "case": cc, "stderr": perr[-500:]})
        else:
            cases.append(c)
            blocks[str(len(cases) - 1)] = lu.split_cases(pout).get(cid, [])
    Q = lu.Queries()
    pending = []
    for k, c in enumerate(cases):
        if str(k) not in blocks:
            continue
        lu.walk_case(ck, str(k), c, blocks[str(k)], Q, pending)
        if k < 3:
            ck.sample({"n": c["n"], "family": c["family"], "utype": c["utype"], "markowitz": c["mark"], "ops": [o[0] + (":" + str(o[2]) if o[0] == "CHG" else "") for o in c["ops"]][:12]})
    rc2, res, merr = lu.run_model(model, Q, "C10")
    if rc2 != 0:
        ck.violation("checker-crash", "the extracted checker failed rc=%d: %s" % (rc2, merr[-400:]), {"kind": "model"}, no_input=True)
    lu.decide(ck, Q, res, pending, "SLUFactor<double>")
    ck.cov["checker_queries"] = len(Q.meta)
    ck.cov["rule"] = ("one evaluation = one solve / multi-solve / update of a generated history, judged by the extracted checker against the "
                      "specification state (current matrix after the column replacements so far); families: random sparse, dense, "
                      "triangular, singleton-rich, dense bump, permuted identity, power-of-two row/column scaled, and diagonally dominant matrices with "
                      "long Forrest-Tomlin histories of growing columns (column-file memory management of U); both update types; Markowitz "
                      "thresholds from a grid; sparse, dense and unit right-hand sides; exactly singular matrices (zero/duplicate/dependent "
                      "columns, zero/dependent rows); distinct = distinct (case, operation) pairs")
    ck.cov["trusted_base"] = ["Coq 8.16.1 kernel (coqc), no native_compute; vm_compute only in Examples",
                              "axioms: none (Print Assumptions: closed under the global context)" if not ck.coq["axioms"] else "axioms: " + ", ".join(ck.coq["axioms"]),
                              "extraction: ExtrOcamlBasic only; OCaml 4.13.1; extract/zutil.ml + extract/C10/driver.ml (zarith for I/O only)",
                              "harness/C10.cpp compiled with g++ -fno-access-control against /repo/src; it mirrors SPxBasisBase::factorize/change "
                              "(refactorization when an update throws, reports a status other than OK, the stability falls below minStab, and its memory / fill / "
                              "non-zero / 200-update triggers)",
                              "checks/lu_common.py: generators, bookkeeping, and scaling of each query's data by common positive factors to integers "
                              "(the criteria are homogeneous); its exact reference elimination is NOT trusted: every inverse / kernel vector is "
                              "validated by the extracted regular_cert_scaled / singular_cert"]
    ck.assumptions = ["The Markowitz elimination, Forrest-Tomlin / product-form updates and hyper-sparse solves are witness producers, not modelled: "
                      "each answer on the generated histories is validated by the proved checker; the theorems state what acceptance means.",
                      "Residual criterion |Bx-b|_inf <= 1e-9 (|B|_inf |x|_inf + |b|_inf) (|B|_1 on the transposed side), evaluated exactly in Q, on "
                      "matrices whose exact condition number (from the validated inverse) is <= 1e6; multi-rhs results equal single solves bitwise "
                      "or within 1e-8 relative.",
                      "Generated data are exact dyadics of moderate magnitude (|entries| between 2^-12 and ~1e5, right-hand sides of magnitude ~1) "
                      "because SoPlex uses absolute zero tolerances (epsilon 1e-16, pivot epsilon 1e-10)."]
    ck.finish()


if __name__ == "__main__":
    main()
