"""Shared by checks/C04.py and checks/C14.py: parsing of harness/C04.cpp output, LP reconstruction from a DUMP line,
model queries for extract/C04|C14/modelrun, exact regularity test, BAS tokeniser, small-LP generator."""
import os
import sys
from fractions import Fraction

sys.path.insert(0, os.path.dirname(os.path.abspath(__file__)))
sys.path.insert(0, os.path.dirname(os.path.dirname(os.path.abspath(__file__))))
import vlib
import lpgen

INFTY = Fraction(10) ** 100
B2V = {"l": "L", "u": "U", "z": "Z", "f": "F", "E": "B", "U": "B", "L": "B", "B": "B", "X": "B"}


def dyf(t):
    """dyadic token -> Fraction, None for an infinite value (|v| >= 1e100)"""
    if t in ("inf", "-inf"):
        return None
    v = lpgen.dy2fr(t)
    if v is None or abs(v) >= INFTY:
        return None
    return v


def dyraw(t):
    v = lpgen.dy2fr(t)
    return v


def kv(line):
    d = lpgen.parse_kv(line)
    return d


def lst(s):
    return [t for t in s.split(",") if t != ""]


def stat(s):
    """'BLU,' -> 'BLU'"""
    return s.rstrip(",")


class DumpLP:
    """the LP and the basis as printed by a DUMP / STATE-A / STATE-B line"""

    def __init__(self, d):
        self.d = d
        self.m = int(d["m"])
        self.n = int(d["n"])
        self.has = d["has"] == "1"
        self.loaded = d["loaded"] == "1"
        self.rep = d["rep"]
        self.sense = int(d["sense"])
        self.lo = [dyf(t) for t in lst(d.get("lo", ""))]
        self.up = [dyf(t) for t in lst(d.get("up", ""))]
        self.lhs = [dyf(t) for t in lst(d.get("lhs", ""))]
        self.rhs = [dyf(t) for t in lst(d.get("rhs", ""))]
        self.mobj = [dyraw(t) for t in lst(d.get("mobj", ""))]
        self.mrobj = [dyraw(t) for t in lst(d.get("mrobj", ""))]
        self.unsafe = d.get("unsafe") == "1"
        self.rows = stat(d.get("rows", ""))
        self.cols = stat(d.get("cols", ""))
        self.prow = stat(d.get("prow", ""))
        self.pcol = stat(d.get("pcol", ""))
        self.ind = [int(t) for t in lst(d.get("ind", "").rstrip(";"))] if "ind" in d else None
        self.drows = stat(d["drows"]) if "drows" in d else None
        self.dcols = stat(d["dcols"]) if "dcols" in d else None
        self.szr = int(d.get("szr", -1))
        self.szc = int(d.get("szc", -1))
        self.A = {}
        if "A" in d:
            for e in d["A"].split(";"):
                if e:
                    i, j, v = e.split(",")
                    self.A[(int(i), int(j))] = dyraw(v)
        self.obj = [dyraw(t) for t in lst(d["obj"])] if "obj" in d else None
        self.off = dyraw(d["off"]) if "off" in d else None

    def model_block(self, ident):
        def q(x):
            return lpgen.qs(x)

        def b(x, neg):
            return ("-inf" if neg else "inf") if x is None else q(x)
        out = ["BLP %s" % ident]
        for i in range(self.m):
            out.append("V r %s %s %s" % (b(self.lhs[i], True), b(self.rhs[i], False), q(self.mrobj[i])))
        for j in range(self.n):
            out.append("V c %s %s %s" % (b(self.lo[j], True), b(self.up[j], False), q(self.mobj[j])))
        return "\n".join(out)

    def basic_set(self):
        return sorted([-1 - i for i, s in enumerate(self.rows) if s == "B"] + [j for j, s in enumerate(self.cols) if s == "B"])

    def basis_matrix(self):
        """m x m matrix: unit vectors for basic rows, columns of A for basic columns"""
        M = []
        for i, s in enumerate(self.rows):
            if s == "B":
                M.append([Fraction(1 if k == i else 0) for k in range(self.m)])
        for j, s in enumerate(self.cols):
            if s == "B":
                M.append([self.A.get((k, j), Fraction(0)) for k in range(self.m)])
        return M


def det(M):
    """exact determinant by Gaussian elimination over Fractions (its non-vanishing is the regularity certificate)"""
    n = len(M)
    if any(len(r) != n for r in M):
        return None
    M = [list(r) for r in M]
    d = Fraction(1)
    for c in range(n):
        p = next((r for r in range(c, n) if M[r][c] != 0), None)
        if p is None:
            return Fraction(0)
        if p != c:
            M[c], M[p] = M[p], M[c]
            d = -d
        d *= M[c][c]
        inv = 1 / M[c][c]
        for r in range(c + 1, n):
            if M[r][c] != 0:
                f = M[r][c] * inv
                for k in range(c, n):
                    M[r][k] -= f * M[c][k]
    return d


def lp_block_from_lp(p, ident):
    """model block from an lpgen.LP (maxObj = obj for max, -obj for min; maxRowObj = 0)"""
    out = ["BLP %s" % ident]
    for (lhs, co, rhs) in p.rows:
        out.append("V r %s %s 0" % ("-inf" if lhs is None else lpgen.qs(lhs), "inf" if rhs is None else lpgen.qs(rhs)))
    for (o, lo, up) in p.cols:
        mo = o if p.maxi else -o
        out.append("V c %s %s %s" % ("-inf" if lo is None else lpgen.qs(lo), "inf" if up is None else lpgen.qs(up), lpgen.qs(mo)))
    return "\n".join(out)


def bas_records(text):
    """tokenise a BAS file: (name line, [records as 'TAG:col[:row]'], has ENDATA, raw data lines)"""
    lines = text.split("\n")
    name = lines[0] if lines else ""
    recs, raw, end = [], [], False
    for l in lines[1:]:
        if l.startswith("ENDATA"):
            end = True
            break
        if l.strip() == "":
            continue
        raw.append(l)
        recs.append(l.split())
    return name, recs, end, raw


def run_model(ck, model, text, tag):
    d = os.path.join(vlib.BUILD, "run")
    os.makedirs(d, exist_ok=True)
    f = os.path.join(d, "%s-%s.%d.q" % (ck.pid, tag, os.getpid()))
    with open(f, "w") as fh:
        fh.write(text)
    rc, out, err = vlib.sh([model, f], timeout=3000)
    if not os.environ.get("VERIF_KEEP"):
        os.remove(f)
    if rc != 0:
        ck.violation("model-crash", "extracted model failed: " + err[-300:], {"kind": "model"}, no_input=True)
    return out


def run_harness(ck, exe, text, tag, timeout=3000):
    d = os.path.join(vlib.BUILD, "run")
    os.makedirs(d, exist_ok=True)
    f = os.path.join(d, "%s-%s.%d.cases" % (ck.pid, tag, os.getpid()))
    sd = os.path.join(d, "%s-scratch-%d" % (ck.pid, os.getpid()))
    os.makedirs(sd, exist_ok=True)
    with open(f, "w") as fh:
        fh.write(text)
    rc, out, err = vlib.sh([exe, f, sd], timeout=timeout)
    if not os.environ.get("VERIF_KEEP"):
        os.remove(f)
    try:
        for x in os.listdir(sd):
            os.remove(os.path.join(sd, x))
        os.rmdir(sd)
    except OSError:
        pass
    return rc, out, err


def answers(out):
    """model output -> {case: {tag: dict}}"""
    res = {}
    for cid, ls in lpgen.blocks(out).items():
        a = {}
        for l in ls:
            if l.startswith("A "):
                t = l.split()
                d = {"_kind": t[2]}
                for w in t[3:]:
                    if "=" in w:
                        k, v = w.split("=", 1)
                        d[k] = v
                a[t[1]] = d
        res[cid] = a
    return res


# ---- small LPs that exercise every case split of the descriptor logic -------------------------------------------
def gen_small(r, m, n):
    F = Fraction
    cols = []
    for j in range(n):
        t = r.randrange(7)
        obj = F(r.choice([-3, -1, 0, 0, 2, 5]))
        a = F(r.randint(-4, 3))
        if t == 0:
            lo, up = None, None
        elif t == 1:
            lo, up = a, None
        elif t == 2:
            lo, up = None, a
        elif t == 3:
            lo, up = a, a
        elif t == 4:
            lo, up = F(-2), F(2)           # tie of the initial basis: -lower == upper
        else:
            lo, up = a, a + r.randint(1, 6)
        cols.append((obj, lo, up))
    rows = []
    for i in range(m):
        co = {j: F(r.choice([-2, -1, 1, 1, 3])) for j in range(n) if r.random() < 0.7}
        t = r.randrange(6)
        a = F(r.randint(-5, 5))
        if t == 0:
            lhs, rhs = None, None
        elif t == 1:
            lhs, rhs = None, a
        elif t == 2:
            lhs, rhs = a, None
        elif t == 3:
            lhs, rhs = a, a
        else:
            lhs, rhs = a, a + r.randint(1, 7)
        rows.append((lhs, co, rhs))
    return lpgen.LP(r.random() < 0.5, F(0), cols, rows, "small")


def random_valid_basis(r, p, free_zero_only=True):
    """a status array pair accepted by isBasisValid for the LP p (m BASIC entries, non-basic entries consistent with the bounds)"""
    m, n = p.m, p.n
    # free rows are mostly kept basic (a non-basic free row is a known trouble spot of its own)
    keep = set(i for i in range(m) if p.rows[i][0] is None and p.rows[i][2] is None and r.random() < 0.85)
    pos = [x for x in range(m + n) if x not in keep]
    r.shuffle(pos)
    basic = keep | set(pos[:m - len(keep)])

    def nb(lo, up):
        opts = []
        if lo is not None:
            opts.append("L")
        if up is not None:
            opts.append("U")
        if lo is not None and up is not None and lo == up:
            opts.append("F")
        if lo is None and up is None:
            opts.append("Z")
        elif not free_zero_only and r.random() < 0.15:
            opts.append("Z")
        return r.choice(opts)
    rows = "".join("B" if i in basic else nb(p.rows[i][0], p.rows[i][2]) for i in range(m))
    cols = "".join("B" if (m + j) in basic else nb(p.cols[j][1], p.cols[j][2]) for j in range(n))
    return rows, cols


def sarg(s):
    return s if s else "-"
