#!/usr/bin/env python3
"""C18 - distinct solver objects can be used concurrently from different threads.
Coq: shared-state obligation over the regenerated inventory of static-storage objects + interleaving theorem (model).
Dynamic: ThreadSanitizer build and result comparison against the sequential run."""
import glob
import os
import re
import sys

sys.path.insert(0, os.path.dirname(os.path.abspath(__file__)))
sys.path.insert(0, os.path.dirname(os.path.dirname(os.path.abspath(__file__))))
import vlib
import lpgen
from translator import gen_globals

TSAN = dict(name="C18", cxx="clang++", opt="-O1", extra=["-fsanitize=thread", "-g"], tag="lib-tsan")
HARNESSES = ["C18", TSAN]
MODEL = False


def regenerate():
    exe = vlib.build_harness("C18")
    objs = glob.glob(os.path.dirname(exe) + "/*.o") + vlib.build_lib()
    return gen_globals.generate(objs, os.path.join(vlib.COQ, "gen", "Gen_Globals.v"))


def workloads(r, n, nmax):
    txt = ""
    ids = []
    for k in range(n):
        p = lpgen.gen_lp(r, nmax)
        cfg = lpgen.rand_config(r)
        cfg.pop("solution_polishing", None)
        exact = r.random() < 0.3
        if exact:
            cfg = {a: b for a, b in cfg.items() if a in ("simplifier", "scaler")}
            if r.random() < 0.5:
                cfg["precision_boosting"] = r.randrange(2)
        txt += p.text("w%d" % k) + "\nWORK w%d %s %s\n" % (k, "exact" if exact else "real", lpgen.cfg_text(cfg))
        ids.append(("w%d" % k, exact, cfg))
    return txt, ids


def exact_heavy(r, k0, count, nmax):
    """exact workloads whose optimal vertex is A_B^{-1} b with a large non-dyadic denominator: dense integer rows, wide
    bounds.  These reach the rational reconstruction and factorization code (shared workspace there would be a race)."""
    from fractions import Fraction
    txt, ids = "", []
    for k in range(count):
        n = r.randint(4, max(4, nmax))
        m = r.randint(n - 1, n + 1)
        cols = [(Fraction(r.randint(-9, 9)), Fraction(-r.randint(20, 60)), Fraction(r.randint(20, 60))) for _ in range(n)]
        rows = []
        for i in range(m):
            co = {j: Fraction(r.choice([-9, -7, -5, -3, -2, 2, 3, 5, 7, 9, 11, 13])) for j in range(n) if r.random() < 0.8}
            if not co:
                co = {r.randrange(n): Fraction(3)}
            a = Fraction(r.randint(-15, 15))
            t = r.randrange(3)
            rows.append((a, co, a) if t == 0 else ((None, co, a + 7) if t == 1 else (a - 7, co, None)))
        p = lpgen.LP(r.random() < 0.5, Fraction(0), cols, rows, family="exact-heavy")
        cfg = {"simplifier": r.choice([0, 1]), "scaler": r.choice([0, 2])}
        if r.random() < 0.3:
            cfg["precision_boosting"] = 1
        wid = "x%d" % (k0 + k)
        txt += p.text(wid) + "\nWORK %s exact %s\n" % (wid, lpgen.cfg_text(cfg))
        ids.append((wid, True, cfg))
    return txt, ids


def tsan_reports(err):
    reps = []
    for block in err.split("=================="):
        if "WARNING: ThreadSanitizer" not in block:
            continue
        kind = re.search(r"WARNING: ThreadSanitizer: ([^(\n]+)", block).group(1).strip()
        frames = re.findall(r"#\d+ ([^\n]*?) (?:/|<null>)", block)
        sop = [f for f in frames if "soplex::" in f or "SoPlex" in f]
        top = (sop[0] if sop else (frames[0] if frames else "?"))
        top = re.sub(r"\(.*", "", top)[:80]
        reps.append((kind, top, block[:3000]))
    return reps


def main():
    ck = vlib.Check("C18", "other")
    info = regenerate()
    ck.cov["static_storage_inventory"] = info
    if not ck.prove():
        for sig, what, rp, ni in ck.violations:
            rp["mutable_globals_not_known_init_only"] = info.get("mutable_not_whitelisted")
    r = ck.rng
    plain = vlib.build_harness("C18")
    nw, nmax = (24, 9) if ck.tier == "quick" else (200, 20)
    threads = [2, 8] if ck.tier == "quick" else [2, 4, 8, 16]
    txt, ids = workloads(r, nw, nmax)
    tx, ix = exact_heavy(r, 0, 10 if ck.tier == "quick" else 60, 7 if ck.tier == "quick" else 10)
    txt += tx
    ids += ix
    for nt in threads:
        txt += "THREADS %d\n" % nt
    # 1. result comparison without sanitizer
    rc, out, err = lpgen.run_harness(plain, txt, "C18", timeout=3000)
    if rc != 0:
        ck.violation("crash:plain", "the multi-threaded workload crashed (rc=%d): %s" % (rc, err[-400:]), {"kind": "crash", "input": txt})
    for l in out.splitlines():
        if not l.startswith("RES "):
            continue
        d = lpgen.parse_kv("RES x " + l[4:])
        ck.evaluated((d["work"], d["threads"]), nontrivial=True)
        ck.count("threads:%s" % d["threads"])
        if d["same"] != "1":
            ck.violation("result-differs:threads", "work %s run in one of %s threads gave a different result than run alone" % (d["work"], d["threads"]),
                         {"input": txt, "work": d["work"], "sequential": bytes.fromhex(d["seq"]).decode(errors="replace"),
                          "parallel": bytes.fromhex(d["par"]).decode(errors="replace") if d["par"] != "-" else None})
    # 2. happens-before race detection
    try:
        tsan = vlib.build_harness(**TSAN)
        env = dict(os.environ, TSAN_OPTIONS="halt_on_error=0 report_signal_unsafe=0 history_size=7 exitcode=0")
        d = os.path.join(vlib.BUILD, "run")
        f = os.path.join(d, "C18.tsan.%d.cases" % os.getpid())
        open(f, "w").write(txt)
        rc, out, err = vlib.sh([tsan, f], timeout=3400, env=env)
        os.remove(f)
        reps = tsan_reports(err)
        ck.cov["tsan_reports"] = len(reps)
        ck.cov["tsan_run"] = "rc=%d, %d result lines" % (rc, out.count("RES "))
        seen = set()
        for kind, top, block in reps:
            sig = "tsan:%s:%s" % (kind.replace(" ", "-"), top)
            if sig in seen:
                continue
            seen.add(sig)
            ck.violation(sig, "ThreadSanitizer: %s in %s while distinct solver objects were used by different threads" % (kind, top),
                         {"input": txt, "report": block})
        if rc != 0 and not reps:
            ck.violation("crash:tsan", "the ThreadSanitizer run ended abnormally (rc=%d): %s" % (rc, err[-400:]), {"input": txt})
    except vlib.BuildError as e:
        ck.violation("tsan-build", "the ThreadSanitizer harness does not build: %s" % str(e)[-500:], {"kind": "build"}, no_input=True)
    ck.sample({"workloads": ids[:3], "threads": threads})
    ck.cov["explanation"] = ("partial: (1) proved on every run: every object with static storage duration defined by the compiled library (inventory regenerated from the "
                             "object files of the current tree: %d objects) is const, thread_local or written only during static/guarded initialisation; for steps that "
                             "write only cells of their own object, every interleaving of any number of threads shows each thread what it sees when running alone "
                             "(model theorem); (2) explored: %d workloads plus a group of exact workloads with non-dyadic optimal vertices (floating-point with sampled scaler/simplifier/pricer..., exact with and without precision "
                             "boosting) distributed over %s threads, result digests compared with the sequential run, and the same under ThreadSanitizer. Races inside "
                             "GMP/MPFR/Boost, the memory model and the allocator cannot be exhibited by the model." % (info["objects"], nw, threads))
    ck.cov["rule"] = "a case is (workload, thread count); each workload = create, set parameters, load LP, optimize, query, modify objective, optimize, destroy"
    ck.cov["trusted_base"] = ["Coq 8.16.1 kernel", "translator/gen_globals.py (objdump of the object files compiled from the current tree) and translator/globals_init_only.txt "
                              "(hand-written justification for the objects in writable sections)", "clang ThreadSanitizer", "harness/C18.cpp"]
    ck.assumptions = ["the whitelist of init-only objects is justified by reading their definitions; a new object in a writable section breaks the Coq obligation"]
    ck.finish()


if __name__ == "__main__":
    main()
