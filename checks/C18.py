#!/usr/bin/env python3
"""C18 - distinct solver objects can be used concurrently from different threads.
Coq: shared-state obligation over the regenerated inventory of static-storage objects + interleaving theorem (model).
Dynamic: ThreadSanitizer build and result comparison against the sequential run."""
import glob
import os
import re
import sys

sys.path.insert(0, os.path.dirname(os.path.abspath(__file__)))
sys.path.insert(0, os.path.dirname(os.path.dirname(os.path.abspath(__file__))))
import vlib
import lpgen
from translator import gen_globals

TSAN = dict(name="C18", cxx="clang++", opt="-O1", extra=["-fsanitize=thread", "-g"], tag="lib-tsan")
HARNESSES = ["C18", TSAN]
MODEL = False


def regenerate():
    exe = vlib.build_harness("C18")
    objs = glob.glob(os.path.dirname(exe) + "/*.o") + vlib.build_lib()
    return gen_globals.generate(objs, os.path.join(vlib.COQ, "gen", "Gen_Globals.v"))


def workloads(r, n, nmax):
    txt = ""
    ids = []
    for k in range(n):
        p = lpgen.gen_lp(r, nmax)
        cfg = lpgen.rand_config(r)
        cfg.pop("solution_polishing", None)
        exact = r.random() < 0.3
        if k % 8 == 3:
            exact = False
        if r.random() < 0.15 or k % 8 == 3:
            # a threshold that differs from the compile-time 1e100: parameter-dependent state must stay in the object
            cfg["infty"] = r.choice(["1e20", "1e30", "1e50"])
        if exact:
            cfg = {a: b for a, b in cfg.items() if a in ("simplifier", "scaler")}
            if r.random() < 0.5:
                cfg["precision_boosting"] = r.randrange(2)
        txt += p.text("w%d" % k) + "\nWORK w%d %s %s\n" % (k, "exact" if exact else "real", lpgen.cfg_text(cfg))
        ids.append(("w%d" % k, exact, cfg))
    return txt, ids


def exact_heavy(r, k0, count, nmax):
    """exact workloads whose optimal vertex is A_B^{-1} b with a large non-dyadic denominator: dense integer rows, wide
    bounds.  These reach the rational reconstruction and factorization code (shared workspace there would be a race)."""
    from fractions import Fraction
    txt, ids = "", []
    for k in range(count):
        n = r.randint(4, max(4, nmax))
        m = r.randint(n - 1, n + 1)
        cols = [(Fraction(r.randint(-9, 9)), Fraction(-r.randint(20, 60)), Fraction(r.randint(20, 60))) for _ in range(n)]
        rows = []
        for i in range(m):
            co = {j: Fraction(r.choice([-9, -7, -5, -3, -2, 2, 3, 5, 7, 9, 11, 13])) for j in range(n) if r.random() < 0.8}
            if not co:
                co = {r.randrange(n): Fraction(3)}
            a = Fraction(r.randint(-15, 15))
            t = r.randrange(3)
            rows.append((a, co, a) if t == 0 else ((None, co, a + 7) if t == 1 else (a - 7, co, None)))
        p = lpgen.LP(r.random() < 0.5, Fraction(0), cols, rows, family="exact-heavy")
        cfg = {"simplifier": r.choice([0, 1]), "scaler": r.choice([0, 2])}
        if r.random() < 0.3:
            cfg["precision_boosting"] = 1
        wid = "x%d" % (k0 + k)
        txt += p.text(wid) + "\nWORK %s exact %s\n" % (wid, lpgen.cfg_text(cfg))
        ids.append((wid, True, cfg))
    return txt, ids


ALLOWED_STATIC = [
    (r"^__libc_single_threaded", "glibc flag that flips when the first thread starts"),
    (r"^completed\.0$|^std::__ioinit$|^std::(cout|cerr|clog|cin)@|^std(out|err|in)@", "C / C++ runtime objects copied into the executable"),
    (r"^boost::multiprecision::backends::detail::mpfr_float_imp<.*>::get_global_default_(precision|options)\(\)::val$",
     "Boost.Multiprecision's process-wide default precision: BP::default_precision(n) (precision boosting) stores the value for threads "
     "created later as well; SoPlex sets the precision explicitly before every boosted solve (outside the model, see DESIGN C18)"),
    (r"^vf::", "function-local static of harness/common.hpp"),
]


def static_writes(ck, exe, out, txt):
    """STATIC lines of the harness: byte ranges of the executable's .data/.bss that differ between two snapshots.  Every range
    is mapped to its symbol (nm); allowed are: objects that were initialised in that phase (their guard variable changed
    too: function-local statics on first use), and the short list ALLOWED_STATIC.  Anything else is an object with static
    storage duration that is written after its initialisation - shared by all solver objects of the process."""
    rc, nm, err = vlib.sh(["nm", "-n", "-S", "-C", "--defined-only", exe], timeout=300)
    syms, anchors = [], {}
    for l in nm.splitlines():
        t = l.split(None, 3)
        if len(t) == 4 and len(t[1]) == 16 and t[2] in "bBdDuVvsSgG":
            syms.append((int(t[0], 16), int(t[1], 16), t[3]))
        elif len(t) == 3 and t[2] in ("__data_start", "__bss_start"):
            anchors[t[2]] = int(t[0], 16)
    for l in out.splitlines():
        if not l.startswith("STATIC "):
            continue
        d = dict(x.split("=", 1) for x in l.split()[1:] if "=" in x)
        if "__data_start" not in anchors:
            ck.count("static:no-anchor")
            continue
        off = int(d["data"], 16) - anchors["__data_start"]
        changed = []
        for rg in d.get("ranges", "").split(","):
            if not rg:
                continue
            a, n = rg.split(":")
            a, n = int(a, 16) - off, int(n)
            hit = [nme for (sa, sz, nme) in syms if sa < a + n and a < sa + max(sz, 1)]
            changed += hit or ["<no symbol at %#x>" % a]
        changed = sorted(set(changed))
        ck.count("static:%s:changed-objects" % d["phase"], len(changed))
        guards = set(c[len("guard variable for "):] for c in changed if c.startswith("guard variable for "))
        for c in changed:
            if c.startswith("guard variable for "):
                if d["phase"] == "first-sequential-pass":
                    continue
            base = c[len("reference temporary #0 for "):] if c.startswith("reference temporary #") else c
            if base in guards and d["phase"] == "first-sequential-pass":
                continue                     # initialised on first use in this phase
            if any(re.search(rx, c) for rx, why in ALLOWED_STATIC):
                ck.count("static:allowed:" + c[:60])
                continue
            ck.violation("static-object-written-after-initialisation:%s" % re.sub(r"<.*>", "<>", c)[:90],
                         "the static-storage object '%s' was written during the %s although it was already initialised: every solver object of the "
                         "process shares it (the inventory obligation C18_shared_state_immutable classifies it as written during initialisation only)" % (c, d["phase"]),
                         {"input": txt, "phase": d["phase"], "changed": changed, "theorem": "C18_shared_state_immutable (init_only classification validated dynamically)"})


def tsan_reports(err):
    reps = []
    for block in err.split("=================="):
        if "WARNING: ThreadSanitizer" not in block:
            continue
        kind = re.search(r"WARNING: ThreadSanitizer: ([^(\n]+)", block).group(1).strip()
        frames = re.findall(r"#\d+ ([^\n]*?) (?:/|<null>)", block)
        sop = [f for f in frames if "soplex::" in f or "SoPlex" in f]
        top = (sop[0] if sop else (frames[0] if frames else "?"))
        top = re.sub(r"\(.*", "", top)[:80]
        reps.append((kind, top, block[:3000]))
    return reps


def main():
    ck = vlib.Check("C18", "other")
    info = regenerate()
    ck.cov["static_storage_inventory"] = info
    if not ck.prove():
        for sig, what, rp, ni in ck.violations:
            rp["mutable_globals_not_known_init_only"] = info.get("mutable_not_whitelisted")
    r = ck.rng
    plain = vlib.build_harness("C18")
    nw, nmax = (24, 9) if ck.tier == "quick" else (200, 20)
    threads = [2, 8] if ck.tier == "quick" else [2, 4, 8, 16]
    txt, ids = workloads(r, nw, nmax)
    tx, ix = exact_heavy(r, 0, 10 if ck.tier == "quick" else 60, 7 if ck.tier == "quick" else 10)
    txt += tx
    ids += ix
    for nt in threads:
        txt += "THREADS %d\n" % nt
    # 1. result comparison without sanitizer
    rc, out, err = lpgen.run_harness(plain, txt, "C18", timeout=3000)
    if rc != 0:
        ck.violation("crash:plain", "the multi-threaded workload crashed (rc=%d): %s" % (rc, err[-400:]), {"kind": "crash", "input": txt})
    static_writes(ck, plain, out, txt)
    for l in out.splitlines():
        if not l.startswith("RES "):
            continue
        d = lpgen.parse_kv("RES x " + l[4:])
        ck.evaluated((d["work"], d["threads"]), nontrivial=True)
        ck.count("threads:%s" % d["threads"])
        if d["same"] != "1":
            ck.violation("result-differs:threads", "work %s run in one of %s threads gave a different result than run alone" % (d["work"], d["threads"]),
                         {"input": txt, "work": d["work"], "sequential": bytes.fromhex(d["seq"]).decode(errors="replace"),
                          "parallel": bytes.fromhex(d["par"]).decode(errors="replace") if d["par"] != "-" else None})
    # 2. happens-before race detection
    try:
        tsan = vlib.build_harness(**TSAN)
        env = dict(os.environ, TSAN_OPTIONS="halt_on_error=0 report_signal_unsafe=0 history_size=7 exitcode=0")
        d = os.path.join(vlib.BUILD, "run")
        f = os.path.join(d, "C18.tsan.%d.cases" % os.getpid())
        open(f, "w").write(txt)
        rc, out, err = vlib.sh([tsan, f], timeout=3400, env=env)
        os.remove(f)
        reps = tsan_reports(err)
        ck.cov["tsan_reports"] = len(reps)
        ck.cov["tsan_run"] = "rc=%d, %d result lines" % (rc, out.count("RES "))
        seen = set()
        for kind, top, block in reps:
            sig = "tsan:%s:%s" % (kind.replace(" ", "-"), top)
            if sig in seen:
                continue
            seen.add(sig)
            ck.violation(sig, "ThreadSanitizer: %s in %s while distinct solver objects were used by different threads" % (kind, top),
                         {"input": txt, "report": block})
        if rc != 0 and not reps:
            ck.violation("crash:tsan", "the ThreadSanitizer run ended abnormally (rc=%d): %s" % (rc, err[-400:]), {"input": txt})
    except vlib.BuildError as e:
        ck.violation("tsan-build", "the ThreadSanitizer harness does not build: %s" % str(e)[-500:], {"kind": "build"}, no_input=True)
    ck.sample({"workloads": ids[:3], "threads": threads})
    ck.cov["explanation"] = ("partial: (1) proved on every run: every object with static storage duration defined by the compiled library (inventory regenerated from the "
                             "object files of the current tree: %d objects) is const, thread_local or written only during static/guarded initialisation; for steps that "
                             "write only cells of their own object, every interleaving of any number of threads shows each thread what it sees when running alone "
                             "(model theorem); (2) explored: %d workloads plus a group of exact workloads with non-dyadic optimal vertices (floating-point with sampled scaler/simplifier/pricer..., exact with and without precision "
                             "boosting) distributed over %s threads, result digests compared with the sequential run, and the same under ThreadSanitizer. Races inside "
                             "GMP/MPFR/Boost, the memory model and the allocator cannot be exhibited by the model." % (info["objects"], nw, threads))
    ck.cov["rule"] = "a case is (workload, thread count); each workload = create, set parameters, load LP, optimize, query, modify objective, optimize, destroy"
    ck.cov["trusted_base"] = ["Coq 8.16.1 kernel", "translator/gen_globals.py (objdump of the object files compiled from the current tree) and translator/globals_init_only.txt "
                              "(hand-written justification for the objects in writable sections)", "clang ThreadSanitizer", "harness/C18.cpp"]
    ck.assumptions = ["the whitelist of init-only objects is justified by reading their definitions; a new object in a writable section breaks the Coq obligation"]
    ck.finish()


if __name__ == "__main__":
    main()
