#!/usr/bin/env python3
"""C07 - the floating-point LP and the rational LP never drift apart.

prove (Properties_C07: every call in SYNCMODE_AUTO preserves "in sync", the explicit sync calls establish it, the copy
before an exact solve is exact, the type arrays match the rational bounds - by induction over arbitrary interleaved
histories, with the statements the faithful model refutes proved as refutations) + differential correspondence of the
extracted model with SoPlexBase<double> on random histories over both interfaces (incl. the GMP entry points), the
three sync modes and mode switches; on top, the property itself is evaluated on every observation of the
implementation (independently of the model)."""
import json
import math
import os
import subprocess
import sys
from fractions import Fraction

sys.path.insert(0, os.path.dirname(os.path.dirname(os.path.abspath(__file__))))
import vlib

HARNESSES = ["C07"]
MODEL = True

INF = 1e100
EPS = 1e-16
FINF = Fraction(INF)
FEPS = Fraction(EPS)
REAL_CLASSIFIER_OPS = ("rG", "rGV", "rB", "rBV", "rCR", "rCC")


def dy(x):
    m, e = vlib.dyadic(float(x))
    return "%d:%d" % (m, e)


def undy(t):
    m, e = t.split(":")
    return math.ldexp(int(m), int(e))


def fr(x):
    """Fraction -> token of the case file"""
    x = Fraction(x)
    return "%d/%d" % (x.numerator, x.denominator)


def adjacent(d, q):
    """d (float) is q, or the largest double below q, or the smallest double above q"""
    fd = Fraction(d)
    if fd == q:
        return True
    if fd < q:
        n = math.nextafter(d, math.inf)
        return n == math.inf or Fraction(n) > q
    n = math.nextafter(d, -math.inf)
    return n == -math.inf or Fraction(n) < q


def classify(inf, lo, up):
    if lo <= -inf:
        return "F" if up >= inf else "U"
    if up >= inf:
        return "L"
    return "X" if lo == up else "B"


# --------------------------------------------------------------------------------------------------------
# observations
# --------------------------------------------------------------------------------------------------------
class LP:
    __slots__ = ("m", "n", "lsense", "off", "obj", "mobj", "lo", "up", "lhs", "rhs", "A", "AT", "raw")


def parse_lp(txt, conv):
    if txt.strip() == "none":
        return None
    l = LP()
    l.raw = txt
    f = {}
    for tok in txt.split():
        k, _, v = tok.partition("=")
        f[k] = v
    l.m, l.n, l.lsense = int(f["m"]), int(f["n"]), int(f["lsense"])
    l.off = conv(f["off"])
    for k in ("obj", "mobj", "lo", "up", "lhs", "rhs"):
        setattr(l, k, [conv(x) for x in f[k].split(",") if x])
    for k in ("A", "AT"):
        d = {}
        for e in f[k].split(";"):
            if e:
                i, j, v = e.split(",")
                d[(int(i), int(j))] = conv(v)
        setattr(l, k, d)
    return l


class Obs:
    __slots__ = ("op", "mode", "inf", "add", "Q", "rt", "ct", "R", "extras", "core", "line")


def parse_obs(line):
    o = Obs()
    o.line = line
    parts = line.split(" | ")
    head = parts[0].split()
    o.op = head[0]
    if len(parts) < 4:
        o.mode = None
        o.core = line
        return o
    o.mode = int(head[1][5:])
    o.inf = undy(head[2][4:])
    o.add = " ".join(head[3:])
    o.core = " ".join(head[:3]) + " | " + " | ".join(parts[1:4])
    o.Q = parse_lp(parts[1][2:], Fraction)
    t = parts[2].split()
    o.rt = t[1][3:].rstrip(".")
    o.ct = t[2][3:].rstrip(".")
    o.R = parse_lp(parts[3][2:], undy)
    o.extras = {}
    if len(parts) > 4:
        for tok in parts[4].split():
            k, _, v = tok.partition("=")
            o.extras[k] = v
    return o


def drift_failures(o, modulo_inf=False):
    """where the real LP is not the coefficient-wise floating-point image of the rational LP; with modulo_inf two bounds / sides that are
    both beyond the current INFTY on the same side count as equal (both denote an infinite bound: this is how areLPsInSync reads them)"""
    Q, R = o.Q, o.R
    inf = Fraction(o.inf) if modulo_inf else None
    if Q is None:
        return ["no-rational-lp"]
    bad = []
    if (Q.m, Q.n) != (R.m, R.n):
        return ["dims(%dx%d/%dx%d)" % (R.m, R.n, Q.m, Q.n)]
    if Q.lsense != R.lsense:
        bad.append("sense")
    if not adjacent(R.off, Q.off):
        bad.append("offset")
    for k in ("mobj", "obj", "lo", "up", "lhs", "rhs"):
        a, b = getattr(R, k), getattr(Q, k)
        for i, (d, q) in enumerate(zip(a, b)):
            if inf is not None and k in ("lo", "up", "lhs", "rhs") and d == d and ((d >= inf and q >= inf) or (d <= -inf and q <= -inf)):
                continue
            if not adjacent(d, q):
                bad.append("%s[%d]" % (k, i))
                break
    for k in ("A", "AT"):
        a, b = getattr(R, k), getattr(Q, k)
        for key in sorted(set(a) | set(b)):
            if not adjacent(a.get(key, 0.0), b.get(key, Fraction(0))):
                bad.append("%s[%d,%d]" % (k, key[0], key[1]))
                break
    return bad


def mirror_failures(o):
    bad = []
    if o.Q is not None and o.Q.A != o.Q.AT:
        bad.append("rational-row-col-files")
    if o.R.A != o.R.AT:
        bad.append("real-row-col-files")
    return bad


def type_failures(o):
    Q = o.Q
    if Q is None:
        return []
    inf = Fraction(o.inf)
    bad = []
    want = "".join(classify(inf, l, r) for l, r in zip(Q.lhs, Q.rhs))
    if want != o.rt:
        bad.append("rowtypes(%s/%s)" % (o.rt, want))
    want = "".join(classify(inf, l, u) for l, u in zip(Q.lo, Q.up))
    if want != o.ct:
        bad.append("coltypes(%s/%s)" % (o.ct, want))
    return bad


def exact_copy_failures(o):
    """rational LP = exact image of the real LP"""
    Q, R = o.Q, o.R
    if Q is None:
        return ["no-rational-lp"]
    if (Q.m, Q.n, Q.lsense) != (R.m, R.n, R.lsense):
        return ["dims/sense"]
    bad = []
    if Fraction(R.off) != Q.off:
        bad.append("offset")
    for k in ("mobj", "lo", "up", "lhs", "rhs"):
        if [Fraction(x) for x in getattr(R, k)] != getattr(Q, k):
            bad.append(k)
    if {k: Fraction(v) for k, v in R.A.items()} != Q.A:
        bad.append("A")
    return bad


def code_isAdjacentTo(q, d):
    """soplex::isAdjacentTo(const Rational&, const double&) as it is coded"""
    try:
        x = float(q)          # correctly rounded; differs from the Boost conversion only for subnormal results (irrelevant below)
    except OverflowError:
        return None
    fx = Fraction(x)
    if fx == q:
        return x == d
    if fx < q:
        a, b = x, math.nextafter(x, 1e100)
    else:
        b = x
        a = math.nextafter(b, -1e100)
    return a == d or b == d


def code_areLPsInSync(o):
    """SoPlexBase::areLPsInSync(true, true) re-evaluated on an observation (None: not decidable from the observation)"""
    Q, R = o.Q, o.R
    ok = True
    if (Q.m, Q.n) != (R.m, R.n):
        return False
    if o.extras.get("nnzR") != o.extras.get("nnzQ"):
        ok = False
    if Q.lsense != R.lsense:
        ok = False
    inf = o.inf
    pinf = Fraction(inf)

    def adj(q, d):
        r = code_isAdjacentTo(q, d)
        if r is None:
            raise OverflowError
        if abs(q) < Fraction(1e-300) and q != 0:
            raise OverflowError      # the conversion inside isAdjacentTo rounds twice for subnormal results
        return r

    try:
        for r, q in zip(R.rhs, Q.rhs):
            if ((r >= inf) != (q >= pinf)) or (r < inf and q < pinf and not adj(q, r)):
                ok = False
        for r, q in zip(R.lhs, Q.lhs):
            if ((r <= -inf) != (q <= -pinf)) or (r > -inf and q > -pinf and not adj(q, r)):
                ok = False
        for r, q in zip(R.mobj, Q.mobj):
            if not adj(q, r):
                ok = False
        for r, q in zip(R.up, Q.up):
            if ((r >= inf) != (q >= pinf)) or (r < inf and q < pinf and not adj(q, r)):
                ok = False
        for r, q in zip(R.lo, Q.lo):
            if ((r <= -inf) != (q <= -pinf)) or (r >= -inf and q > -pinf and not adj(q, r)):
                ok = False
        for key in set(R.AT) | set(Q.AT):
            if not adj(Q.AT.get(key, Fraction(0)), R.AT.get(key, 0.0)):
                ok = False
    except OverflowError:
        return None
    return ok


# ---- "the rational LP holds exactly the numbers that were entered": post-condition of a single call
class Cur:
    def __init__(self, toks):
        self.t, self.p = toks, 1

    def i(self):
        self.p += 1
        return int(self.t[self.p - 1])

    def v(self, real):
        self.p += 1
        t = self.t[self.p - 1]
        return Fraction(undy(t)) if real else Fraction(t)

    def vec(self, real):
        k = self.i()
        return [(self.i(), self.v(real)) for _ in range(k)]


def values_of(toks):
    """all numeric arguments of a call as exact rationals (for the classification of a finding)"""
    real = toks[0][0] == "r"
    out = []
    for t in toks[1:]:
        try:
            if ":" in t:
                out.append(Fraction(undy(t)))
            elif "/" in t:
                out.append(Fraction(t))
        except (ValueError, ZeroDivisionError):
            pass
    return out


def entered_failures(toks, before, after):
    """positions of the rational LP that do not hold the argument of the call (None: call not covered)"""
    op = toks[0]
    real = op[0] == "r"
    Q, Q0 = after.Q, before.Q
    if Q is None or Q0 is None:
        return None
    c = Cur(toks)
    k = op[1:]
    bad = []
    sg = 1 if Q.lsense == 1 else -1

    def chk(name, got, want):
        if got != want:
            bad.append(name)

    try:
        if k in ("L", "R", "W", "U", "O"):
            i = c.i()
            x = c.v(real)
            fld = {"L": "lhs", "R": "rhs", "W": "lo", "U": "up", "O": "obj"}[k]
            chk("%s[%d]" % (fld, i), getattr(Q, fld)[i], x)
        elif k in ("G", "B"):
            i = c.i()
            a, b = c.v(real), c.v(real)
            f1, f2 = ("lhs", "rhs") if k == "G" else ("lo", "up")
            chk("%s[%d]" % (f1, i), getattr(Q, f1)[i], a)
            chk("%s[%d]" % (f2, i), getattr(Q, f2)[i], b)
        elif k in ("LV", "RV", "WV", "UV", "OV") and op != "gRV":
            n = c.i()
            xs = [c.v(real) for _ in range(n)]
            fld = {"LV": "lhs", "RV": "rhs", "WV": "lo", "UV": "up", "OV": "obj"}[k]
            chk(fld, getattr(Q, fld), xs)
        elif op == "gRV":
            n = c.i()
            xs = [c.v(False) for _ in range(n)]
            chk("rhs", Q.rhs[:n], xs)
            chk("rhs-tail", Q.rhs[n:], Q0.rhs[n:])
        elif k in ("GV", "BV"):
            n = c.i()
            a = [c.v(real) for _ in range(n)]
            b = [c.v(real) for _ in range(n)]
            f1, f2 = ("lhs", "rhs") if k == "GV" else ("lo", "up")
            chk(f1, getattr(Q, f1), a)
            chk(f2, getattr(Q, f2), b)
        elif k == "E":
            i, j = c.i(), c.i()
            x = c.v(real)
            chk("A[%d,%d]" % (i, j), Q.A.get((i, j), Fraction(0)), x)
        elif k in ("AR", "CR"):
            i = c.i() if k == "CR" else Q.m - 1
            a, b = c.v(real), c.v(real)
            v = c.vec(real)
            chk("lhs[%d]" % i, Q.lhs[i], a)
            chk("rhs[%d]" % i, Q.rhs[i], b)
            row = {j: x for (ii, j), x in Q.A.items() if ii == i}
            chk("row %d" % i, row, {j: x for j, x in v if x != 0})
        elif k in ("AC", "CC"):
            j = c.i() if k == "CC" else Q.n - 1
            ob, lo, up = c.v(real), c.v(real), c.v(real)
            v = c.vec(real)
            chk("obj[%d]" % j, Q.obj[j], ob)
            chk("lo[%d]" % j, Q.lo[j], lo)
            chk("up[%d]" % j, Q.up[j], up)
            col = {i: x for (i, jj), x in Q.A.items() if jj == j}
            chk("col %d" % j, col, {i: x for i, x in v if x != 0})
        else:
            return None
    except (IndexError, ValueError):
        return ["malformed"]
    return bad


# --------------------------------------------------------------------------------------------------------
# running cases
# --------------------------------------------------------------------------------------------------------
class ModelProc:
    """the extracted model, answered line by line"""

    def __init__(self, exe):
        self.p = subprocess.Popen([exe, "-"], stdin=subprocess.PIPE, stdout=subprocess.PIPE, text=True, bufsize=1)

    def send(self, line, nlines=1):
        self.p.stdin.write(line + "\n")
        self.p.stdin.flush()
        return [self.p.stdout.readline().rstrip("\n") for _ in range(nlines)]

    def close(self):
        try:
            self.p.stdin.close()
            self.p.wait(timeout=10)
        except Exception:
            self.p.kill()


def blocks(out):
    res, cur = [], None
    for l in out.splitlines():
        if l.startswith("CASE "):
            cur = []
            res.append(cur)
        elif cur is not None:
            cur.append(l)
    return res


def write_cases(path, cases):
    with open(path, "w") as f:
        for k, c in enumerate(cases):
            f.write("CASE %d %s\n" % (k, c["head"]))
            for op in c["ops"]:
                f.write(op + "\n")


def run_both(exe, model, cases, tag):
    """returns (harness blocks, model blocks, harness rc, stderr tail); ops the model calls INVALID are dropped first"""
    os.makedirs(os.path.join(vlib.BUILD, "run"), exist_ok=True)
    base = os.path.join(vlib.BUILD, "run", "C07.%d.%s" % (os.getpid(), tag))
    write_cases(base + ".cases", cases)
    rc2, mout, merr = vlib.sh([model, base + ".cases"], timeout=3000)
    mb = blocks(mout)
    # drop invalid / unmodelled ops (only happens while shrinking) and run again
    dirty = False
    for c, b in zip(cases, mb):
        keep = [op for op, l in zip(c["ops"], b[1:]) if not (l.endswith(" INVALID") or l.endswith(" UNMODELLED"))]
        if len(keep) != len(c["ops"]):
            c["ops"] = keep
            dirty = True
    if dirty:
        write_cases(base + ".cases", cases)
        rc2, mout, merr = vlib.sh([model, base + ".cases"], timeout=3000)
        mb = blocks(mout)
    rc1, hout, herr = vlib.sh([exe, "run", base + ".cases"], timeout=3000)
    if not os.environ.get("VERIF_KEEP"):
        os.remove(base + ".cases")
    return blocks(hout), mb, rc1, herr[-1500:], rc2, merr[-500:]


def first_diff(h, m):
    """section and field of the first difference between two observation cores"""
    hp, mp = h.split(" | "), m.split(" | ")
    names = ["head", "Q", "T", "R"]
    for k, (a, b) in enumerate(zip(hp, mp)):
        if a != b:
            fa, fb = a.split(), b.split()
            for x, y in zip(fa, fb):
                if x != y:
                    return names[min(k, 3)], x.split("=")[0]
            return names[min(k, 3)], "len"
    return "len", "len"


def only_rounding_direction(ho, mline):
    """the real LPs differ, but the implementation's real LP is still an adjacent image of its rational LP"""
    mo = parse_obs(mline)
    if mo.mode is None or ho.Q is None or mo.Q is None:
        return False
    if ho.Q.raw != mo.Q.raw or (ho.rt, ho.ct) != (mo.rt, mo.ct) or (ho.R.m, ho.R.n) != (mo.R.m, mo.R.n):
        return False
    return not drift_failures(ho)


class Verdict:
    def __init__(self):
        self.items = []     # (signature, what, detail dict, no_input)

    def add(self, sig, what, detail, no_input=False):
        self.items.append((sig, what, detail, no_input))


def gap_values(toks, inf):
    return [v for v in values_of(toks) if Fraction(inf) <= abs(v) < FINF]


def evaluate_case(c, hl, ml, verdict, counts=None):
    """compare one case (harness lines, model lines) and evaluate the property on the implementation's observations"""
    ops = ["init"] + c["ops"]
    prev = None
    tainted = None            # first property failure of this history (later states inherit it)
    entered_unsynced = False  # SYNCMODE_AUTO entered from MANUAL with LPs that were not in sync
    stale_types = False
    deficit = prev_deficit = False
    for j, op in enumerate(ops):
        if j >= len(hl):
            break
        toks = op.split()
        name = toks[0]
        ho = parse_obs(hl[j])
        if ho.mode is None:
            verdict.add("harness-line:" + name, "unreadable harness line %r" % hl[j][:200], {"ops": ops[1:j + 1]}, True)
            break
        if counts is not None:
            counts("op:" + name)
            counts("mode:%d" % ho.mode)
        if "EXC=" in ho.add:
            verdict.add("exception:" + name, "the implementation threw in %s: %s" % (name, bytes.fromhex(ho.add.split("EXC=")[1].split()[0]).decode(errors="replace")),
                        {"ops": ops[1:j + 1], "implementation": hl[j][:3000]})
            break
        # ---- memory safety of removals: the scaleExp arrays of the rational LP must cover its rows and columns (the GMP add
        # entry points once did not grow them; every removal then read and wrote beyond them and what followed was not
        # reproducible, so a history is cut at such a removal)
        if ho.Q is not None and "sxQ" in ho.extras:
            sr, sc = (int(x) for x in ho.extras["sxQ"].split(","))
            if sr < ho.Q.m or sc < ho.Q.n:
                if not deficit:
                    verdict.add("gmp-add-scaleexp-not-grown",
                                "after %s the scaleExp arrays of the rational LP have sizes %d,%d for %d rows and %d columns" % (name, sr, sc, ho.Q.m, ho.Q.n),
                                {"ops": ops[1:j + 1], "implementation": hl[j][:2000]})
                deficit = True
            else:
                deficit = False
        if prev_deficit and (name[1:] in ("RR", "RC", "RRP", "RCP", "RRI", "RCI", "RRG", "RCG")) and (name[0] == "q" or ho.mode == 1):
            if counts is not None:
                counts("history-cut:removal-after-gmp-add")
            break
        prev_deficit = deficit
        # ---- the property on the implementation's own observation
        if name == "M" and toks[1] == "1" and prev is not None and prev.mode == 2 and (drift_failures(prev) or type_failures(prev)):
            entered_unsynced = True
        if name == "M" and toks[1] == "2" and prev is not None and prev.mode == 0 and type_failures(ho):
            # setIntParam(SYNCMODE, MANUAL) coming from ONLYREAL neither clears nor recomputes the type arrays: they describe a
            # rational LP that was freed, or one that was classified with another INFTY
            stale_types = True
        if name in ("SQ", "XS", "I") or (name == "M" and toks[1] == "1" and prev is not None and prev.mode == 0):
            stale_types = False
        if name in ("qCL", "rCL") and ho.rt == "" and ho.ct == "":
            stale_types = False
        fails = []
        mf = mirror_failures(ho)
        if mf:
            fails.append(("mirror", mf))
        if ho.mode == 1:
            df = drift_failures(ho)
            if df:
                fails.append(("drift", df))
        if ho.mode == 2 and name in ("SR", "SQ"):
            df = drift_failures(ho)
            if df:
                fails.append(("drift-after-sync", df))
        if (name == "XS" and ho.mode == 0) or (name == "SQ" and ho.mode == 2) or (name == "M" and toks[1] == "1" and prev is not None and prev.mode == 0):
            ef = exact_copy_failures(ho)
            if ef:
                fails.append(("exact-copy", ef))
        if ho.mode in (1, 2) or (name == "XS"):
            tf = type_failures(ho)
            if tf:
                fails.append(("types", tf))
        if ho.mode in (1, 2) and prev is not None and prev.mode == ho.mode and name[0] in "rqg" and not (name[0] == "r" and ho.mode == 2):
            ent = entered_failures(toks, prev, ho)
            if ent:
                fails.append(("entered", ent))
            if counts is not None and ent is not None:
                counts("entered-checked")
        # ---- correspondence with the model
        if j < len(ml) and ho.core != ml[j]:
            sec, fld = first_diff(ho.core, ml[j])
            pf = [list(x) for x in fails]
            if sec == "R" and only_rounding_direction(ho, ml[j]):
                verdict.add("real-rounding-direction:" + name,
                            "after %s the real LP of the implementation is an adjacent image of its rational LP but not the one the "
                            "model's rounding oracle (nearest-even for the conversion operator, truncation for mpq_get_d) predicts" % name,
                            {"ops": ops[1:j + 1], "implementation": ho.core[:3000], "model": ml[j][:3000]}, True)
            else:
                verdict.add("mismatch:%s:%s:%s" % (name, sec, fld),
                            "implementation and model disagree after op %d (%s): %s/%s\n impl : %s\n model: %s" % (j, op[:100], sec, fld, ho.core[:1500], ml[j][:1500]),
                            {"ops": ops[1:j + 1], "implementation": ho.core[:4000], "model": ml[j][:4000],
                             "correspondence": "SyncModel.step (rnd_impl) vs SoPlexBase<double>", "property_failures_at_this_state": pf},
                            no_input=not pf)
            break
        # areLPsInSync: (a) the routine as it is coded, re-evaluated on the observation; (b) against the definition
        if ho.Q is not None and "sync" in ho.extras:
            want = code_areLPsInSync(ho)
            if want is not None and ho.extras["sync"] != ("1" if want else "0"):
                verdict.add("areLPsInSync:differs-from-its-code:" + name,
                            "areLPsInSync(true,true) returns %s after %s, a re-evaluation of its code on the observed LPs gives %s" % (ho.extras["sync"], name, want),
                            {"ops": ops[1:j + 1], "implementation": hl[j][:3000]}, True)
            if ho.mode == 1 and any(k == "drift" for k, _ in fails) and ho.extras["sync"] == "1" and drift_failures(ho, modulo_inf=True):
                verdict.add("areLPsInSync:blind:" + drift_failures(ho, modulo_inf=True)[0].split("[")[0],
                            "areLPsInSync(true,true) returns true after %s although the LPs differ (%s)" % (name, drift_failures(ho, modulo_inf=True)[:3]),
                            {"ops": ops[1:j + 1], "implementation": hl[j][:3000]})
        if fails and tainted is None:
            kind, what = fails[0]
            sig = classify_failure(kind, what, toks, prev, ho, entered_unsynced, stale_types)
            tainted = sig
            verdict.add(sig, "property violated after op %d (%s) in mode %d: %s %s" % (j, op[:120], ho.mode, kind, what[:4]),
                        {"ops": ops[1:j + 1], "failure": [kind, what], "implementation": hl[j][:4000],
                         "model_agrees": j < len(ml) and ho.core == ml[j]})
        prev = ho
    return tainted


def classify_failure(kind, what, toks, prev, ho, entered_unsynced, stale_types):
    """stable signature of a property failure: generic unless the cause is one of the understood mechanisms"""
    name = toks[0]
    vals = values_of(toks)
    if entered_unsynced:
        return "auto-entered-from-manual-unsynced"
    if kind == "types":
        if stale_types:
            return "types:stale-after-onlyreal"
        if name in REAL_CLASSIFIER_OPS and ho.inf < INF and gap_values(toks, ho.inf):
            return "types:real-classifier-gap"
        return "types:" + name
    if kind == "entered":
        nz = [v for v in vals if v != 0]
        if name in ("rE", "qE") and nz and abs(nz[-1]) <= FEPS:
            return "entered:elem-below-epsilon-dropped"
        if name == "gE" and nz and abs(nz[-1]) < Fraction(5e-324):
            return "entered:elem-gmp-underflow-dropped"
        return "entered:" + name
    if kind == "drift":
        nz = [v for v in vals if v != 0]
        if name == "gE" and nz and abs(nz[-1]) <= FEPS:
            return "drift:elem-gmp-below-epsilon"
        if name in ("qE", "gE") and nz and abs(nz[-1]) > FEPS and abs(nz[-1]) < FEPS * (1 + Fraction(1, 2 ** 50)):
            return "drift:elem-epsilon-boundary"
        if what and what[0].startswith("dims") and name in ("qAR", "gAR", "qAC", "gAC", "qARS", "qACS", "qCR", "qCC") \
                and any(0 < abs(v) < Fraction(5e-324) / 2 for v in vals):
            return "drift:dims-underflow-implicit"
        if name in ("gAC", "gACS") and prev is not None and prev.Q is not None and prev.Q.lsense != int(ho.extras.get("psense", prev.Q.lsense)):
            return "drift:gmp-addcol-sense-after-clear"
        return "drift:%s:%s" % (name, what[0].split("[")[0].split("(")[0] if what else "")
    return "%s:%s" % (kind, name)


def evaluate(exe, model, cases, tag, counts=None):
    hb, mb, rc1, herr, rc2, merr = run_both(exe, model, cases, tag)
    res = []
    for k, c in enumerate(cases):
        v = Verdict()
        if k < len(hb) and k < len(mb):
            evaluate_case(c, hb[k], mb[k], v, counts)
            if rc1 != 0 and k == len(hb) - 1 and len(hb[k]) < len(c["ops"]) + 1:
                j = len(hb[k]) - 1
                op = c["ops"][j] if 0 <= j < len(c["ops"]) else "?"
                unsafe = any(o_.split()[0] in ("gAR", "gAC", "gARS", "gACS") for o_ in c["ops"][:j]) and \
                    op.split()[0][1:] in ("RR", "RC", "RRP", "RCP", "RRI", "RCI", "RRG", "RCG")
                v.add("crash:removal-after-gmp-add" if unsafe else "crash:" + op.split()[0],
                      "the implementation crashed (rc=%d) in operation %r" % (rc1, op[:100]),
                      {"ops": c["ops"][:j + 1], "stderr": herr})
        res.append(v)
    if rc2 != 0:
        v = Verdict()
        v.add("model-crash", "model runner failed rc=%d: %s" % (rc2, merr), {}, True)
        res.append(v)
    return res


def shrink(exe, model, case, sig, budget=60):
    """delta debugging over the operations: smallest sub-history that still produces the signature"""
    ops = list(case["ops"])

    def fails(cand):
        c = {"head": case["head"], "ops": list(cand)}
        r = evaluate(exe, model, [c], "shr")
        return any(s == sig for v in r for (s, _, _, _) in v.items), c["ops"]

    n = 2
    runs = 0
    while len(ops) >= 2 and runs < budget:
        chunk = max(1, len(ops) // n)
        reduced = False
        for start in range(0, len(ops), chunk):
            cand = ops[:start] + ops[start + chunk:]
            runs += 1
            ok, kept = fails(cand)
            if ok:
                ops = kept
                n = max(n - 1, 2)
                reduced = True
                break
        if not reduced:
            if chunk == 1:
                break
            n = min(len(ops), n * 2)
    return ops


# --------------------------------------------------------------------------------------------------------
# generator (guided by the model: it sees the dimensions after every call and drops calls the model rejects)
# --------------------------------------------------------------------------------------------------------
BIGDEN = 10 ** 103 + 267


class Gen:
    def __init__(self, rng, mp, risky):
        self.r, self.mp, self.risky = rng, mp, risky
        self.inf = INF

    # ---- values (as Fractions; real arguments are always exactly representable doubles)
    def real_coef(self):
        r = self.r
        k = r.randrange(40)
        if k == 0:
            return 0.0
        if k == 1:
            return r.choice([1e-320, -1e-320, 5e-324, 3e-310])
        if k == 2:
            return r.choice([0.1, -0.3, 1.0 / 3.0, 1e30, -2.5e-7, 123456789.125])
        if k == 3 and self.risky:
            return r.choice([1e-20, -1e-17, 1e-16, 9.9e-17])
        if k < 10:
            return r.choice([0.5, -0.5, 1.5, -2.25, 0.125, 3.75])
        v = r.randint(1, 5)
        return float(v if r.random() < 0.6 else -v)

    def real_pair(self):
        """lower <= upper, with infinities (1e100 and beyond), equal pairs, and - when risky - values in the gap"""
        r = self.r
        k = r.random()
        if k < 0.2:
            lo = r.choice([-INF, -INF, -1e101, -3e200])
        elif k < 0.8:
            lo = float(r.randint(-5, 1)) + r.choice([0.0, 0.0, 0.5, 0.1])
        elif k < 0.85 and self.risky:
            lo = r.choice([-1e30, -1e50, -self.inf, -1e99])
        else:
            lo = r.choice([-1e-320, 0.0, -1e6])
        k = r.random()
        if k < 0.2:
            hi = r.choice([INF, INF, 1e101, 1e300])
        elif k < 0.35 and abs(lo) < 1e10:
            hi = lo
        elif k < 0.4 and self.risky:
            hi = r.choice([1e30, 1e50, self.inf, 1e99])
        else:
            hi = max(lo, -1e9) + r.choice([0.0, 1.0, 2.5, 7.0, 1e-3]) if lo > -1e10 else float(r.randint(-3, 6))
        if hi < lo:
            hi = lo
        return lo, hi

    def rat_coef(self):
        r = self.r
        k = r.randrange(40)
        if k == 0:
            return Fraction(0)
        if k == 1:
            return r.choice([Fraction(1, 3), Fraction(-1, 10), Fraction(22, 7), Fraction(-7, 3)])
        if k == 2:
            return Fraction(r.randint(1, 10 ** 105), BIGDEN) * r.choice([1, -1])
        if k == 3:
            return Fraction(r.choice([1e-320, 5e-324, 0.1, 1e30]))
        if k == 4:
            return r.choice([Fraction(1, 10 ** 30), Fraction(2 ** 53 + 1), Fraction(10 ** 40 + 1, 3)])
        if k == 5 and self.risky:
            return r.choice([Fraction(1, 10 ** 20), Fraction(1, 10 ** 400), Fraction(-1, 10 ** 330), Fraction(1, 10 ** 16), Fraction(3, 10 ** 17)])
        if k < 12:
            return Fraction(r.randint(-9, 9), r.choice([2, 3, 4, 5, 7, 8]))
        v = r.randint(1, 5)
        return Fraction(v if r.random() < 0.6 else -v)

    def rat_pair(self):
        r = self.r
        inf = Fraction(self.inf)
        k = r.random()
        if k < 0.2:
            lo = r.choice([-inf, -inf, -FINF, -inf * 3, -Fraction(10) ** 100])
        elif k < 0.85:
            lo = Fraction(r.randint(-15, 3), r.choice([1, 1, 2, 3, 7]))
        else:
            lo = r.choice([Fraction(-1, 10 ** 25), Fraction(0), -Fraction(10 ** 40, 7), Fraction(-(10 ** 104), BIGDEN)])
        k = r.random()
        if k < 0.2:
            hi = r.choice([inf, inf, FINF, inf * 2, Fraction(10) ** 100, inf - 1])
        elif k < 0.35:
            hi = lo
        else:
            hi = (lo if abs(lo) < 10 ** 12 else Fraction(0)) + r.choice([Fraction(0), Fraction(1, 3), Fraction(5, 2), Fraction(10 ** 104, BIGDEN), Fraction(7)])
        if hi < lo:
            hi = lo
        return lo, hi

    def vec(self, dim, grow, real, allow_grow=True):
        r = self.r
        top = dim + (grow if (allow_grow and r.random() < 0.25) else 0)
        if top <= 0:
            return []
        k = r.randint(0, min(top, 4))
        idx = r.sample(range(top), k)
        if r.random() < 0.5:
            idx.sort()
        return [(j, self.real_coef() if real else self.rat_coef()) for j in idx]

    @staticmethod
    def tok(x, real):
        return dy(x) if real else fr(x)

    def vs(self, v, real):
        return ("%d " % len(v) + " ".join("%d %s" % (j, self.tok(x, real)) for j, x in v)).strip()

    # ---- one call for the current dimensions
    def call(self, o):
        """o: parsed observation of the model's current state; returns a case-file line"""
        r = self.r
        mode = o.mode
        # dimensions that are safe for both LPs
        if o.Q is not None and mode == 1:
            m, n = min(o.R.m, o.Q.m), min(o.R.n, o.Q.n)
        else:
            m, n = o.R.m, o.R.n
        qm, qn = (o.Q.m, o.Q.n) if o.Q is not None else (0, 0)
        k = r.random()
        # which interface
        if mode == 0:
            iface = "r" if k < 0.9 else r.choice("qg")
        elif mode == 1:
            iface = "r" if k < 0.45 else ("q" if k < 0.8 else "g")
        else:
            iface = "r" if k < 0.35 else ("q" if k < 0.8 else "g")
        if iface != "r" and o.Q is not None and mode != 1:
            m, n = qm, qn
        real = iface == "r"
        t = lambda x: self.tok(x, real)
        pair = self.real_pair if real else self.rat_pair
        coef = self.real_coef if real else self.rat_coef
        small = m + n < 3
        kinds = []
        # weights
        kinds += ["AR"] * (6 if m < 5 else 1) + ["AC"] * (6 if n < 5 else 1)
        if not small:
            kinds += ["ARS", "ACS"]
        if m > 0:
            kinds += ["L", "R", "G", "G", "LV", "RV", "GV", "CR", "RR"] + (["RRP", "RRI", "RRG"] if m > 2 else [])
        if n > 0:
            kinds += ["W", "U", "B", "B", "O", "WV", "UV", "BV", "OV", "CC", "RC"] + (["RCP", "RCI", "RCG"] if n > 2 else [])
        if m > 0 and n > 0:
            kinds += ["E"] * 4
        if r.random() < 0.03:
            kinds = ["CL"]
        kd = r.choice(kinds)
        if iface == "g" and kd not in ("AR", "AC", "ARS", "ACS", "L", "G", "W", "U", "B", "O", "RV", "E"):
            iface = "q"
        p = iface
        if kd == "AR":
            lo, hi = pair()
            return "%sAR %s %s %s" % (p, t(lo), t(hi), self.vs(self.vec(n, 2, real), real))
        if kd == "AC":
            lo, hi = pair()
            return "%sAC %s %s %s %s" % (p, t(coef()), t(lo), t(hi), self.vs(self.vec(m, 2, real), real))
        if kd in ("ARS", "ACS"):
            cnt = r.randint(1, 3)
            parts = []
            for _ in range(cnt):
                lo, hi = pair()
                if kd == "ARS":
                    parts.append("%s %s %s" % (t(lo), t(hi), self.vs(self.vec(n, 2, real, allow_grow=(iface != "g")), real)))
                else:
                    parts.append("%s %s %s %s" % (t(coef()), t(lo), t(hi), self.vs(self.vec(m, 2, real, allow_grow=(iface != "g")), real)))
            return "%s%s %d %s" % (p, kd, cnt, " ".join(parts))
        if kd == "CR":
            lo, hi = pair()
            return "%sCR %d %s %s %s" % (p, r.randrange(m), t(lo), t(hi), self.vs(self.vec(n, 0, real), real))
        if kd == "CC":
            lo, hi = pair()
            return "%sCC %d %s %s %s %s" % (p, r.randrange(n), t(coef()), t(lo), t(hi), self.vs(self.vec(m, 0, real), real))
        if kd in ("L", "R", "W", "U"):
            dim = m if kd in ("L", "R") else n
            i = r.randrange(dim)
            # keep lower <= upper: use the current other side of the model's LP
            lp = o.R if (real or o.Q is None) else o.Q
            lo, hi = pair()
            if kd in ("L", "W"):
                other = (lp.rhs if kd == "L" else lp.up)[i]
                x = lo if Fraction(lo) <= Fraction(other) else other
            else:
                other = (lp.lhs if kd == "R" else lp.lo)[i]
                x = hi if Fraction(hi) >= Fraction(other) else other
            return "%s%s %d %s" % (p, kd, i, t(x))
        if kd in ("G", "B"):
            dim = m if kd == "G" else n
            lo, hi = pair()
            return "%s%s %d %s %s" % (p, kd, r.randrange(dim), t(lo), t(hi))
        if kd == "O":
            return "%sO %d %s" % (p, r.randrange(n), t(coef()))
        if kd in ("GV", "BV"):
            dim = m if kd == "GV" else n
            ps = [pair() for _ in range(dim)]
            return "%s%s %d %s %s" % (p, kd, dim, " ".join(t(a) for a, _ in ps), " ".join(t(b) for _, b in ps))
        if kd in ("LV", "RV", "WV", "UV"):
            dim = m if kd in ("LV", "RV") else n
            lp = o.R if (real or o.Q is None) else o.Q
            xs = []
            for i in range(dim):
                lo, hi = pair()
                if kd in ("LV", "WV"):
                    other = (lp.rhs if kd == "LV" else lp.up)[i]
                    xs.append(lo if Fraction(lo) <= Fraction(other) else other)
                else:
                    other = (lp.lhs if kd == "RV" else lp.lo)[i]
                    xs.append(hi if Fraction(hi) >= Fraction(other) else other)
            if iface == "g":
                cnt = r.randint(0, dim)
                return "gRV %d %s" % (cnt, " ".join(t(x) for x in xs[:cnt]))
            return "%s%s %d %s" % (p, kd, dim, " ".join(t(x) for x in xs))
        if kd == "OV":
            return "%sOV %d %s" % (p, n, " ".join(t(coef()) for _ in range(n)))
        if kd == "E":
            return "%sE %d %d %s" % (p, r.randrange(m), r.randrange(n), t(coef()))
        if kd in ("RR", "RC"):
            return "%s%s %d" % (p, kd, r.randrange(m if kd == "RR" else n))
        if kd in ("RRP", "RCP"):
            dim = m if kd == "RRP" else n
            perm = [r.choice([-1, -7, 0, 3, 99]) if r.random() < 0.4 else r.randint(0, 9) for _ in range(dim)]
            return "%s%s %d %s" % (p, kd, dim, " ".join(str(x) for x in perm))
        if kd in ("RRI", "RCI"):
            dim = m if kd == "RRI" else n
            idx = r.sample(range(dim), r.randint(0, min(dim, 3)))
            return ("%s%s %d %s" % (p, kd, len(idx), " ".join(str(x) for x in idx))).strip()
        if kd in ("RRG", "RCG"):
            dim = m if kd == "RRG" else n
            a = r.randrange(dim)
            b = r.randint(a, dim - 1)
            return "%s%s %d %d" % (p, kd, a, b)
        return "%sCL" % p

    def control(self, o, switch_modes):
        r = self.r
        k = r.random()
        if k < 0.3 and switch_modes:
            return "M %d" % r.randrange(3)
        if k < 0.4:
            return "M %d" % o.mode
        if k < 0.5:
            v = r.choice([1e100, 1e100, 1e20, 1e50, 1e10, 1e99, 9e9, 2e100, 1e15])
            if not self.risky:
                v = 1e100
            if 1e10 <= v <= 1e100:
                self.inf = v
            return "I %s" % dy(v)
        if k < 0.6:
            return "S %d" % r.choice([1, -1])
        if k < 0.7:
            return "F %s" % dy(r.choice([0.0, 1.5, -3.0, 0.1, 1e-320, 1e101]))
        if k < 0.8:
            return "SR"
        if k < 0.9:
            return "SQ"
        return "XS"

    def history(self, cid, sm, sn, nops, switch_modes):
        head = "%d %d" % (sm, sn)
        lines = self.mp.send("CASE %d %s" % (cid, head), 2)
        o = parse_obs(lines[1])
        ops = []
        self.inf = INF
        tries = 0
        while len(ops) < nops and tries < 4 * nops:
            tries += 1
            if self.r.random() < (0.3 if switch_modes else 0.1):
                line = self.control(o, switch_modes)
            else:
                line = self.call(o)
            ans = self.mp.send(line)[0]
            if ans.endswith(" INVALID") or ans.endswith(" UNMODELLED"):
                continue
            ops.append(line)
            o = parse_obs(ans)
        return {"head": head, "ops": ops}



def probes(ck, exe):
    """histories outside the modelled domain, run on the implementation only: the single-add GMP entry points with an
    explicit zero among the values (the row/column files of the rational LP stop mirroring each other)"""
    d1, d0, d5, inf = dy(1), dy(0), dy(5), dy(INF)
    base = ["rAC %s %s %s 0" % (d1, d0, inf), "rAR %s %s 1 0 %s" % (d0, d5, d1)]
    cases = [{"head": "1 -1", "ops": base + ["gAR 0/1 1/1 1 4 0/1"]},
             {"head": "1 -1", "ops": base + ["gAC 1/1 0/1 1/1 1 6 0/1"]},
             {"head": "1 1", "ops": ["gAR -2/1 5/1 2 0 0/1 1 -4/1", "gAR -1/1 6/1 1 0 -1/1", "rE 0 0 1:1", "rCC 0 0:0 -1:0 3:0 1 1 1:0"]}]
    # addRowsRational(const LPRowSetRational&) in SYNCMODE_AUTO with a coefficient that underflows to 0.0
    uflow = {"head": "1 -1", "ops": ["rAC %s %s %s 1 0 %s" % (d0, dy(-5), inf, dy(3)), "qRR 0",
                                     "qARS 2 -1/1 0/1 0 -3/1 1/3 2 0 1/1" + "0" * 400 + " 1 1/1"]}
    cases.append(uflow)
    # DESIGN.md section 9 item 8: after a floating-point solve with persistent scaling the real LP is stored scaled; the
    # copy made for an exact solve in SYNCMODE_ONLYREAL (optimize()), and the copy made by setIntParam(SYNCMODE, AUTO), must
    # still be the LP the accessors report
    sc_ops = ["rAC %s %s %s 0" % (d1, d0, inf), "rAC %s %s %s 0" % (d1, d0, dy(10)),
              "rAR %s %s 2 0 %s 1 %s" % (d1, inf, dy(1000), d1), "rAR %s %s 2 0 %s 1 %s" % (dy(2), inf, d1, dy(3)), "OPT 0"]
    scaled = {"head": "0 -1 2 1", "ops": sc_ops + ["OPT 2"]}
    scaled2 = {"head": "0 -1 2 1", "ops": sc_ops + ["M 1"]}
    cases.append(scaled)
    cases.append(scaled2)
    # single-index edits AFTER a floating-point solve with persistent scaling in SYNCMODE_AUTO: the real LP is stored scaled, the
    # entered numbers are user-space numbers; every value old * 2^k is tried so that the entered number also hits whatever the
    # solver stores internally for that bound / side (a comparison of an entered with a stored number would then be fooled)
    post = []
    sc_lp = ["rAC %s %s %s 0" % (d1, d1, dy(512)), "rAC %s %s %s 0" % (d1, dy(2), dy(64)), "rAC %s %s %s 0" % (dy(3), d0, dy(4)),
             "rAR %s %s 3 0 %s 1 %s 2 %s" % (d1, dy(4096), dy(1024), dy(2), dy(0.25)), "rAR %s %s 2 0 %s 1 %s" % (dy(2), dy(96), d1, dy(3)),
             "rAR %s %s 2 1 %s 2 %s" % (dy(0.5), dy(8), dy(1.0 / 1024), dy(1.0 / 64))]
    for (kind, idx, old, other) in (("W", 0, 1.0, 512.0), ("U", 0, 512.0, 1.0), ("W", 1, 2.0, 64.0), ("U", 1, 64.0, 2.0), ("L", 0, 1.0, 4096.0),
                                    ("R", 0, 4096.0, 1.0), ("L", 2, 0.5, 8.0), ("R", 2, 8.0, 0.5)):
        for iface in ("r", "q"):
            ops = list(sc_lp) + ["OPT 0"]
            want = []
            # every power of two times the old value that keeps lower <= upper / lhs <= rhs (the other side is not touched)
            if kind in ("W", "L"):
                ks = [k for k in range(-12, 13) if k != 0 and old * 2.0 ** k <= other] + [0]
            else:
                ks = [k for k in range(-12, 13) if k != 0 and old * 2.0 ** k >= other] + [0]
            for k in ks:
                v = old * 2.0 ** k
                tok = dy(v) if iface == "r" else "%d/%d" % Fraction(v).as_integer_ratio()
                ops.append("%s%s %d %s" % (iface, kind, idx, tok))
                want.append((len(ops), kind, idx, Fraction(v)))
            c = {"head": "1 -1 2 1", "ops": ops, "post": want}
            post.append(c)
            cases.append(c)
    base_p = os.path.join(vlib.BUILD, "run", "C07.%d.probe.cases" % os.getpid())
    out = ""
    for c in cases:
        write_cases(base_p, [c])
        rc, o1, err = vlib.sh([exe, "run", base_p], timeout=600)
        out += o1 if o1.startswith("CASE ") else "CASE 0\n"
        if rc != 0:
            ck.violation("crash:probe:" + c["ops"][-1].split()[0], "the implementation crashed in a probe history (rc=%d): %s" % (rc, c["ops"]),
                         {"head": c["head"], "ops": c["ops"], "stderr": err[-1500:]})
    os.remove(base_p)
    for c, b in zip(cases, blocks(out)):
        for j, line in enumerate(b):
            o = parse_obs(line)
            if o.mode is None:
                continue
            ck.evaluated(("probe", c["ops"][j - 1] if j else "init"))
            if "post" in c:
                for (jj, kind, idx, v) in c["post"]:
                    if jj != j or o.Q is None:
                        continue
                    fld = {"W": "lo", "U": "up", "L": "lhs", "R": "rhs"}[kind]
                    rv, qv = getattr(o.R, fld)[idx], getattr(o.Q, fld)[idx]
                    ck.count("probe:scaled-edit:%s" % c["ops"][j - 1][:2])
                    if Fraction(rv) != v or Fraction(qv) != v:
                        ck.violation("scaled-edit-not-stored:%s" % c["ops"][j - 1][:2],
                                     "after a floating-point solve with persistent scaling in SYNCMODE_AUTO, %s entered the value %s but the real LP reports %s and "
                                     "the rational LP %s for that %s" % (c["ops"][j - 1], v, rv, qv, fld),
                                     {"head": c["head"], "ops": c["ops"][:j], "implementation": line[:3000]})
                continue
            if c is scaled or c is scaled2:
                if j == len(c["ops"]) and o.Q is not None:
                    f = exact_copy_failures(o)
                    if f:
                        ck.violation("onlyreal-sync-copies-scaled-lp:" + ("exact-solve" if c is scaled else "syncmode-auto"),
                                     "after a floating-point solve with persistent scaling, _syncLPRational (%s) copies the scaled LP: "
                                     "the rational LP differs from the LP the real accessors report in %s" %
                                     ("before the exact solve in SYNCMODE_ONLYREAL" if c is scaled else "setIntParam(SYNCMODE, AUTO) from ONLYREAL", f),
                                     {"head": c["head"], "ops": c["ops"][:j], "implementation": line[:3000], "failure": f})
                continue
            if c is uflow:
                f = mirror_failures(o)
                if f:
                    ck.violation("rational-multi-add-underflow:real-row-col-files",
                                 "addRowsRational(LPRowSetRational) in SYNCMODE_AUTO with a coefficient whose double image is 0.0 leaves an "
                                 "uninitialised entry in the column file of the real LP: %s" % f,
                                 {"head": c["head"], "ops": c["ops"][:j], "implementation": line[:3000], "failure": f})
                    break
                continue
            f = mirror_failures(o) or (drift_failures(o) if o.mode == 1 else [])
            if f:
                kind = "row-col-files" if "files" in f[0] else f[0].split("(")[0].split("[")[0]
                ck.violation("gmp-add-explicit-zero:" + kind,
                             "addRowRational/addColRational(const mpq_t*) with an explicit zero value: %s after %s" % (f[:2], c["ops"][:j]),
                             {"head": c["head"], "ops": c["ops"][:j], "implementation": line[:3000], "failure": f})
                break


def corpus_cases():
    """minimal histories of the recorded findings and of every sync-mode transition (run first)"""
    d1, d0, d5 = dy(1), dy(0), dy(5)
    inf = dy(INF)
    base = ["rAC %s %s %s 0" % (d1, d0, inf), "rAR %s %s 1 0 %s" % (d0, d5, d1)]
    cs = []
    # classifier thresholds
    cs.append({"head": "1 -1", "ops": base + ["I %s" % dy(1e20), "rG 0 %s %s" % (dy(-1e30), d1), "rL 0 %s" % dy(-1e30)]})
    cs.append({"head": "1 -1", "ops": base + ["I %s" % dy(1e20), "rB 0 %s %s" % (d0, dy(1e30)), "rCR 0 %s %s 0" % (dy(-1e50), d1)]})
    # changeElement and tiny values
    cs.append({"head": "1 -1", "ops": base + ["gE 0 0 1/1" + "0" * 330]})
    cs.append({"head": "1 -1", "ops": base + ["gE 0 0 1/1" + "0" * 20]})
    cs.append({"head": "1 -1", "ops": base + ["qE 0 0 1/1" + "0" * 20]})
    cs.append({"head": "1 -1", "ops": base + ["rE 0 0 %s" % dy(1e-20)]})
    # stale type arrays
    cs.append({"head": "1 -1", "ops": base + ["M 0", "M 2", "qAR 1/1 1/1 1 0 2/1", "SQ"]})
    cs.append({"head": "0 1", "ops": ["rAC %s %s %s 0" % (d1, dy(-1e99), dy(1e30)), "XS", "I %s" % dy(1e15), "M 2", "qL 0 0/1"][:4]})
    # implicit growth through a value that underflows
    cs.append({"head": "1 -1", "ops": base + ["qAR 0/1 1/1 2 0 1/3 3 1/1" + "0" * 400]})
    # AUTO entered from MANUAL
    cs.append({"head": "2 -1", "ops": ["rAC %s %s %s 0" % (d1, d0, inf), "M 1", "rAR %s %s 1 0 %s" % (d0, d5, d1)]})
    # GMP addCol after clear under MINIMIZE
    cs.append({"head": "1 -1", "ops": base + ["rCL", "gAC 5/1 0/1 1/1 0"]})
    # all mode transitions around a small LP, both sync calls, exact-solve copy
    for a in (0, 1, 2):
        for b in (0, 1, 2):
            cs.append({"head": "%d 1" % a, "ops": base + ["qAC 1/3 -1/1 2/1 1 0 1/7", "M %d" % b, "SR", "SQ", "XS", "rL 0 %s" % dy(-2),
                                                     "qU 0 7/2", "SQ", "SR", "M %d" % a]})
    return cs


def main():
    ck = vlib.Check("C07", "proof")
    proved = ck.prove()
    try:
        exe = vlib.build_harness("C07")
    except vlib.BuildError as e:
        ck.violation("harness-build", "harness does not compile against the current tree: %s" % str(e)[-1500:], {"kind": "build"}, no_input=True)
        ck.finish()
    try:
        model = vlib.build_model("C07")
    except vlib.BuildError as e:
        ck.violation("model-build", "extracted model does not build: %s" % str(e)[-800:], {"kind": "extraction"}, no_input=True)
        ck.finish()

    if ck.args.replay:
        rp = json.load(open(ck.args.replay))
        cases = [{"head": rp.get("head", "1 -1"), "ops": rp.get("ops", [])}]
    else:
        nh, nops = (200, 25) if ck.tier == "quick" else (5000, 80)
        cases = corpus_cases()
        cdir = os.path.join(vlib.ROOT, "corpus", "C07")
        if os.path.isdir(cdir):
            for f in sorted(os.listdir(cdir)):
                ls = [l.rstrip("\n") for l in open(os.path.join(cdir, f)) if l.strip()]
                if ls and ls[0].startswith("CASE "):
                    cases.append({"head": " ".join(ls[0].split()[2:]), "ops": ls[1:]})
        mp = ModelProc(model)
        for c in range(nh):
            fam = ck.rng.random()
            risky = ck.rng.random() < 0.25
            g = Gen(ck.rng, mp, risky)
            if fam < 0.4:
                sm, switch = 1, False                       # SYNCMODE_AUTO throughout
            elif fam < 0.55:
                sm, switch = 2, False                       # MANUAL with sync calls
            else:
                sm, switch = ck.rng.randrange(3), True      # switching modes mid-history
            ck.count("family:%s%s" % ({0: "onlyreal", 1: "auto", 2: "manual"}[sm] + ("+switch" if switch else ""), "+risky" if risky else ""))
            cases.append(g.history(len(cases), sm, ck.rng.choice([1, -1]), ck.rng.randint(4, nops), switch))
        mp.close()

    # conversions as the code performs them against the model's rounding oracle
    conv_check(ck, exe, model)
    if not ck.args.replay:
        probes(ck, exe)

    results = evaluate(exe, model, cases, "main", counts=ck.count)
    shrunk_sigs = set()        # a signature is shrunk once, from the first history that shows it (later ones must not overwrite its replay)
    for k, v in enumerate(results):
        c = cases[k] if k < len(cases) else {"head": "", "ops": []}
        for op in c["ops"]:
            ck.evaluated((op,))
        if k < 3:
            ck.sample({"head": c["head"], "ops": [o[:80] for o in c["ops"][:6]]})
        for sig, what, detail, no_input in v.items:
            d = dict(detail)
            d["head"] = c["head"]
            # is this signature new (not a known finding, not already recorded)?  then shrink the history
            fresh = ck.violation(sig, what, d, no_input=no_input)
            if fresh and "ops" in d and len(d["ops"]) > 3 and not ck.args.replay and sig not in shrunk_sigs:
                shrunk_sigs.add(sig)
                small = shrink(exe, model, {"head": c["head"], "ops": d["ops"]}, sig)
                for i, (s, w, r_, n_) in enumerate(ck.violations):
                    if s == sig:
                        r2 = dict(r_)
                        r2["ops_unshrunk"] = r_.get("ops")
                        r2["ops"] = small
                        ck.violations[i] = (s, w + "\n shrunk history: " + "; ".join(o[:100] for o in small), r2, n_)
    ck.cov["rule"] = ("histories of calls of the real interface (r*), the rational interface (q*), the GMP entry points (g*), syncLPReal/"
                      "syncLPRational (SR/SQ), the copy before an exact solve (XS), setIntParam(SYNCMODE/OBJSENSE) and setRealParam(INFTY/"
                      "OBJ_OFFSET), generated against the model's current dimensions; an evaluation is one call of one history, compared "
                      "exactly with the model (rational LP, type arrays, real LP, mode, INFTY) and checked against the property on the "
                      "implementation's own observation; distinct = distinct call texts")
    ck.cov["trusted_base"] = ["Coq 8.16.1 kernel (coqc), no native_compute; vm_compute for the refutation witnesses and examples",
                              "axioms: none (Print Assumptions: closed under the global context)" if not getattr(ck, "coq", {}).get("axioms") else "axioms: " + ", ".join(ck.coq["axioms"]),
                              "extraction: ExtrOcamlBasic only; OCaml 4.13.1; extract/zutil.ml + extract/C07/driver.ml (zarith for I/O and for reducing fractions)",
                              "harness/C07.cpp compiled with g++ -fno-access-control against /repo/src (reads _rowTypes/_colTypes, _rationalLP, _realLP)",
                              "the rounding oracle of the model is instantiated with rnd_impl (nearest-even for the Rational->double conversion operator of Boost, "
                              "truncation for mpq_get_d); it is compared with the linked libraries on every run (conv sub-command)",
                              "checks/C07.py: generator, comparison, the Python rendering of InSync (adjacency by math.nextafter on exact Fractions)"]
    ck.assumptions = ["the matrix of either LP is modelled densely: that row file and column file mirror each other is property C06 (the harness "
                      "prints both and the check compares them)",
                      "calls stay inside the documented domain (valid indices, sparse vectors without repeated indices, finite doubles, no IEEE infinity/NaN "
                      "arguments; the GMP array entry points addRows/addCols only with existing column/row indices; clearLPRational not in SYNCMODE_ONLYREAL "
                      "without a rational LP)",
                      "no solve between the calls (persistent scaling of the real LP is examined by property C09 and by one corpus history here)"]
    ck.finish()


def conv_check(ck, exe, model):
    """Rational -> double as the linked libraries do it vs. rnd_impl"""
    r = ck.rng
    vals = [Fraction(1, 3), Fraction(1, 10), Fraction(2 ** 53 + 1), Fraction(2 ** 53 + 3), Fraction(1, 10 ** 323), Fraction(3, 10 ** 323),
            Fraction(1, 10 ** 400), Fraction(5e-324) / 2, Fraction(5e-324) * 3 / 2, Fraction(5e-324) / 2 + Fraction(1, 10 ** 400),
            Fraction(2.2250738585072014e-308) - Fraction(5e-324) / 2, Fraction(2.2250738585072014e-308) - Fraction(5e-324) / 4,
            Fraction(10) ** 100, Fraction(1e100), Fraction(1e100) + 1, Fraction(10) ** 300]
    for _ in range(300):
        e = r.randint(-1080, 900)
        vals.append(Fraction(r.randint(1, 10 ** 40), r.randint(1, 10 ** 40)) * Fraction(2) ** e * r.choice([1, -1]))
    for _ in range(60):
        e = r.randint(-1080, -1020)
        vals.append(Fraction(r.randint(1, 2 ** 12), 2 ** 11) * Fraction(2) ** e)
    os.makedirs(os.path.join(vlib.BUILD, "run"), exist_ok=True)
    p = os.path.join(vlib.BUILD, "run", "C07.%d.conv" % os.getpid())
    with open(p, "w") as f:
        f.write("\n".join(fr(v) for v in vals) + "\n")
    rc, out, err = vlib.sh([exe, "conv", p], timeout=600)
    # the model's answers: a one-row LP in AUTO mode, qE (conversion operator) and gE (mpq_get_d) on entry (0,0)
    lines = ["CASE 0 1 1", "rAC 1:0 0:0 1:0 0", "rAR 0:0 1:0 1 0 1:0"]
    big = Fraction(1)
    for v in vals:
        lines.append("qL 0 %s" % fr(-abs(v) - 1))   # lhs: conversion operator on -|v|-1 (keeps lhs <= rhs)
        lines.append("qO 0 %s" % fr(v))
        lines.append("gE 0 0 %s" % fr(v))
    cf = p + ".cases"
    with open(cf, "w") as f:
        f.write("\n".join(lines) + "\n")
    rc2, mout, _ = vlib.sh([model, cf], timeout=600)
    os.remove(p)
    os.remove(cf)
    mo = [l for l in mout.splitlines() if l.startswith("qO ")]
    me = [l for l in mout.splitlines() if l.startswith("gE ")]
    hl = out.splitlines()
    n = 0
    for v, h, m, m2 in zip(vals, hl, mo, me):
        f = dict(tok.split("=") for tok in h.split()[1:])
        o = parse_obs(m)
        n += 1
        ck.evaluated(("conv", v))
        got = o.R.obj[0]
        if undy(f["conv"]) != got or f["conv"] != f["vec"]:
            ck.violation("conv-oracle", "Rational -> double: the conversion operator gives %s, VectorBase<double>(VectorRational) %s, rnd_impl RConv %s for %s" %
                         (f["conv"], f["vec"], dy(got), fr(v)[:80]), {"value": fr(v), "implementation": h[-200:], "model": dy(got)}, no_input=True)
        if not adjacent(undy(f["conv"]), v) or not adjacent(undy(f["getd"]), v):
            ck.violation("conv-not-adjacent", "Rational -> double conversion of %s is not adjacent: %s / %s" % (fr(v)[:80], f["conv"], f["getd"]),
                         {"value": fr(v), "implementation": h[-200:]})
        if abs(v) > 2 * FEPS:
            got2 = parse_obs(m2).R.A.get((0, 0), 0.0)
            if undy(f["getd"]) != got2:
                ck.violation("conv-oracle-getd", "mpq_get_d gives %s, rnd_impl RGetD %s for %s" % (f["getd"], dy(got2), fr(v)[:80]),
                             {"value": fr(v), "implementation": h[-200:], "model": dy(got2)}, no_input=True)
        # mpq_get_d truncates
        t = math.ldexp(1, -1074)
        want = undy(f["getd"])
        tr = Fraction(want)
        if not (abs(tr) <= abs(v) and (tr == v or abs(Fraction(math.nextafter(want, math.copysign(math.inf, want)))) > abs(v))):
            ck.violation("conv-getd", "mpq_get_d(%s) = %s is not the truncation" % (fr(v)[:80], f["getd"]), {"value": fr(v)}, no_input=True)
    ck.count("conv-values", n)


if __name__ == "__main__":
    main()
