#!/usr/bin/env python3
"""C04 - every reported basis is valid, regular, consistent across queries and reusable.

prove (Properties_C04: descriptor logic) + correspondence of the extracted model with SoPlexBase::setBasis / getBasis /
basisRowStatus / basisColStatus / getBasisInd / SPxSolverBase::isBasisValid on ALL status arrays of small LPs in the
three storage branches + histories (solves ending optimal / infeasible / unbounded / aborted, setBasis, LP
modifications): model isBasisValid accepts every reported basis, query consistency, exact regularity of bases
produced by solves, warm starts (same object, fresh object) against cold solves + forced-basic exact solves."""
import os
import sys
from fractions import Fraction

sys.path.insert(0, os.path.dirname(os.path.abspath(__file__)))
sys.path.insert(0, os.path.dirname(os.path.dirname(os.path.abspath(__file__))))
import vlib
import lpgen
import basiscommon as bc

HARNESSES = ["C04"]
MODEL = True
OBJ_TOL = 1e-6


# --------------------------------------------------------------------------------------------------------------
# part A: all status arrays of small LPs, three branches, exact line-by-line correspondence
# --------------------------------------------------------------------------------------------------------------
def part_enum(ck, exe, model):
    r = ck.rng
    if ck.tier == "quick":
        dims = [(0, 1), (1, 0), (1, 1), (2, 1), (1, 2), (2, 2), (3, 1), (1, 3), (2, 3), (3, 2), (1, 4), (3, 3), (2, 4)]
        undef_dims = [(1, 1), (2, 2), (2, 3)]
    else:
        dims = [(0, 1), (1, 0), (1, 1), (2, 1), (1, 2), (2, 2), (3, 1), (1, 3), (2, 3), (3, 2), (1, 4), (4, 1), (3, 3), (2, 4), (4, 2),
                (3, 3), (2, 3), (3, 4), (4, 3), (2, 5), (5, 2), (3, 4), (4, 4), (3, 5)]
        undef_dims = [(1, 1), (2, 2), (2, 3), (3, 3), (2, 4)]
    cases = []
    for (m, n) in dims:
        cases.append((bc.gen_small(r, m, n), "ULFZB"))
    for (m, n) in undef_dims:
        cases.append((bc.gen_small(r, m, n), "ULFZB?"))
    branches = [("C", ["NEW", "REP C"], "1", "0"), ("R", ["NEW", "REP R"], "1", "1"), ("D", ["NEW", "DETACH"], "0", None)]
    htxt, mtxt, keys = "", "", []
    for k, (p, al) in enumerate(cases):
        for (bn, pre, loaded, rowrep) in branches:
            cid = "e%d%s" % (k, bn)
            keys.append((cid, k, bn, al))
            htxt += p.text(cid) + "\n" + "\n".join(pre) + "\nDUMP d0\nENUM e %s\n" % al
            # in the detached branch isBasisValid is evaluated on the solver as it is: a fresh object is in row representation
            mtxt += bc.lp_block_from_lp(p, cid) + "\nQ nb nobasis\nQ e enum %s %s %s\n" % (loaded, rowrep if rowrep is not None else "1", al)
    rc, hout, herr = bc.run_harness(ck, exe, htxt, "enum")
    mout = bc.run_model(ck, model, mtxt, "enum")
    HB, MB = lpgen.blocks(hout), lpgen.blocks(mout)
    MANS = bc.answers(mout)
    if rc != 0:
        ck.violation("crash:enum", "harness crashed in the enumeration part (rc=%d)" % rc, {"kind": "crash", "stderr": herr[-500:]})
    nline = 0
    rlines = {}
    for (cid, k, bn, al) in keys:
        p = cases[k][0]
        hl = [l for l in HB.get(cid, []) if l.startswith("E ")]
        ml = [l for l in MB.get(cid, []) if l.startswith("E ")]
        ck.count("enum:branch:" + bn)
        ck.count("enum:dim:%d" % (p.m + p.n))
        # the state before any setBasis: slack basis answers
        d0 = [bc.kv(l) for l in HB.get(cid, []) if l.startswith("DUMP ")]
        nb = MANS.get(cid, {}).get("nb")
        if d0 and nb and d0[0]["has"] == "0":
            obs = tuple(bc.stat(d0[0].get(t, "")) for t in ("rows", "cols", "prow", "pcol")) + (d0[0].get("ind", "").rstrip(";"),)
            exp = tuple(bc.stat(nb.get(t, "")) for t in ("rows", "cols", "prow", "pcol")) + (nb.get("ind", "").rstrip(";"),)
            ck.evaluated((cid, "nobasis"))
            if obs != exp:
                ck.violation("nobasis-correspondence:%s" % bn, "without a basis the queries answer %s, the model says %s" % (obs, exp),
                             {"lp": p.text(cid), "observed": obs, "model": exp, "branch": bn})
        if len(hl) != len(ml) or len(hl) != len(al) ** (p.m + p.n):
            ck.violation("enum-count", "enumeration of %s produced %d harness / %d model lines, expected %d" % (cid, len(hl), len(ml), len(al) ** (p.m + p.n)),
                         {"lp": p.text(cid), "kind": "correspondence"}, no_input=True)
            continue
        if bn == "R":
            rlines[k] = [x.split(" | ")[0] for x in ml]
        for li, (a, b) in enumerate(zip(hl, ml)):
            nline += 1
            left, right = b.split(" | ")
            ex = dict(w.split("=", 1) for w in right.split())
            t = a.split()
            rows, cols = t[1], t[2]
            ha = dict(w.split("=", 1) for w in t[3:])
            if a != left and a.rsplit(" v=", 1)[0] == left.rsplit(" v=", 1)[0] and ha["v"] == ex["vc"]:
                # only the isBasisValid answer differs from the model of the code as it was written (dim()), and it is the documented one
                ck.count("enum:isBasisValid-answers-as-documented(fixed variant)")
                left = a
            if a != left and bn == "D" and k in rlines and a.rsplit(" v=", 1)[0] == rlines[k][li].rsplit(" v=", 1)[0]:
                # setBasis loaded the LP and let the solver validate the arrays (fixed variant): same answers as in the loaded branch
                ck.count("enum:outside-setBasis-validated(fixed variant)")
                left = a
                ha["h"] = "0" if ex["vc"] != "1" else ha["h"]      # nothing invalid is reported in this variant
            if a != left:
                ck.violation("setbasis-correspondence:%s" % bn,
                             "setBasis/getBasis/status/index queries differ from the model in branch %s for rows=%s cols=%s: implementation '%s' model '%s'" % (bn, rows, cols, a, left),
                             {"lp": p.text(cid), "lp_format": p.lp_format(), "branch": bn, "rows": rows, "cols": cols, "observed": a, "model": left,
                              "theorem": "correspondence of BasisModel.sp_setBasis/sp_getBasis/sp_rowStatus/sp_colStatus/sp_getBasisInd/isBasisValid_rep"})
                continue
            # property level (i): isBasisValid must mean "one basic variable per row ..." in every representation
            if ha["v"] != ex["vc"]:
                ck.violation("isbasisvalid-rowrep-dim",
                             "SPxSolverBase::isBasisValid returns %s for rows=%s cols=%s (%d rows, %d columns, row representation) but the basis is %s" % (
                                 ha["v"], rows, cols, p.m, p.n, "valid" if ex["vc"] == "1" else "invalid"),
                             {"lp": p.text(cid), "lp_format": p.lp_format(), "branch": bn, "rows": rows, "cols": cols, "observed": ha["v"], "expected": ex["vc"],
                              "theorem": "C04_isBasisValid_rowrep_refuted / C04_valid_basis_count"})
            if ha.get("x") == "1":
                continue
            # (ii) hasBasis => the reported basis is valid.  In the loaded branches this is C04_setBasis_reports_valid through
            # the correspondence; outside the solver the arrays are stored as they are
            if ha["h"] == "1" and bn == "D" and ex["vc"] != "1":
                ck.violation("setbasis-unvalidated-outside",
                             "with the LP held outside the solver setBasis(rows=%s, cols=%s) makes hasBasis() true and getBasis returns this invalid basis" % (rows, cols),
                             {"lp": p.text(cid), "lp_format": p.lp_format(), "branch": bn, "rows": rows, "cols": cols, "observed": a,
                              "theorem": "C04_hasBasis_valid_outside_refuted"})
            # (iii) round trip of valid bases
            if ex["vc"] == "1" and ex["zf"] == "1":
                g = ha["g"]
                if bn != "D" and g != ex["mf"]:
                    ck.violation("set-get-roundtrip", "valid basis rows=%s cols=%s read back as %s, expected %s" % (rows, cols, g, ex["mf"]),
                                 {"lp": p.text(cid), "rows": rows, "cols": cols, "observed": g, "expected": ex["mf"], "theorem": "C04_set_get_roundtrip"})
                ck.count("enum:valid-zero-free")
            ck.evaluated((cid, rows, cols), nontrivial=(p.m + p.n >= 2))
    ck.cov["enumerated_status_arrays"] = nline
    if cases:
        ck.sample({"part": "enumeration", "lp": cases[-1][0].text("sample"), "alphabet": cases[-1][1], "branches": ["column", "row", "outside"]})


# --------------------------------------------------------------------------------------------------------------
# part B: histories
# --------------------------------------------------------------------------------------------------------------
def clean_cfg(r, extra=None):
    cfg = lpgen.rand_config(r, extra)
    cfg.pop("solution_polishing", None)      # known findings of C01/C02 live there
    return cfg


def mods_for(r, dlp_dims, p):
    """1-3 modifications that may keep the basis; sides/bounds stay consistent (lhs <= rhs, lower <= upper)"""
    F = Fraction
    lo = [c[1] for c in p.cols]
    up = [c[2] for c in p.cols]
    lhs = [q[0] for q in p.rows]
    rhs = [q[2] for q in p.rows]
    out = []

    def tok(x, neg):
        return ("-inf" if neg else "inf") if x is None else lpgen.qs(x)
    for _ in range(r.randint(1, 3)):
        m, n = len(lhs), len(lo)
        k = r.randrange(15)
        v = F(r.randint(-6, 6))
        if k == 0 and n > 0:
            j = r.randrange(n)
            nv = r.choice([None, v if up[j] is None else min(v, up[j])])
            lo[j] = nv
            out.append(("chglo", "chglo %d %s" % (j, tok(nv, True))))
        elif k == 1 and n > 0:
            j = r.randrange(n)
            nv = r.choice([None, v + 6 if lo[j] is None else max(v + 6, lo[j])])
            up[j] = nv
            out.append(("chgup", "chgup %d %s" % (j, tok(nv, False))))
        elif k == 2 and n > 0:
            j = r.randrange(n)
            lo[j], up[j] = v, v + r.choice([0, 0, 3, 7])
            out.append(("chgbounds", "chgbounds %d %s %s" % (j, tok(lo[j], True), tok(up[j], False))))
        elif k == 3 and m > 0:
            i = r.randrange(m)
            nv = r.choice([None, v - 8 if rhs[i] is None else min(v - 8, rhs[i])])
            lhs[i] = nv
            out.append(("chglhs", "chglhs %d %s" % (i, tok(nv, True))))
        elif k == 4 and m > 0:
            i = r.randrange(m)
            nv = r.choice([None, v + 8 if lhs[i] is None else max(v + 8, lhs[i])])
            rhs[i] = nv
            out.append(("chgrhs", "chgrhs %d %s" % (i, tok(nv, False))))
        elif k == 5 and m > 0:
            i = r.randrange(m)
            lhs[i], rhs[i] = v - 6, v - 6 + r.choice([0, 4, 12])
            out.append(("chgrange", "chgrange %d %s %s" % (i, tok(lhs[i], True), tok(rhs[i], False))))
        elif k == 6 and n > 0:
            out.append(("chgobj", "chgobj %d %d" % (r.randrange(n), v)))
        elif k == 7:
            ents = " ".join("%d:%d" % (j, r.choice([-2, -1, 1, 3])) for j in range(n) if r.random() < 0.6)
            a, b = r.choice([None, v - 10]), v + 10
            lhs.append(a)
            rhs.append(b)
            out.append(("addrow", "addrow %s %s %s" % (tok(a, True), tok(b, False), ents)))
        elif k == 8:
            ents = " ".join("%d:%d" % (i, r.choice([-2, -1, 1, 3])) for i in range(m) if r.random() < 0.6)
            a = r.choice([None, v])
            b = r.choice([None, v + 5])
            lo.append(a)
            up.append(b)
            out.append(("addcol", "addcol %d %s %s %s" % (r.randint(-4, 4), tok(a, True), tok(b, False), ents)))
        elif k == 9 and m > 1:
            i = r.randrange(m)
            lhs[i], rhs[i] = lhs[-1], rhs[-1]          # the last row moves into the hole
            lhs.pop()
            rhs.pop()
            out.append(("rmrow", "rmrow %d" % i))
        elif k == 10 and n > 1:
            j = r.randrange(n)
            lo[j], up[j] = lo[-1], up[-1]
            lo.pop()
            up.pop()
            out.append(("rmcol", "rmcol %d" % j))
        elif k in (13, 14) and m > 0 and n > 0:
            # a coefficient changed with a live basis: the factorization has to follow (or the basis be dropped), in either representation
            out.append(("chgelem", "chgelem %d %d %d" % (r.randrange(m), r.randrange(n), r.choice([-3, -2, -1, 1, 2, 3, 4, 0]))))
        elif k == 11 and m > 2:
            # several rows at once through the permutation interface; the removed rows are mostly not the last ones, so rows of the tail move
            # into the holes (SPxLPBase::doRemoveRows compacts: surviving rows keep their relative order)
            cnt = r.randint(2, max(2, m // 2))
            pool = list(range(m - 1)) if r.random() < 0.7 else list(range(m))
            rem = set(r.sample(pool, min(cnt, len(pool))))
            lhs[:] = [x for i, x in enumerate(lhs) if i not in rem]
            rhs[:] = [x for i, x in enumerate(rhs) if i not in rem]
            out.append(("rmrows", "rmrows %s" % "".join("1" if i in rem else "0" for i in range(m))))
        elif k == 12 and n > 2:
            cnt = r.randint(2, max(2, n // 2))
            pool = list(range(n - 1)) if r.random() < 0.7 else list(range(n))
            rem = set(r.sample(pool, min(cnt, len(pool))))
            lo[:] = [x for j, x in enumerate(lo) if j not in rem]
            up[:] = [x for j, x in enumerate(up) if j not in rem]
            out.append(("rmcols", "rmcols %s" % "".join("1" if j in rem else "0" for j in range(n))))
    return out


def compatible(a, b):
    """statuses of a warm and a cold solve agree"""
    if a == b:
        return True
    amb = {"INFEASIBLE", "UNBOUNDED", "INForUNBD"}
    return "INForUNBD" in (a, b) and a in amb and b in amb


def part_histories(ck, exe, model):
    r = ck.rng
    nh, nmax = (300, 9) if ck.tier == "quick" else (12000, 16)
    H = []          # (cid, lp, cfg, kind, steps)   steps: list of (op-line, expectation-key)
    # minimised cases first: corpus/C04/*.hist = LP block + the operations of the history
    cdir = os.path.join(vlib.ROOT, "corpus", "C04")
    for f in sorted(os.listdir(cdir)) if os.path.isdir(cdir) else []:
        if not f.endswith(".hist"):
            continue
        cols, rows, steps, head = [], [], [], None
        for l in open(os.path.join(cdir, f)):
            t = l.split()
            if not t or t[0].startswith("#"):
                continue
            if t[0] == "LP":
                head = t
            elif t[0] == "C":
                cols.append((Fraction(t[1]), lpgen.fr(t[2]), lpgen.fr(t[3])))
            elif t[0] == "R":
                rows.append((lpgen.fr(t[1]), {int(e.split(":")[0]): Fraction(e.split(":")[1]) for e in t[3:]}, lpgen.fr(t[2])))
            else:
                steps.append(l.strip())
        if head:
            H.append(("c-" + f[:-5], lpgen.LP(head[2] == "max", Fraction(head[3]), cols, rows, "corpus:" + f[:-5]), {}, "corpus", steps))
    for k in range(nh):
        q = r.randrange(10)
        if q < 5:
            p = lpgen.gen_around_point(r, nmax)
        elif q < 7:
            p = lpgen.gen_random(r, nmax)
        elif q < 8:
            p = lpgen.gen_infeasible(r, nmax)
        elif q < 9:
            p = lpgen.gen_unbounded(r, nmax)
        else:
            p = bc.gen_small(r, r.randint(0, 4), r.randint(1, 4))
        cfg = clean_cfg(r)
        kind = r.choice(["plain", "plain", "abort", "setbasis", "mods", "mods", "outside", "rmmulti", "fixcol", "fixcol", "chgelem", "chgelem"])
        cid = "h%d" % k
        steps = ["NEW " + lpgen.cfg_text(cfg)]
        if kind == "plain":
            steps += ["SOLVE cold S", "DUMP after-solve A", "SOLVE warm S", "DUMP after-warm A", "SOLVE fresh F", "SOLVE coldns C simplifier=0"]
        elif kind == "abort":
            lim = r.choice([0, 1, 1, 2, 3, 5])
            steps = ["NEW " + lpgen.cfg_text(dict(cfg, iterlimit=lim)), "SOLVE limited S", "DUMP after-abort A", "SOLVE fresh F iterlimit=-1",
                     "SOLVE warm S iterlimit=-1", "DUMP after-warm A", "SOLVE cold C iterlimit=-1", "SOLVE coldns C iterlimit=-1 simplifier=0"]
        elif kind == "setbasis":
            rows, cols = bc.random_valid_basis(r, p)
            steps += ["SETB sb %s %s" % (bc.sarg(rows), bc.sarg(cols)), "DUMP after-setbasis A", "SOLVE warm S", "DUMP after-warm A", "SOLVE cold C", "SOLVE coldns C simplifier=0"]
        elif kind == "fixcol" and p.n >= 1:
            # branch-and-bound style: after a solve one column is fixed at a value inside its bounds (often a basic one: the warm start then has
            # a basic variable outside its collapsed bounds), warm against cold
            j = r.randrange(p.n)
            lo_, up_ = p.cols[j][1], p.cols[j][2]
            base_v = lo_ if lo_ is not None else (up_ if up_ is not None else Fraction(0))
            v = base_v + (r.choice([0, 1, 2, 3]) if lo_ is not None else -r.choice([0, 1, 2, 3]))
            if up_ is not None and v > up_:
                v = up_
            vt = lpgen.qs(Fraction(v))
            steps += ["SOLVE cold0 S", "DUMP after-solve A", "MOD chgbounds chgbounds %d %s %s" % (j, vt, vt), "DUMP after-mod:chgbounds A",
                      "SOLVE warm S", "DUMP after-warm A", "SOLVE cold C", "SOLVE coldns C simplifier=0"]
        elif kind == "chgelem" and p.m >= 1 and p.n >= 1:
            # a coefficient of the solved LP is changed (often an entry of the basis matrix) and the LP is solved again from the kept
            # basis; no scaler, no simplifier, so that the solver's own basis and factorization are what the second solve starts from
            cfg = dict(cfg, scaler=0, simplifier=0, representation=r.choice([1, 2, 2]))
            cfg.pop("starter", None)         # the sum / vector starters without simplifier are known findings of C01 / C17
            nz = [(i, j, a) for i, row in enumerate(p.rows) for j, a in row[1].items() if a != 0]
            steps = ["NEW " + lpgen.cfg_text(cfg), "SOLVE cold0 S", "DUMP after-solve A"]
            for _ in range(r.randint(1, 2)):
                if nz and r.random() < 0.8:
                    i, j, a = r.choice(nz)
                    v = a * r.choice([2, 3, -1]) + r.choice([0, 1])
                else:
                    i, j, v = r.randrange(p.m), r.randrange(p.n), Fraction(r.choice([-3, -2, -1, 1, 2, 3]))
                steps += ["MOD chgelem chgelem %d %d %s" % (i, j, lpgen.qs(Fraction(v))), "DUMP after-mod:chgelem A"]
            steps += ["SOLVE warm S", "DUMP after-warm A", "SOLVE cold C", "SOLVE coldns C simplifier=0"]
        elif kind == "rmmulti":
            # several rows or columns removed at once right after a solve (the descriptor is live): BasisChangeModel predicts the descriptor
            steps += ["SOLVE cold0 S", "DUMP after-solve A"]
            for _ in range(r.randint(1, 2)):
                rowsel = r.random() < 0.6
                size = p.m if rowsel else p.n
                if size >= 2:
                    rem = set(r.sample(range(size), r.randint(1, max(1, size // 2))))
                    what = "rmrows" if rowsel else "rmcols"
                    steps += ["MOD %s %s %s" % (what, what, "".join("1" if i in rem else "0" for i in range(size))), "DUMP after-mod:%s A" % what]
                    break
            steps += ["SOLVE warm S", "DUMP after-warm A", "SOLVE cold C", "SOLVE coldns C simplifier=0"]
        elif kind == "mods":
            steps += ["SOLVE cold0 S", "DUMP after-solve A"]
            for (mk, ml) in mods_for(r, (p.m, p.n), p):
                steps += ["MOD %s %s" % (mk, ml), "DUMP after-mod:%s A" % mk]
            steps += ["SOLVE warm S", "DUMP after-warm A", "SOLVE cold C", "SOLVE coldns C simplifier=0"]
        else:
            # LP held outside the solver (state of _preprocessAndSolveReal, reached through private members): setBasis, modifications
            rows, cols = bc.random_valid_basis(r, p)
            steps += ["DETACH", "SETB sb %s %s" % (bc.sarg(rows), bc.sarg(cols)), "DUMP outside-setbasis A"]
            for (mk, ml) in mods_for(r, (p.m, p.n), p):
                steps += ["MOD %s %s" % (mk, ml), "DUMP outside-mod:%s A" % mk]
            steps += ["SOLVE warm S", "DUMP after-warm A", "SOLVE cold C", "SOLVE coldns C simplifier=0"]
        H.append((cid, p, cfg, kind, steps))
    htxt = ""
    for (cid, p, cfg, kind, steps) in H:
        htxt += p.text(cid) + "\n" + "\n".join(steps) + "\n"
    rc, hout, herr = bc.run_harness(ck, exe, htxt, "hist")
    HB = lpgen.blocks(hout)
    # model queries: every dumped basis
    mtxt = ""
    dumps = {}
    for (cid, p, cfg, kind, steps) in H:
        ls = HB.get(cid, [])
        ds = []
        for l in ls:
            if l.startswith("DUMP "):
                d = bc.DumpLP(bc.kv(l))
                tag = l.split()[1]
                ds.append((tag, d))
        dumps[cid] = ds
        for i, (tag, d) in enumerate(ds):
            if d.has and not d.unsafe:
                mtxt += d.model_block("%s.%d" % (cid, i)) + "\nQ v valid 0 %s %s\n" % (bc.sarg(d.rows), bc.sarg(d.cols))
                if d.drows is not None:
                    mtxt += "Q dv descvalid %s %s\nQ ld loaddesc %s %s\n" % (bc.sarg(d.drows), bc.sarg(d.dcols), bc.sarg(d.drows), bc.sarg(d.dcols))
        # several rows / columns removed at once with a live basis in the solver: the descriptor before, the mask, the descriptor after
        # (BasisChangeModel.removed_rows / removed_cols)
        nd = 0
        for st in steps:
            w = st.split()
            if w[0] == "DUMP":
                nd += 1
            elif w[0] == "MOD" and w[2] in ("addrow", "addcol", "rmrow", "rmcol") and 0 < nd < len(ds):
                pre, post = ds[nd - 1][1], ds[nd][1]
                if pre.has and pre.loaded and not pre.unsafe and pre.drows is not None and int(pre.d["bstat"]) > -2:
                    which = "rows" if w[2].endswith("row") else "cols"
                    if w[2].startswith("add"):
                        # an addrow may create columns implicitly (and an addcol rows): only the plain case is predicted
                        if (which == "rows" and post.n == pre.n and post.m == pre.m + 1) or (which == "cols" and post.m == pre.m and post.n == pre.n + 1):
                            mtxt += post.model_block("%s.%d.rm" % (cid, nd)) + "\nQ rm added %s %s %s\n" % (which, bc.sarg(pre.drows), bc.sarg(pre.dcols))
                    else:
                        mtxt += pre.model_block("%s.%d.rm" % (cid, nd)) + "\nQ rm removed1 %s %s %s %s\n" % (which, bc.sarg(pre.drows), bc.sarg(pre.dcols), w[3])
            elif w[0] == "MOD" and w[2] in ("rmrows", "rmcols") and 0 < nd < len(ds):
                pre = ds[nd - 1][1]
                if pre.has and pre.loaded and not pre.unsafe and pre.drows is not None and int(pre.d["bstat"]) > -2:
                    mtxt += pre.model_block("%s.%d.rm" % (cid, nd)) + "\nQ rm removed %s %s %s %s\n" % (
                        "rows" if w[2] == "rmrows" else "cols", bc.sarg(pre.drows), bc.sarg(pre.dcols), w[3])
    mout = bc.run_model(ck, model, mtxt, "hist")
    MA = bc.answers(mout)
    crashed = rc != 0
    for (cid, p, cfg, kind, steps) in H:
        ls = HB.get(cid)
        ck.count("history:" + kind)
        if ls is None:
            if crashed:
                ck.violation("crash:history:%s" % kind, "harness crashed (rc=%d) in or before history %s" % (rc, cid),
                             {"lp": p.text(cid), "steps": steps, "config": cfg, "kind": "crash", "stderr": herr[-400:]})
                crashed = False
            continue
        ctx = {"lp": p.text(cid), "lp_format": p.lp_format(), "config": cfg, "history": steps, "observed": ls}
        solves = {}
        for l in ls:
            if l.startswith("SOLVE "):
                d = bc.kv(l)
                solves[d["_id"]] = d
                ck.count("status:" + d["status"])
            if l.startswith("EXC "):
                ck.count("exception-lines")
        prev_solve = False
        seq = [l for l in ls if l.split()[0] in ("SOLVE", "DUMP", "MOD", "SETB")]
        di = -1
        for idx, l in enumerate(seq):
            w = l.split()[0]
            if w != "DUMP":
                continue
            di += 1
            tag, d = dumps[cid][di]
            where = ("outside" if not d.loaded else "rep" + d.rep)
            after_solve = idx > 0 and seq[idx - 1].startswith("SOLVE ")
            ck.evaluated((cid, tag), nontrivial=(d.m + d.n >= 3))
            ck.count("dump:has=%d:%s" % (1 if d.has else 0, tag.split(":")[0]))
            rm = MA.get("%s.%d.rm" % (cid, di), {}).get("rm")
            if rm is not None:
                which = tag.split(":")[-1]
                ck.count("removal-compared:%s:%s" % (which, rm["_kind"] if "drows" not in rm else "kept"))
                predicted_kept = "drows" in rm
                rp = dict(ctx, at=tag, model=rm, descriptor_after=[d.drows, d.dcols], has_after=d.has,
                          correspondence="BasisChangeModel.removed_rows / removed_cols (extracted) vs SPxBasisBase::removedRows / removedCols")
                if predicted_kept and not d.has:
                    ck.violation("tie-mismatch:removal-dropped-basis:%s" % which,
                                 "after '%s' the basis is gone although every removed row was basic / every removed column non-basic (the model keeps it)" % tag, rp)
                elif not predicted_kept and d.has and d.loaded and int(d.d["bstat"]) > -2:
                    ck.violation("tie-mismatch:removal-kept-basis:%s" % which,
                                 "after '%s' hasBasis() is true although a non-basic row / a basic column was removed (the model drops the basis)" % tag, rp)
                elif predicted_kept and d.has and d.loaded and d.drows is not None and (bc.stat(rm.get("drows", "")) != d.drows or bc.stat(rm.get("dcols", "")) != d.dcols):
                    ck.violation("tie-mismatch:removal-descriptor:%s" % which,
                                 "after '%s' the descriptor is rows=%s cols=%s, the model (survivors in order) says rows=%s cols=%s" % (
                                     tag, d.drows, d.dcols, rm.get("drows"), rm.get("dcols")), dict(rp, theorem="C04_removed_rows_keeps_a_basis / C04_compaction_keeps_survivors_in_order"))
            if not d.has:
                continue
            base = tag if not tag.startswith("after-warm") else "after-warm"
            if d.loaded and int(d.d["bstat"]) <= -2:
                st = bc.kv(seq[idx - 1])["status"] if after_solve else "-"
                ck.violation("hasbasis-without-solver-basis:%s" % st,
                             "hasBasis() is true at '%s' but the solver holds no basis (basis status NO_PROBLEM): getBasis returns rows=%s cols=%s "
                             "(%d basic variables for %d rows)" % (tag, d.rows, d.cols, len(d.basic_set()), d.m), dict(ctx, at=tag))
                continue
            if d.unsafe:
                ck.violation("outside-array-size:%s" % tag.split(":")[-1],
                             "with the LP outside the solver, after '%s' hasBasis() is true but the stored status arrays have sizes %d/%d for %d rows/%d columns" % (
                                 tag, d.szr, d.szc, d.m, d.n), dict(ctx, at=tag))
                continue
            a = MA.get("%s.%d" % (cid, di), {})
            # 1. validity
            if a.get("v", {}).get("valid") != "1":
                ck.violation("hasbasis-invalid:%s:%s" % (base, "outside" if not d.loaded else "loaded"),
                             "hasBasis() is true at '%s' (%s) but the reported basis rows=%s cols=%s is rejected by isBasisValid (model) for the current LP" % (
                                 tag, where, d.rows, d.cols), dict(ctx, at=tag, rows=d.rows, cols=d.cols, theorem="C04_valid_basis_count"))
            # 2. query consistency
            if d.prow != d.rows or d.pcol != d.cols:
                ck.violation("queries-disagree:status:%s" % where, "basisRowStatus/basisColStatus (%s,%s) differ from getBasis (%s,%s) at '%s'" % (
                    d.prow, d.pcol, d.rows, d.cols, tag), dict(ctx, at=tag, theorem="C04_queries_agree"))
            if d.ind is not None and (sorted(d.ind) != d.basic_set() or len(d.ind) != d.m):
                fresh_ids = after_solve or "setbasis" in tag
                if not fresh_ids:
                    # between a modification and the next solve the solver's basis ids are not maintained (the basis matrix is not set
                    # up); getBasisInd is documented for use after a solve: counted, reported, not judged
                    ck.count("basisind-stale-after-modification:%s" % tag.split(":")[-1])
                elif a.get("v", {}).get("valid") == "1":
                    ck.violation("queries-disagree:basisind:%s" % where, "getBasisInd %s does not describe the basic set %s of getBasis at '%s'" % (
                        d.ind, d.basic_set(), tag), dict(ctx, at=tag, theorem="C04_queries_agree"))
            # 3. descriptor behind the answer
            if d.drows is not None:
                if "".join(bc.B2V[c] for c in d.drows) != d.rows or "".join(bc.B2V[c] for c in d.dcols) != d.cols:
                    ck.violation("getbasis-not-descriptor", "getBasis differs from the descriptor at '%s'" % tag, dict(ctx, at=tag))
                if a.get("dv", {}).get("valid") != "1":
                    ck.violation("descriptor-invalid:%s" % base, "the descriptor rows=%s cols=%s held by the solver at '%s' is not accepted by isDescValid (model)" % (
                        d.drows, d.dcols, tag), dict(ctx, at=tag, theorem="C04_loadDesc_valid"))
                ld = a.get("ld", {})
                if ld and (bc.stat(ld.get("drows", "")) != d.drows or bc.stat(ld.get("dcols", "")) != d.dcols):
                    ck.count("descriptor-not-a-loadDesc-fixpoint:%s" % base)
            # 4. regularity of bases produced by a solve
            if after_solve and a.get("v", {}).get("valid") == "1":
                dt = bc.det(d.basis_matrix())
                ck.count("regularity-checked")
                if dt is None or dt == 0:
                    st = bc.kv(seq[idx - 1])["status"]
                    ck.violation("singular-basis-after-solve:%s" % st, "the basis returned after a solve ending %s is singular (exact determinant 0): rows=%s cols=%s" % (
                        st, d.rows, d.cols), dict(ctx, at=tag, rows=d.rows, cols=d.cols))
        # warm starts
        cold = solves.get("cold")
        coldns = solves.get("coldns")
        if kind == "abort":
            lim = solves.get("limited")
            if lim:
                ck.count("abort-status:" + lim["status"])
        # the basis the warm solves start from: the last dump before "SOLVE warm"
        start = None
        di2 = -1
        for l in seq:
            if l.startswith("DUMP "):
                di2 += 1
                start = dumps[cid][di2][1]
            if l.startswith("SOLVE warm") or l.startswith("SOLVE fresh"):
                break
        free_nb_row = bool(start is not None and start.has and not start.unsafe and any(
            start.rows[i] == "Z" and start.lhs[i] is None and start.rhs[i] is None for i in range(min(start.m, len(start.rows)))))
        inconclusive = lambda st: st.startswith("ABORT") or st in ("ERROR", "SINGULAR", "UNKNOWN", "NO_PROBLEM", "NOT_INIT", "OPTIMAL_UNSCALED_VIOLATIONS")
        if cold is not None and coldns is not None and not inconclusive(cold["status"]) and not inconclusive(coldns["status"]) \
                and cold["status"] != "RUNNING" and coldns["status"] != "RUNNING" and not compatible(cold["status"], coldns["status"]):
            ck.count("cold-verdict-depends-on-presolve:%s/%s" % (cold["status"], coldns["status"]))
        if cold is not None:
            refs = [c for c in (cold, coldns) if c is not None and not inconclusive(c["status"]) and c["status"] != "RUNNING"]
            for w in ("warm", "fresh"):
                s2 = solves.get(w)
                if s2 is None or not refs:
                    if s2 is not None:
                        ck.count("cold-solve-not-conclusive:" + cold["status"])
                    continue
                ck.count("warm-compared:%s:%s" % (kind, w))
                sig_ctx = "%s:%s" % (kind, w)
                okst = [c for c in refs if compatible(s2["status"], c["status"])]
                if not okst and s2["status"] == "INFEASIBLE" and all(c["status"] == "UNBOUNDED" and c.get("iters") == "0" for c in refs):
                    # the reference verdict UNBOUNDED was given by the simplifier without a simplex iteration: it says "dual infeasible", i.e. no
                    # finite optimum, and does not claim a feasible point (read like this in C08 as well); INFEASIBLE does not contradict it
                    ck.count("presolve-unbounded-vs-warm-infeasible")
                    continue
                if not okst and (s2["status"].startswith("ABORT") or s2["status"] == "OPTIMAL_UNSCALED_VIOLATIONS"):
                    # the warm-started solve stops at a limit or reports cycling: an admitted non-answer, counted
                    ck.count("warm-solve-gave-up:%s" % s2["status"])
                    continue
                if not okst and s2["status"] == "SINGULAR" and start is not None and start.has and not start.unsafe:
                    dt = bc.det(start.basis_matrix()) if len(start.basic_set()) == start.m else None
                    if dt is None or dt == 0:
                        # the basis handed in (setBasis with an arbitrary valid array) is singular: SINGULAR is the honest answer
                        ck.count("warm-start-from-singular-user-basis")
                        continue
                if not okst:
                    if free_nb_row:
                        sig = "warmstart-free-nonbasic-row:status"
                    elif s2["status"] in ("SINGULAR", "RUNNING", "ERROR", "UNKNOWN"):
                        # the warm-started solve gives up (from a regular start basis) where the cold solve decides
                        sig = "warmstart-inconclusive:%s" % s2["status"]
                    else:
                        sig = "warmstart-status:%s:%s->%s" % (sig_ctx, cold["status"], s2["status"])
                    ck.violation(sig, "a solve started from the reported basis (%s, history '%s') ends %s, the solve from scratch ends %s (without presolve: %s)%s" % (
                        w, kind, s2["status"], cold["status"], coldns["status"] if coldns else "-", " [the start basis has a free row that is non-basic (ZERO)]" if free_nb_row else ""),
                        dict(ctx, warm=s2, cold=cold, coldns=coldns, start_rows=start.rows if start else None, start_cols=start.cols if start else None))
                elif s2["status"] == "OPTIMAL":
                    good = False
                    v2 = lpgen.dy2fr(s2.get("obj", "nan"))
                    vals = []
                    for c in okst:
                        v1 = lpgen.dy2fr(c.get("obj", "nan"))
                        vals.append(None if v1 is None else float(v1))
                        if v1 is not None and v2 is not None and abs(float(v1 - v2)) <= OBJ_TOL * (1 + abs(float(v1))):
                            good = True
                    if not good:
                        sig = "warmstart-free-nonbasic-row:objective" if free_nb_row else "warmstart-objective:%s" % sig_ctx
                        ck.violation(sig, "warm start (%s, history '%s') reaches objective %s, cold solve %s%s" % (
                            w, kind, None if v2 is None else float(v2), vals, " [the start basis has a free row that is non-basic (ZERO)]" if free_nb_row else ""),
                            dict(ctx, warm=s2, cold=cold, coldns=coldns, start_rows=start.rows if start else None, start_cols=start.cols if start else None))
        if k_sample(ck, cid):
            ck.sample({"part": "history", "kind": kind, "lp": p.text(cid), "steps": steps, "solves": {k: v["status"] for k, v in solves.items()}})
    if crashed:
        ck.violation("crash:history", "harness crashed (rc=%d)" % rc, {"kind": "crash", "stderr": herr[-400:]}, no_input=True)


def k_sample(ck, cid):
    return cid in ("h0", "h1", "h2")


# --------------------------------------------------------------------------------------------------------------
# part C: exact solves with forced basic solutions
# --------------------------------------------------------------------------------------------------------------
def gen_ranged_binding(r, nmax):
    """free (or loosely bounded) columns, ranged rows, objective = a signed combination of the rows: the optimum is finite and
    the rows with a non-zero weight are non-basic there, binding on the side the sign of the weight selects"""
    F = Fraction
    n = r.randint(1, nmax)
    m = r.randint(1, min(n + 1, nmax))
    rows, obj = [], [F(0)] * n
    maxi = r.random() < 0.5
    for i in range(m):
        co = {}
        while not co:
            co = {j: F(r.choice([-3, -2, -1, 1, 1, 2])) for j in range(n) if r.random() < 0.7}
        a = F(r.randint(-6, 6))
        t = r.randrange(6)
        if t == 0:
            lhs, rhs = a, a                      # equality
        elif t == 1:
            lhs, rhs = a, None
        else:
            lhs, rhs = a, a + r.randint(1, 9)    # genuinely ranged
        w = F(r.choice([-2, -1, 0, 1, 1, 2, 3]))
        if rhs is None:
            w = abs(w) if not maxi else -abs(w)  # only the finite side may bind
        for j, v in co.items():
            obj[j] += w * v
        rows.append((lhs, co, rhs))
    cols = []
    for j in range(n):
        t = r.randrange(5)
        if t <= 2:
            lo, up = None, None                  # free column
        elif t == 3:
            lo, up = F(-50), F(50)
        else:
            lo, up = F(-50), None
        cols.append((obj[j], lo, up))
    return lpgen.LP(maxi, F(r.choice([0, 0, 3])), cols, rows, "ranged-binding")


def demo_eqtrans():
    # min 2x+3y, 2 <= x+y <= 10, -1 <= x-y <= 1, x, y free (the optimum binds the first row at its left-hand side)
    F = Fraction
    return lpgen.LP(False, F(0), [(F(2), None, None), (F(3), None, None)],
                    [(F(2), {0: F(1), 1: F(1)}, F(10)), (F(-1), {0: F(1), 1: F(-1)}, F(1))], "demo-eqtrans")


def exact_options(r):
    """boolean options of the exact solver; lifting stays off (findings of C03 live there)"""
    o = {"eqtrans": r.choice([0, 1, 1]), "lifting": 0}
    if r.random() < 0.3:
        o["ratfac"] = r.choice([0, 1])
    if r.random() < 0.3:
        o["ratrec"] = r.choice([0, 1])
    if r.random() < 0.3:
        o["simplifier"] = 0
    if r.random() < 0.3:
        o["representation"] = r.choice([1, 2])
    return o


def part_exact(ck, exe):
    r = ck.rng
    ne, nmax = (90, 7) if ck.tier == "quick" else (2500, 12)
    L = []
    htxt = ""
    for k in range(ne):
        q = r.random()
        if k == 0 and not os.environ.get("C04_NO_DEMO"):
            p = demo_eqtrans()
        elif q < 0.5:
            p = gen_ranged_binding(r, nmax)
        elif q < 0.9:
            p = lpgen.gen_around_point(r, nmax)
        else:
            p = lpgen.gen_random(r, nmax)
        cid = "x%d" % k
        opts = [{"eqtrans": 0, "lifting": 0}, {"eqtrans": 1, "lifting": 0}, exact_options(r)]
        L.append((cid, p, opts))
        htxt += p.text(cid) + "\n" + "".join("EXACTFB fb%d %s\n" % (i, lpgen.cfg_text(o)) for i, o in enumerate(opts))
    rc, hout, herr = bc.run_harness(ck, exe, htxt, "exact")
    HB = lpgen.blocks(hout)
    if rc != 0:
        ck.violation("crash:exact", "harness crashed in the exact part (rc=%d)" % rc, {"kind": "crash", "stderr": herr[-400:]}, no_input=True)
    for (cid, p, opts) in L:
        for l in HB.get(cid, []):
            if not l.startswith("EXACTFB "):
                continue
            d = bc.kv(l)
            o = opts[int(d["_id"][2:])]
            otag = "eqtrans=%d" % o.get("eqtrans", 0)
            ck.count("exactfb:%s:%s" % (otag, d["status"]))
            ck.count("exactfb:family:" + p.family)
            if d["status"] != "OPTIMAL" or "rows" not in d or "x" not in d or "y" not in d:
                continue
            rows, cols = bc.stat(d["rows"]), bc.stat(d["cols"])
            x, s, y, dd = (lpgen.vec_q(d[t]) for t in ("x", "s", "y", "d"))
            ck.evaluated((cid, "exactfb", lpgen.cfg_text(o)), nontrivial=(p.m + p.n >= 3))
            bad, clause = None, None
            # (1) every non-basic column / row sits exactly on the bound its status names
            for j, (oj, lo, up) in enumerate(p.cols):
                c = cols[j]
                if c == "B":
                    continue
                ck.count("exactfb:nonbasic-col:" + c)
                want = {"L": lo, "U": up, "F": lo, "Z": Fraction(0)}.get(c)
                if want is None or x[j] != want or (c == "F" and lo != up):
                    bad, clause = "column %d has status %s (bounds %s..%s) but the exact primal value is %s" % (j, c, lo, up, x[j]), "col-status"
            for i, (lhs, co, rhs) in enumerate(p.rows):
                act = p.activity(i, x)
                if act != s[i]:
                    bad, clause = "slack %d is %s, activity %s" % (i, s[i], act), "slack"
                c = rows[i]
                if c == "B":
                    if y[i] != 0:
                        bad, clause = "row %d is basic but its dual multiplier is %s" % (i, y[i]), "basic-dual"
                    continue
                ranged = lhs is not None and rhs is not None and lhs != rhs
                ck.count("exactfb:nonbasic-row:%s:%s" % (c, "ranged" if ranged else "other"))
                want = {"L": lhs, "U": rhs, "F": lhs, "Z": Fraction(0)}.get(c)
                if want is None or act != want or (c == "F" and lhs != rhs):
                    bad, clause = "row %d has status %s (sides %s..%s) but the exact activity is %s" % (i, c, lhs, rhs, act), \
                        "row-status:%s" % ("ranged" if ranged else "other")
            # (2) the basic-solution equations of the dual side
            for j, (oj, lo, up) in enumerate(p.cols):
                rc_ = oj - sum((p.rows[i][1].get(j, 0) * y[i] for i in range(p.m)), Fraction(0))
                if rc_ != dd[j]:
                    bad, clause = "reduced cost %d is %s, c - A^T y gives %s" % (j, dd[j], rc_), "redcost"
                if cols[j] == "B" and rc_ != 0:
                    bad, clause = "column %d is basic but its reduced cost is %s" % (j, rc_), "basic-redcost"
            nb = rows.count("B") + cols.count("B")
            if nb != p.m:
                bad, clause = "%d basic variables for %d rows" % (nb, p.m), "count"
            elif bc.det(basis_matrix_of(p, rows, cols)) == 0:
                bad, clause = "the returned basis is singular", "singular"
            if bad:
                ck.violation("forcebasic-not-basic-solution:%s:%s" % (clause, otag),
                             "exact solve with forced basic solutions (%s): %s; basis rows=%s cols=%s" % (lpgen.cfg_text(o), bad, rows, cols),
                             {"lp": p.text(cid), "lp_format": p.lp_format(), "options": o, "observed": d})
        if cid == "x0":
            ck.sample({"part": "exact forced-basic", "lp": p.text(cid), "options": opts})


def basis_matrix_of(p, rows, cols):
    M = []
    for i, c in enumerate(rows):
        if c == "B":
            M.append([Fraction(1 if k == i else 0) for k in range(p.m)])
    for j, c in enumerate(cols):
        if c == "B":
            M.append([Fraction(p.rows[k][1].get(j, 0)) for k in range(p.m)])
    return M


def main():
    ck = vlib.Check("C04", "proof")
    ck.prove()
    exe = vlib.build_harness("C04")
    model = vlib.build_model("C04")
    part_enum(ck, exe, model)
    part_histories(ck, exe, model)
    part_exact(ck, exe)
    ck.cov["rule"] = ("(a) every status array over {ON_UPPER,ON_LOWER,FIXED,ZERO,BASIC} (plus UNDEFINED on a few) of small LPs with rows+columns <= %d, in three "
                      "storage branches (column representation, row representation, LP outside the solver): one evaluation per (LP, branch, array), compared line by "
                      "line with the extracted model; (b) histories on LPs up to %d rows/columns under sampled configurations (polishing off): one evaluation per "
                      "point at which the basis is dumped; (c) exact forced-basic solves under eqtrans off/on and sampled ratfac/ratrec/simplifier/representation (lifting off), incl. a family with free columns and ranged rows that are non-basic at the optimum: one evaluation per (LP, option set). non-trivial: rows+columns >= 2 (a) / >= 3 (b, c)" % (
                          6 if ck.tier == "quick" else 8, 9 if ck.tier == "quick" else 16))
    ck.cov["trusted_base"] = ["Coq 8.16.1 kernel; theorems of Properties_C04.v closed under the global context",
                              "extraction (ExtrOcamlBasic) + extract/C04/driver.ml",
                              "harness/C04.cpp (public API of SoPlexBase<double>; private members only to print the storage branch, the raw descriptor, maxObj/maxRowObj, "
                              "and to put the object into the 'LP outside the solver' state the way _preprocessAndSolveReal does)",
                              "checks/C04.py, checks/basiscommon.py, checks/lpgen.py (generation, exact determinant with fractions, comparison)"]
    ck.assumptions = ["descriptor logic (validity, repair, fall-back, conversions, query agreement, set/get round trip) is proved over the model and tied to the code by "
                      "exhaustive correspondence on small LPs; regularity of solve-produced bases, warm-start equality (1e-6 relative) and forced-basic exact "
                      "solutions are validated per run on the generated LPs, not proved",
                      "solution polishing is excluded from the configurations (known findings of C01/C02)",
                      "the 'LP outside the solver' branch is entered through private members (no public call sequence was found that leaves the object there with a basis)"]
    ck.finish()


if __name__ == "__main__":
    main()
