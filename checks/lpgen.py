"""LP generators, configuration sampling, harness/checker I/O shared by the solve-level checks (C01, C02, C16, ...).
All LP data are small integers or dyadic halves so that the double LP is exactly the rational LP."""
import os
import sys
from fractions import Fraction

sys.path.insert(0, os.path.dirname(os.path.dirname(os.path.abspath(__file__))))
import vlib

INF = "inf"
NINF = "-inf"


def fr(t):
    """token -> Fraction / None for infinities"""
    if t in (INF, NINF):
        return None
    return Fraction(t)


def dy2fr(t):
    if t in ("nan", "inf", "-inf"):
        return None
    m, e = t.split(":")
    m, e = int(m), int(e)
    return Fraction(m) * (Fraction(2) ** e)


def qs(x):
    """Fraction -> token"""
    if x is None:
        return "0"
    x = Fraction(x)
    return "%d/%d" % (x.numerator, x.denominator) if x.denominator != 1 else "%d" % x.numerator


class LP:
    def __init__(self, maxi, offset, cols, rows, family="?", known=None):
        self.maxi = maxi
        self.offset = Fraction(offset)
        self.cols = cols          # list of (obj, lo|None, up|None) Fractions
        self.rows = rows          # list of (lhs|None, {j: coef}, rhs|None)
        self.family = family
        self.known = known        # certificate built with the LP by the generator, if any

    @property
    def n(self):
        return len(self.cols)

    @property
    def m(self):
        return len(self.rows)

    def text(self, ident):
        out = ["LP %s %s %s %d %d" % (ident, "max" if self.maxi else "min", qs(self.offset), self.n, self.m)]
        for (o, lo, up) in self.cols:
            out.append("C %s %s %s" % (qs(o), NINF if lo is None else qs(lo), INF if up is None else qs(up)))
        for (lhs, co, rhs) in self.rows:
            out.append("R %s %s %s" % (NINF if lhs is None else qs(lhs), INF if rhs is None else qs(rhs),
                                       " ".join("%d:%s" % (j, qs(v)) for j, v in sorted(co.items()) if v != 0)))
        return "\n".join(out)

    def key(self):
        return self.text("k")

    def activity(self, i, x):
        return sum((v * x[j] for j, v in self.rows[i][1].items()), Fraction(0))

    def lp_format(self):
        """CPLEX LP rendering for replay files"""
        def lin(co):
            s = " ".join("%+g x%d" % (float(v), j) for j, v in sorted(co.items()) if v != 0)
            return s if s else "0 x0"
        out = ["Maximize" if self.maxi else "Minimize", " obj: " + lin({j: c[0] for j, c in enumerate(self.cols)}), "Subject To"]
        for i, (lhs, co, rhs) in enumerate(self.rows):
            if lhs is not None and rhs is not None and lhs == rhs:
                out.append(" r%d: %s = %g" % (i, lin(co), float(rhs)))
            elif lhs is not None and rhs is not None:
                out.append(" r%d: %g <= %s <= %g" % (i, float(lhs), lin(co), float(rhs)))
            elif lhs is not None:
                out.append(" r%d: %s >= %g" % (i, lin(co), float(lhs)))
            elif rhs is not None:
                out.append(" r%d: %s <= %g" % (i, lin(co), float(rhs)))
            else:
                out.append(" r%d: %s >= -inf" % (i, lin(co)))
        out.append("Bounds")
        for j, (o, lo, up) in enumerate(self.cols):
            out.append(" %s <= x%d <= %s" % ("-inf" if lo is None else "%g" % float(lo), j, "+inf" if up is None else "%g" % float(up)))
        out.append("End")
        return "\n".join(out) + "\n(objective offset %s)" % qs(self.offset)


# --------------------------------------------------------------------------------------
# generators
# --------------------------------------------------------------------------------------

def rand_coef(r, big=9):
    return Fraction(r.choice([-1, 1]) * r.randint(1, big))


def rand_row_vec(r, n, dens):
    co = {}
    for j in range(n):
        if r.random() < dens:
            co[j] = rand_coef(r)
    return co


def gen_around_point(r, nmax, family="vertex"):
    """feasible LP built around an integer point x0; mostly bounded"""
    n = r.randint(1, nmax)
    m = r.randint(0, nmax)
    x0 = [Fraction(r.randint(-5, 5)) for _ in range(n)]
    cols = []
    for j in range(n):
        t = r.randrange(8)
        obj = Fraction(r.randint(-6, 6)) if r.random() < 0.8 else Fraction(0)
        if t == 0:
            lo, up = None, None
        elif t == 1:
            lo, up = x0[j] - r.randint(0, 3), None
        elif t == 2:
            lo, up = None, x0[j] + r.randint(0, 3)
        elif t == 3:
            lo = up = x0[j]
        else:
            lo, up = x0[j] - r.randint(0, 4), x0[j] + r.randint(0, 4)
        cols.append((obj, lo, up))
    rows = []
    for i in range(m):
        k = r.randrange(12)
        if k == 0:
            co = {}                                   # empty row
        elif k == 1 and n >= 1:
            co = {r.randrange(n): rand_coef(r)}       # singleton
        elif k == 2 and rows:
            co = dict(r.choice(rows)[1])              # duplicate row
        elif k == 3 and rows:
            f = r.choice([2, -1, 3])
            co = {j: v * f for j, v in r.choice(rows)[1].items()}   # parallel row
        else:
            co = rand_row_vec(r, n, r.choice([0.3, 0.6, 0.9]))
        a = sum((v * x0[j] for j, v in co.items()), Fraction(0))
        t = r.randrange(7)
        if t == 0:
            lhs, rhs = None, a + r.randint(0, 4)
        elif t == 1:
            lhs, rhs = a - r.randint(0, 4), None
        elif t == 2:
            lhs = rhs = a
        elif t == 3:
            lhs, rhs = a - r.randint(0, 3), a + r.randint(0, 3)
        elif t == 4:
            lhs, rhs = None, None
        elif t == 5:
            lhs, rhs = None, a                         # tight at x0 (degeneracy)
        else:
            lhs, rhs = a, None
        rows.append((lhs, co, rhs))
    off = Fraction(r.choice([0, 0, 7, -3, 100])) / r.choice([1, 1, 2])
    return LP(r.random() < 0.5, off, cols, rows, family)


def gen_infeasible(r, nmax):
    """feasible skeleton plus a pair/combination of rows contradicting with margin >= 1"""
    p = gen_around_point(r, nmax, "infeasible")
    n = p.n
    if n == 0:
        return p
    k = r.randrange(3)
    if k == 0:
        co = rand_row_vec(r, n, 0.7) or {0: Fraction(1)}
        b = Fraction(r.randint(-5, 5))
        p.rows.append((None, dict(co), b))
        p.rows.append((b + r.randint(1, 3), {j: v for j, v in co.items()}, None))
    elif k == 1:
        # sum of two rows contradicts a third:  a.x <= b1, c.x <= b2, (a+c).x >= b1+b2+1
        a = rand_row_vec(r, n, 0.6) or {0: Fraction(1)}
        c = rand_row_vec(r, n, 0.6) or {0: Fraction(-1)}
        b1, b2 = Fraction(r.randint(-4, 4)), Fraction(r.randint(-4, 4))
        s = dict(a)
        for j, v in c.items():
            s[j] = s.get(j, 0) + v
        p.rows.append((None, a, b1))
        p.rows.append((None, c, b2))
        p.rows.append((b1 + b2 + r.randint(1, 2), s, None))
    else:
        # a row that contradicts the column bounds
        j = r.randrange(n)
        o, lo, up = p.cols[j]
        if lo is None and up is None:
            lo, up = Fraction(-2), Fraction(2)
            p.cols[j] = (o, lo, up)
        if up is not None:
            p.rows.append((up + r.randint(1, 3), {j: Fraction(1)}, None))
        else:
            p.rows.append((None, {j: Fraction(1)}, lo - r.randint(1, 3)))
    r.shuffle(p.rows)
    return p


def gen_unbounded(r, nmax):
    """feasible LP with an improving recession direction along a free/one-sided column"""
    p = gen_around_point(r, nmax, "unbounded")
    if p.n == 0:
        return p
    j = r.randrange(p.n)
    # direction +e_j: rows must allow it
    o, lo, up = p.cols[j]
    p.cols[j] = (Fraction(r.randint(1, 5)) * (1 if p.maxi else -1), lo if lo is not None else None, None)
    rows = []
    for (lhs, co, rhs) in p.rows:
        v = co.get(j, 0)
        if v > 0:
            rhs = None
        elif v < 0:
            lhs = None
        rows.append((lhs, co, rhs))
    p.rows = rows
    return p


def gen_random(r, nmax):
    n = r.randint(1, nmax)
    m = r.randint(0, nmax)
    cols = []
    for j in range(n):
        t = r.randrange(6)
        lo = Fraction(r.randint(-5, 3))
        up = lo + r.randint(0, 8)
        if t == 0:
            lo, up = None, None
        elif t == 1:
            up = None
        elif t == 2:
            lo = None
        cols.append((Fraction(r.randint(-6, 6)), lo, up))
    rows = []
    for i in range(m):
        co = rand_row_vec(r, n, r.choice([0.3, 0.6, 1.0]))
        lhs = Fraction(r.randint(-10, 5))
        rhs = lhs + r.randint(0, 12)
        t = r.randrange(5)
        if t == 0:
            lhs = None
        elif t == 1:
            rhs = None
        elif t == 2:
            rhs = lhs
        rows.append((lhs, co, rhs))
    return LP(r.random() < 0.5, Fraction(r.choice([0, 0, 5, -2])), cols, rows, "random")


def gen_lp(r, nmax):
    k = r.randrange(10)
    if k < 5:
        return gen_around_point(r, nmax)
    if k < 7:
        return gen_infeasible(r, nmax)
    if k < 8:
        return gen_unbounded(r, nmax)
    return gen_random(r, nmax)


# --------------------------------------------------------------------------------------
# configurations
# --------------------------------------------------------------------------------------

F = Fraction


def gen_singleton_equations(r, count):
    """an equation a0 x0 + a1 x1 (+ a2 x2) = b in which x0 is a column singleton with a cost and ONE or two finite bounds, x2 (if
    present) is a fixed variable, and x1 occurs in a second, loose row: the 'column singleton combined with a doubleton equation'
    reduction of simplifyCols (the singleton's bounds are moved onto its partner and the singleton becomes free), reached
    directly or after the fixed variable has been removed.  Systematic over: signs of a0 and a1 x bound type of the singleton
    (lower only / upper only / boxed) x sign of its cost x third (fixed) entry absent / before / after x partner free / boxed x
    min / max; magnitudes and the column order random."""
    combos = [(s0, s1, bt, cs, third, box1, mx, row2)
              for s0 in (1, -1) for s1 in (1, -1) for bt in ("lo", "up", "box") for cs in (1, -1)
              for third in ("none", "before", "after") for box1 in (False, True) for mx in (False, True) for row2 in (True, False)]
    r.shuffle(combos)
    # the sub-grid in which the singleton's bounds are all that bounds the LP (free partner, no second row, a fixed third entry)
    # comes first and is always complete: there a lost or misplaced bound changes the verdict, not just the vertex
    core = [c for c in combos if c[4] != "none" and not c[5] and not c[7]]
    combos = core + [c for c in combos if c not in core]
    out = []
    for (s0, s1, bt, cs, third, box1, mx, row2) in combos[:max(count, len(core) + count // 4)]:
        a0 = F(s0 * r.choice([1, 1, 2, 3]))
        a1 = F(s1 * r.choice([1, 2, 3]))
        l0 = F(r.randint(-3, 2))
        u0 = l0 + r.randint(1, 6)
        c0 = (F(cs * r.randint(1, 3)), l0 if bt in ("lo", "box") else None, u0 if bt in ("up", "box") else None)
        c1 = (F(r.randint(-2, 2)), F(-r.randint(2, 6)) if box1 else None, F(r.randint(2, 8)) if box1 else None)
        v = F(r.randint(-2, 3))
        c2 = (F(r.randint(-1, 1)), v, v)
        c3 = (F(r.randint(-1, 1)), F(0), F(r.randint(1, 4)))
        names = {"s": c0, "p": c1, "x": c3}
        order = ["s", "p", "x"]
        r.shuffle(order)
        if third == "before":
            order.insert(0, "f")
        elif third == "after":
            order.append("f")
        names["f"] = c2
        pos = {nm: k for k, nm in enumerate(order)}
        co = {pos["s"]: a0, pos["p"]: a1}
        if third != "none":
            co[pos["f"]] = F(r.choice([-2, -1, 1, 2]))
        b = F(r.randint(-4, 6))
        rows = [(b, co, b)]
        if row2:
            rows.append((F(-r.randint(6, 12)), {pos["p"]: F(1), pos["x"]: F(r.choice([-1, 1]))}, F(r.randint(6, 12))))
        out.append(LP(mx, 0, [names[nm] for nm in order], rows, "singleton-equation"))
    return out


def gen_forcing_rows(r, count):
    """a forcing row: its minimal (or maximal) activity over the column bounds equals its right-hand (left-hand) side exactly, so every
    column of the row is forced to a bound, while the costs pull two or three of them AWAY from that bound with different ratios
    |reduced cost / coefficient|: undoing the row must give it the dual multiplier of the LARGEST ratio and make exactly that column
    basic.  Systematic over: forced side (rhs / lhs) x signs of the coefficients x number of columns (2, 3) x which column has the
    largest ratio x min / max x alone / attached to a second row; magnitudes random with pairwise different ratios."""
    combos = [(side, sg, nv, big, mx, attach)
              for side in ("rhs", "lhs") for sg in range(8) for nv in (2, 3) for big in range(3) for mx in (False, True)
              for attach in (False, True) if big < nv]
    r.shuffle(combos)
    out = []
    for (side, sg, nv, big, mx, attach) in combos[:count]:
        mags = r.sample([1, 2, 3, 4, 5], nv)
        ratios = r.sample([1, 2, 3, 5, 7], nv)
        ratios.sort()
        # column `big` gets the largest ratio
        top = ratios.pop()
        r.shuffle(ratios)
        ratios.insert(big, top)
        cols, co, bound_act = [], {}, F(0)
        for j in range(nv):
            a = F(mags[j] * (1 if (sg >> j) & 1 else -1))
            co[j] = a
            at_lower = (a > 0) == (side == "rhs")         # the forced bound of column j
            v = F(r.randint(-2, 2))
            lo, up = (v, (v + r.randint(1, 4) if r.random() < 0.5 else None)) if at_lower else ((v - r.randint(1, 4) if r.random() < 0.5 else None), v)
            # cost pulling away from the forced bound (in the sense of minimisation: negative at a lower bound), |cost| = ratio * |a|
            c = F(ratios[j] * mags[j]) * (-1 if at_lower else 1)
            if r.random() < 0.2 and j != big:
                c = -c                                     # this one is happy at its bound
            cols.append((-c if mx else c, lo, up))
            bound_act += a * v
        row = (None, co, bound_act) if side == "rhs" else (bound_act, co, None)
        if r.random() < 0.3:
            row = (bound_act - r.randint(1, 3), co, bound_act) if side == "rhs" else (bound_act, co, bound_act + r.randint(1, 3))
        rows = [row]
        if attach:
            cols.append((F(r.randint(-2, 2)), F(0), F(r.randint(1, 5))))
            rows.append((F(-20), {r.randrange(nv): F(r.choice([-1, 1])), nv: F(1)}, F(20)))
        out.append(LP(mx, 0, cols, rows, "forcing-row"))
    return out


ALGO_SPACE = {
    "representation": [0, 1, 2], "algorithm": [0, 1], "factor_update_type": [0, 1], "simplifier": [0, 1, 3],
    "scaler": [0, 1, 2, 3, 4, 5, 6], "starter": [0, 1, 2, 3], "pricer": [0, 1, 2, 3, 4, 5], "ratiotester": [0, 1, 2, 3],
    "solution_polishing": [0, 1, 2], "hyperpricing": [0, 1, 2],
    "rowboundflips": [0, 1], "persistentscaling": [0, 1], "fullperturbation": [0, 1],
}


def rand_config(r, extra=None):
    cfg = {}
    for k, vs in ALGO_SPACE.items():
        if r.random() < 0.6:
            cfg[k] = r.choice(vs)
    if extra:
        for k, vs in extra.items():
            cfg[k] = r.choice(vs)
    return cfg


def cfg_text(cfg):
    return " ".join("%s=%s" % (k, v) for k, v in sorted(cfg.items()))


# --------------------------------------------------------------------------------------
# harness / checker I/O
# --------------------------------------------------------------------------------------

def parse_kv(line):
    t = line.split()
    d = {"_tag": t[0], "_id": t[1]}
    for w in t[2:]:
        if "=" in w:
            k, v = w.split("=", 1)
            d[k] = v
    return d


def vec_dy(s):
    return [dy2fr(t) for t in s.split(",") if t != ""]


def vec_q(s):
    return [Fraction(t) for t in s.split(",") if t != ""]


def vtxt(v):
    return ",".join(qs(x) for x in v) + ","


def run_harness(exe, text, tag, timeout=3000):
    d = os.path.join(vlib.BUILD, "run")
    os.makedirs(d, exist_ok=True)
    f = os.path.join(d, "%s.%d.cases" % (tag, os.getpid()))
    with open(f, "w") as fh:
        fh.write(text)
    rc, out, err = vlib.sh([exe, f], timeout=timeout)
    if not os.environ.get("VERIF_KEEP"):
        os.remove(f)
    return rc, out, err


def blocks(out):
    """split harness/checker output into {case id: [lines]}"""
    res, cur = {}, None
    for l in out.splitlines():
        if l.startswith("CASE "):
            cur = []
            res[l.split()[1]] = cur
        elif cur is not None:
            cur.append(l)
    return res


def load_corpus(pid):
    """corpus/<pid>/*.lp : LP blocks in the harness format plus CFG lines; returns [(LP, [cfg, ...])]"""
    d = os.path.join(vlib.ROOT, "corpus", pid)
    out = []
    if not os.path.isdir(d):
        return out
    for f in sorted(os.listdir(d)):
        if not f.endswith(".lp"):
            continue
        cols, rows, cfgs, head = [], [], [], None
        for l in open(os.path.join(d, f)):
            t = l.split()
            if not t or t[0].startswith("#"):
                continue
            if t[0] == "LP":
                head = t
            elif t[0] == "C":
                cols.append((Fraction(t[1]), fr(t[2]), fr(t[3])))
            elif t[0] == "R":
                rows.append((fr(t[1]), {int(e.split(":")[0]): Fraction(e.split(":")[1]) for e in t[3:]}, fr(t[2])))
            elif t[0] == "CMD":
                cfgs.append(" ".join(t[1:]))
            elif t[0] == "CFG":
                cfg = {}
                for kv in t[1:]:
                    k, v = kv.split("=")
                    cfg[k] = int(v)
                cfgs.append(cfg)
        if head:
            out.append((LP(head[2] == "max", Fraction(head[3]), cols, rows, "corpus:" + f[:-3]), cfgs or [{}]))
    return out


def parse_lp_text(text, family="replay"):
    cols, rows, head = [], [], None
    for l in text.splitlines():
        t = l.split()
        if not t:
            continue
        if t[0] == "LP":
            head = t
        elif t[0] == "C":
            cols.append((Fraction(t[1]), fr(t[2]), fr(t[3])))
        elif t[0] == "R":
            rows.append((fr(t[1]), {int(e.split(":")[0]): Fraction(e.split(":")[1]) for e in t[3:]}, fr(t[2])))
    return LP(head[2] == "max", Fraction(head[3]), cols, rows, family)
