#!/usr/bin/env python3
"""C09 - scaling is invisible.  prove (Properties_C09) + correspondence of the extracted binary64-level model with the
implementation: (i) bare SPxScaler::scale / unscale / getters / scale* / unscale* for the six scalers, (ii) the same
API history on a SoPlex object without scaler and one with scaler k and persistent scaling on/off."""
import json
import math
import os
import sys
from fractions import Fraction

sys.path.insert(0, os.path.dirname(os.path.dirname(os.path.abspath(__file__))))
import vlib

HARNESSES = ["C09"]
MODEL = True

INF = 1e100
INF_TOK = "5147557589468029:280"
NINF_TOK = "-5147557589468029:280"
SCALER_NAMES = {0: "off", 1: "uni-equi", 2: "bi-equi", 3: "geo1", 4: "geo8", 5: "leastsq", 6: "geo-equi"}
ST_OPTIMAL, ST_UNBOUNDED, ST_INFEASIBLE = 1, 2, 3


# ------------------------------------------------------------------------------------------ dyadic tokens
def dy(x):
    if x != x:
        return "nan"
    if math.isinf(x):
        return "inf" if x > 0 else "-inf"
    m, e = vlib.dyadic(x)
    return "%d:%d" % (m, e)


def tokval(t):
    """token -> Fraction (finite) or +-math.inf"""
    if t == "inf":
        return math.inf
    if t == "-inf":
        return -math.inf
    if t == "nan":
        return math.nan
    m, e = t.split(":")
    m, e = int(m), int(e)
    return Fraction(m) * (Fraction(2) ** e)


def tokneg(t):
    if t == "inf":
        return "-inf"
    if t == "-inf":
        return "inf"
    if t in ("nan", "0:0"):
        return t
    return t[1:] if t.startswith("-") else "-" + t


def is_inf_tok(t):
    v = tokval(t)
    return isinstance(v, float) or abs(v) >= Fraction(10) ** 100 or abs(float(v)) >= INF


def mk(m, e):
    """canonical token of m * 2^e"""
    if m == 0:
        return "0:0"
    while m % 2 == 0:
        m //= 2
        e += 1
    return "%d:%d" % (m, e)


# ------------------------------------------------------------------------------------------ LP text
def lp_line(lp):
    return "LP m=%d n=%d sense=%d obj=%s lo=%s up=%s lhs=%s rhs=%s robj=%s A=%s" % (
        lp["m"], lp["n"], lp["sense"], ",".join(lp["obj"]) + ",", ",".join(lp["lo"]) + ",", ",".join(lp["up"]) + ",",
        ",".join(lp["lhs"]) + ",", ",".join(lp["rhs"]) + ",", ",".join(lp.get("robj") or ["0:0"] * lp["m"]) + ",",
        "".join("%d,%d,%s;" % (i, j, v) for i, j, v in sorted(lp["A"])))


def parse_fields(text):
    f = {}
    for t in text.split():
        if "=" in t:
            k, v = t.split("=", 1)
            f[k] = v
    return f


def flist(f, k):
    return [x for x in f.get(k, "").split(",") if x]


def ftrips(f, k):
    out = []
    for t in f.get(k, "").split(";"):
        if t:
            i, j, v = t.split(",")
            out.append((int(i), int(j), v))
    return out


# ------------------------------------------------------------------------------------------ generators
class Gen:
    def __init__(self, rng, tier):
        self.r = rng
        self.tier = tier

    def dyv(self, elo=-40, ehi=40, mbits=5, zero=0.0):
        r = self.r
        if r.random() < zero:
            return "0:0"
        m = r.randrange(1, 1 << mbits) | 1
        if r.random() < 0.4:
            m = 1
        if r.random() < 0.5:
            m = -m
        return mk(m, r.randint(elo, ehi))

    def lower(self, elo, ehi, pinf=0.3):
        r = self.r
        k = r.random()
        if k < pinf:
            return NINF_TOK
        if k < pinf + 0.03:
            return "-inf"
        if k < pinf + 0.2:
            return "0:0"
        return self.dyv(elo, ehi)

    def upper_over(self, lo, elo, ehi, pinf=0.3):
        r = self.r
        k = r.random()
        if k < pinf:
            return INF_TOK
        if k < pinf + 0.03:
            return "inf"
        lv = tokval(lo)
        if isinstance(lv, float) or is_inf_tok(lo):
            return self.dyv(elo, ehi)
        if k < pinf + 0.1:
            return lo                      # fixed
        # lo + positive dyadic
        d = tokval(self.dyv(elo, ehi))
        return dy(float(lv + abs(d)))      # rounded to a double; only u >= lo matters

    def bare_lp(self):
        r = self.r
        fam = r.choice(["rowcol", "rowcol", "wild", "wild", "tiny", "huge", "unit", "holes", "single"])
        m, n = r.randint(1, 7), r.randint(1, 7)
        if fam == "single":
            m, n = r.choice([(1, 1), (1, r.randint(1, 5)), (r.randint(1, 5), 1)])
        rho = [r.randint(-18, 18) for _ in range(m)]
        gam = [r.randint(-18, 18) for _ in range(n)]
        A = []
        for i in range(m):
            for j in range(n):
                if fam == "holes" and (i == m - 1 or j == n - 1) and (m > 1 or n > 1):
                    continue               # an empty last row / column
                if r.random() < (0.65 if fam != "single" else 0.9):
                    if fam == "rowcol":
                        mant = (r.randrange(1, 16) | 1) * r.choice([1, -1])
                        A.append((i, j, mk(mant, rho[i] + gam[j] + r.randint(-2, 2))))
                    elif fam == "tiny":
                        A.append((i, j, self.dyv(-40, -28)))
                    elif fam == "huge":
                        A.append((i, j, self.dyv(28, 40)))
                    elif fam == "unit":
                        A.append((i, j, r.choice(["1:0", "-1:0"])))
                    else:
                        A.append((i, j, self.dyv(-40, 40)))
        lo = [self.lower(-40, 40) for _ in range(n)]
        up = [self.upper_over(lo[j], -40, 40) for j in range(n)]
        lhs = [self.lower(-40, 40) for _ in range(m)]
        rhs = [self.upper_over(lhs[i], -40, 40) for i in range(m)]
        obj = [self.dyv(-40, 40, zero=0.2) for _ in range(n)]
        robj = [self.dyv(-10, 10) if r.random() < 0.15 else "0:0" for _ in range(m)]
        lp = {"m": m, "n": n, "sense": r.choice([1, -1]), "obj": obj, "lo": lo, "up": up, "lhs": lhs, "rhs": rhs,
              "robj": robj, "A": A}
        xc = [self.dyv(-30, 30, zero=0.15) for _ in range(n)]
        xr = [self.dyv(-30, 30, zero=0.15) for _ in range(m)]
        return fam, lp, xc, xr

    # a benign small-integer LP (feasible and bounded, or infeasible, or unbounded) seen through a bad scaling
    def user_lp(self):
        r = self.r
        kind = r.choice(["opt", "opt", "opt", "opt", "inf", "unb", "wild"])
        if kind == "wild":
            fam, lp, _, _ = self.bare_lp()
            lp["robj"] = ["0:0"] * lp["m"]
            # IEEE infinities are legal user data as well but keep the solves on the 1e100 convention
            for k in ("lo", "up", "lhs", "rhs"):
                lp[k] = [NINF_TOK if t == "-inf" else INF_TOK if t == "inf" else t for t in lp[k]]
            return "wild", lp, [0] * lp["m"], [0] * lp["n"]
        m, n = r.randint(1, 5), r.randint(1, 5)
        span = r.choice([4, 10, 16])
        rho = [r.randint(-span, span) for _ in range(m)]
        gam = [r.randint(-span, span) for _ in range(n)]
        B = [[r.randint(-4, 4) if r.random() < 0.7 else 0 for _ in range(n)] for _ in range(m)]
        z0 = [r.randint(-3, 3) for _ in range(n)]
        zl, zu = [], []
        for j in range(n):
            k = r.random()
            zl.append(None if k < 0.25 and kind != "unb" else z0[j] - r.randint(0, 3))
            zu.append(None if r.random() < 0.25 and kind != "unb" else z0[j] + r.randint(0, 3))
        c = [r.randint(-4, 4) for _ in range(n)]
        L, U = [], []
        for i in range(m):
            a = sum(B[i][j] * z0[j] for j in range(n))
            k = r.random()
            if k < 0.3:
                L.append(a - r.randint(0, 3)); U.append(None)
            elif k < 0.6:
                L.append(None); U.append(a + r.randint(0, 3))
            elif k < 0.8:
                L.append(a - r.randint(0, 2)); U.append(a + r.randint(0, 2))
            else:
                L.append(a); U.append(a)
        sense = r.choice([1, -1])
        # a free column makes the LP bounded only if its objective entry is zero or a row bounds it; force boundedness
        # for "opt" by boxing every column whose objective entry is non-zero
        if kind == "opt":
            for j in range(n):
                if c[j] != 0:
                    if zl[j] is None:
                        zl[j] = z0[j] - r.randint(1, 4)
                    if zu[j] is None:
                        zu[j] = z0[j] + r.randint(1, 4)
        if kind == "unb":
            j = r.randrange(n)
            for i in range(m):
                B[i][j] = 0
            c[j] = sense * r.randint(1, 3)   # improving along +e_j
            zu[j] = None
            zl[j] = z0[j]
        if kind == "inf":
            # two contradicting rows  t.z >= a+2 and t.z <= a-1 appended
            t = [r.randint(1, 3) if r.random() < 0.8 else 0 for _ in range(n)]
            if not any(t):
                t[0] = 1
            a = sum(t[j] * z0[j] for j in range(n))
            B += [t[:], t[:]]
            L += [a + r.randint(1, 4), None]
            U += [None, a - r.randint(1, 4)]
            rho += [r.randint(-span, span), r.randint(-span, span)]
            m += 2
        A = []
        for i in range(m):
            for j in range(n):
                if B[i][j] != 0:
                    A.append((i, j, mk(B[i][j], rho[i] + gam[j])))
        lp = {"m": m, "n": n, "sense": sense,
              "obj": [mk(c[j], gam[j]) for j in range(n)],
              "lo": [NINF_TOK if zl[j] is None else mk(zl[j], -gam[j]) for j in range(n)],
              "up": [INF_TOK if zu[j] is None else mk(zu[j], -gam[j]) for j in range(n)],
              "lhs": [NINF_TOK if L[i] is None else mk(L[i], rho[i]) for i in range(m)],
              "rhs": [INF_TOK if U[i] is None else mk(U[i], rho[i]) for i in range(m)],
              "robj": ["0:0"] * m, "A": A}
        return kind, lp, rho, gam

    # ---- histories.  The generator mirrors the bounds, sides and the scale (rho_i, gamma_j) of every row and column through
    # the operations (single removal: last element moves into the hole; multi removal: stable compaction; implicit columns
    # [0, +inf), implicit rows [0, +inf)) so that new data stay consistent (lower <= upper, lhs <= rhs) and, for the benign
    # families, on the scale of the row / column they belong to.
    def below(self, up, e, pinf=0.25, lo_k=0):
        """a lower-type token <= up (token), on the binary scale e"""
        r = self.r
        if r.random() < pinf:
            return NINF_TOK
        if is_inf_tok(up):
            return mk(r.randint(-8, 8), e)
        u = tokval(up)
        v = u - r.randint(lo_k, 6) * Fraction(2) ** e
        f = float(v)
        while Fraction(f) > u:
            f = math.nextafter(f, -math.inf)
        return dy(f)

    def above(self, lo, e, pinf=0.25, lo_k=0):
        r = self.r
        if r.random() < pinf:
            return INF_TOK
        if is_inf_tok(lo):
            return mk(r.randint(-8, 8), e)
        l = tokval(lo)
        v = l + r.randint(lo_k, 6) * Fraction(2) ** e
        f = float(v)
        while Fraction(f) < l:
            f = math.nextafter(f, math.inf)
        return dy(f)

    def history(self, lp, kind, rho, gam):
        r = self.r
        wild = kind == "wild"
        span = 40 if wild else 14

        def ce(j):      # exponent of a bound of column j
            return r.randint(-span, span) if wild else -cols[j]["g"]

        def re_(i):     # exponent of a side of row i
            return r.randint(-span, span) if wild else rows[i]["r"]

        def ae(i, j):
            return r.randint(-span, span) if wild else rows[i]["r"] + cols[j]["g"]

        def coef(e, zero=0.0):
            if r.random() < zero:
                return "0:0"
            return mk(r.choice([-4, -3, -2, -1, 1, 2, 3, 4]) if not wild else (r.randrange(1, 32) | 1) * r.choice([1, -1]), e)

        cols = [{"g": gam[j], "lo": lp["lo"][j], "up": lp["up"][j]} for j in range(lp["n"])]
        rows = [{"r": rho[i], "lhs": lp["lhs"][i], "rhs": lp["rhs"][i]} for i in range(lp["m"])]
        newg = lambda: r.randint(-span, span) if not wild else 0
        flags = {"implicit": False}

        def sprow(i_r, extra):
            """entries of a new row with scale i_r over the current columns (+ maybe one implicit new column)"""
            idx = [j for j in range(len(cols)) if r.random() < 0.6]
            if not idx and cols:
                idx = [r.randrange(len(cols))]
            ent = ["%d:%s" % (j, coef(r.randint(-span, span) if wild else i_r + cols[j]["g"])) for j in idx]
            if r.random() < extra:
                g = newg()
                ent.append("%d:%s" % (len(cols), coef(r.randint(-span, span) if wild else i_r + g)))
                cols.append({"g": g, "lo": "0:0", "up": INF_TOK})
                flags["implicit"] = True
            return ",".join(ent) if ent else "-"

        def spcol(j_g, extra):
            idx = [i for i in range(len(rows)) if r.random() < 0.6]
            if not idx and rows:
                idx = [r.randrange(len(rows))]
            ent = ["%d:%s" % (i, coef(r.randint(-span, span) if wild else rows[i]["r"] + j_g)) for i in idx]
            if r.random() < extra:
                rr = newg()
                ent.append("%d:%s" % (len(rows), coef(r.randint(-span, span) if wild else rr + j_g)))
                rows.append({"r": rr, "lhs": "0:0", "rhs": INF_TOK})
                flags["implicit"] = True
            return ",".join(ent) if ent else "-"

        ops = []
        nops = r.randint(3, 9) if self.tier == "quick" else r.randint(4, 16)
        solved = False
        for k in range(nops):
            m, n = len(rows), len(cols)
            if (k == 0 and r.random() < 0.7) or r.random() < 0.3:
                ops.append(["solve"])
                solved = True
                continue
            op = r.choice(["chg_lo", "chg_up", "chg_lhs", "chg_rhs", "chg_obj", "chg_el", "chg_bounds", "chg_range",
                           "vchg_lo", "vchg_up", "vchg_lhs", "vchg_rhs", "vchg_obj", "vchg_bounds", "vchg_range",
                           "add_row", "add_row", "add_col", "add_col", "add_rows", "add_cols", "chg_row", "chg_col",
                           "rm_row", "rm_col", "rm_rows", "rm_cols", "sense", "scaler", "persist", "clearbasis", "sc_lo", "sc_up", "sc_lhs", "sc_rhs"])
            pv = 0.3 if r.random() < 0.35 else 0.0      # infinite entries in a vector operation
            if op == "chg_lo" and n:
                j = r.randrange(n)
                cols[j]["lo"] = self.below(cols[j]["up"], ce(j), 0.2)
                ops.append([op, str(j), cols[j]["lo"]])
            elif op == "chg_up" and n:
                j = r.randrange(n)
                cols[j]["up"] = self.above(cols[j]["lo"], ce(j), 0.2)
                ops.append([op, str(j), cols[j]["up"]])
            elif op == "chg_lhs" and m:
                i = r.randrange(m)
                rows[i]["lhs"] = self.below(rows[i]["rhs"], re_(i), 0.2)
                ops.append([op, str(i), rows[i]["lhs"]])
            elif op == "chg_rhs" and m:
                i = r.randrange(m)
                rows[i]["rhs"] = self.above(rows[i]["lhs"], re_(i), 0.2)
                ops.append([op, str(i), rows[i]["rhs"]])
            elif op == "chg_obj" and n:
                j = r.randrange(n)
                ops.append([op, str(j), coef(r.randint(-span, span) if wild else cols[j]["g"], 0.15)])
            elif op == "chg_el" and m and n:
                i, j = r.randrange(m), r.randrange(n)
                ops.append([op, str(i), str(j), coef(ae(i, j), 0.15)])
            elif op == "chg_bounds" and n:
                j = r.randrange(n)
                cols[j]["lo"] = self.below(INF_TOK, ce(j), 0.2)
                cols[j]["up"] = self.above(cols[j]["lo"], ce(j), 0.2)
                ops.append([op, str(j), cols[j]["lo"], cols[j]["up"]])
            elif op == "chg_range" and m:
                i = r.randrange(m)
                rows[i]["lhs"] = self.below(INF_TOK, re_(i), 0.2)
                rows[i]["rhs"] = self.above(rows[i]["lhs"], re_(i), 0.2)
                ops.append([op, str(i), rows[i]["lhs"], rows[i]["rhs"]])
            elif op == "vchg_lo" and n:
                for j in range(n):
                    cols[j]["lo"] = self.below(cols[j]["up"], ce(j), pv)
                ops.append([op, ",".join(c_["lo"] for c_ in cols) + ","])
            elif op == "vchg_up" and n:
                for j in range(n):
                    cols[j]["up"] = self.above(cols[j]["lo"], ce(j), pv)
                ops.append([op, ",".join(c_["up"] for c_ in cols) + ","])
            elif op == "vchg_bounds" and n:
                for j in range(n):
                    cols[j]["lo"] = self.below(INF_TOK, ce(j), pv)
                    cols[j]["up"] = self.above(cols[j]["lo"], ce(j), pv)
                ops.append([op, ",".join(c_["lo"] for c_ in cols) + ",", ",".join(c_["up"] for c_ in cols) + ","])
            elif op == "vchg_obj" and n:
                ops.append([op, ",".join(coef(r.randint(-span, span) if wild else cols[j]["g"], 0.15) for j in range(n)) + ","])
            elif op == "vchg_lhs" and m:
                for i in range(m):
                    rows[i]["lhs"] = self.below(rows[i]["rhs"], re_(i), pv)
                ops.append([op, ",".join(r_["lhs"] for r_ in rows) + ","])
            elif op == "vchg_rhs" and m:
                for i in range(m):
                    rows[i]["rhs"] = self.above(rows[i]["lhs"], re_(i), pv)
                ops.append([op, ",".join(r_["rhs"] for r_ in rows) + ","])
            elif op == "vchg_range" and m:
                for i in range(m):
                    rows[i]["lhs"] = self.below(INF_TOK, re_(i), pv)
                    rows[i]["rhs"] = self.above(rows[i]["lhs"], re_(i), pv)
                ops.append([op, ",".join(r_["lhs"] for r_ in rows) + ",", ",".join(r_["rhs"] for r_ in rows) + ","])
            elif op == "add_row" and n and m < 9:
                rr = newg()
                e = r.randint(-span, span) if wild else rr
                lo = self.below(INF_TOK, e, 0.4)
                up = self.above(lo, e, 0.4)
                v = sprow(rr, 0.25)
                rows.append({"r": rr, "lhs": lo, "rhs": up})
                ops.append([op, lo, up, v])
            elif op == "add_col" and m and n < 9:
                g = newg()
                e = r.randint(-span, span) if wild else -g
                lo = self.below(INF_TOK, e, 0.3)
                up = self.above(lo, e, 0.3)
                v = spcol(g, 0.25)
                cols.append({"g": g, "lo": lo, "up": up})
                ops.append([op, coef(r.randint(-span, span) if wild else g, 0.2), lo, up, v])
            elif op == "add_rows" and n and m < 8:
                o = [op]
                new = []
                for _ in range(2):
                    rr = newg()
                    e = r.randint(-span, span) if wild else rr
                    lo = self.below(INF_TOK, e, 0.4)
                    up = self.above(lo, e, 0.4)
                    o += [lo, up, sprow(rr, 0.15)]
                    new.append({"r": rr, "lhs": lo, "rhs": up})
                rows += new
                ops.append(o)
            elif op == "add_cols" and m and n < 8:
                o = [op]
                new = []
                for _ in range(2):
                    g = newg()
                    e = r.randint(-span, span) if wild else -g
                    lo = self.below(INF_TOK, e, 0.3)
                    up = self.above(lo, e, 0.3)
                    o += [coef(r.randint(-span, span) if wild else g, 0.2), lo, up, spcol(g, 0.15)]
                    new.append({"g": g, "lo": lo, "up": up})
                cols += new
                ops.append(o)
            elif op == "chg_row" and m and n:
                i = r.randrange(m)
                e = re_(i)
                rows[i]["lhs"] = self.below(INF_TOK, e, 0.4)
                rows[i]["rhs"] = self.above(rows[i]["lhs"], e, 0.4)
                idx = [j for j in range(n) if r.random() < 0.6]
                v = ",".join("%d:%s" % (j, coef(ae(i, j))) for j in idx) if idx else "-"
                ops.append([op, str(i), rows[i]["lhs"], rows[i]["rhs"], v])
            elif op == "chg_col" and m and n:
                j = r.randrange(n)
                e = ce(j)
                cols[j]["lo"] = self.below(INF_TOK, e, 0.3)
                cols[j]["up"] = self.above(cols[j]["lo"], e, 0.3)
                idx = [i for i in range(m) if r.random() < 0.6]
                v = ",".join("%d:%s" % (i, coef(ae(i, j))) for i in idx) if idx else "-"
                ops.append([op, str(j), coef(r.randint(-span, span) if wild else cols[j]["g"], 0.2), cols[j]["lo"], cols[j]["up"], v])
            elif op == "rm_row" and m > 1:
                i = r.randrange(m)
                rows[i] = rows[-1]
                rows.pop()
                ops.append([op, str(i)])
            elif op == "rm_col" and n > 1:
                j = r.randrange(n)
                cols[j] = cols[-1]
                cols.pop()
                ops.append([op, str(j)])
            elif op == "rm_rows" and m > 2:
                ks = sorted(r.sample(range(m), 2))
                rows[:] = [x for i, x in enumerate(rows) if i not in ks]
                ops.append([op, ",".join(map(str, ks)) + ","])
            elif op == "rm_cols" and n > 2:
                ks = sorted(r.sample(range(n), 2))
                cols[:] = [x for j, x in enumerate(cols) if j not in ks]
                ops.append([op, ",".join(map(str, ks)) + ","])
            elif op in ("sc_lo", "sc_up") and n > 0:
                ops.append([op, str(r.randrange(n))])
            elif op in ("sc_lhs", "sc_rhs") and m > 0:
                ops.append([op, str(r.randrange(m))])
            elif op == "sense" and r.random() < 0.5:
                ops.append([op, str(r.choice([1, -1]))])
            elif op == "scaler" and r.random() < 0.6:
                ops.append([op, str(r.randrange(7))])
            elif op == "persist" and r.random() < 0.5:
                ops.append([op, str(r.randrange(2))])
            elif op == "clearbasis" and r.random() < 0.3:
                ops.append([op])
        if not solved or r.random() < 0.8:
            ops.append(["solve"])
        final = {"lo": [c_["lo"] for c_ in cols], "up": [c_["up"] for c_ in cols],
                 "lhs": [r_["lhs"] for r_ in rows], "rhs": [r_["rhs"] for r_ in rows], "implicit": flags["implicit"]}
        return ops, final


def frac_tok(q):
    """Fraction with power-of-two denominator -> token"""
    q = Fraction(q)
    d = q.denominator
    e = d.bit_length() - 1
    assert d == 1 << e
    return mk(q.numerator, -e)


def systematic():
    """hand-made cases aimed at the case splits: infinite bounds under the vector getters / vector change overloads,
    implicit column / row creation under persistent scaling, scaler switched off while the LP is scaled"""
    base = {"m": 2, "n": 2, "sense": -1, "obj": ["1:0", "1:0"], "lo": ["0:0", "0:0"], "up": [INF_TOK, "7:20"],
            "lhs": ["1:10", "1:-12"], "rhs": [INF_TOK, INF_TOK], "robj": ["0:0", "0:0"],
            "A": [(0, 0, "1:10"), (0, 1, "3:8"), (1, 1, "1:-10"), (1, 0, "1:-12")]}
    cases = []
    for sc in (1, 2, 3, 4, 5, 6):
        cases.append({"mode": "USER", "scaler": sc, "persistent": 1, "simp": 0, "lp": base, "family": "sys-getters",
                      "ops": [["solve"], ["chg_lo", "0", "1:-3"], ["solve"]]})
    cases.append({"mode": "USER", "scaler": 2, "persistent": 1, "simp": 0, "lp": base, "family": "sys-vchg",
                  "ops": [["solve"], ["vchg_lo", NINF_TOK + "," + NINF_TOK + ","], ["vchg_rhs", INF_TOK + ",1:3,"], ["solve"]]})
    cases.append({"mode": "USER", "scaler": 2, "persistent": 1, "simp": 0, "lp": base, "family": "sys-newcol",
                  "ops": [["solve"], ["add_row", "1:0", INF_TOK, "0:1:3,2:1:5"], ["solve"],
                          ["add_row", "1:0", INF_TOK, "1:1:3,4:1:7"], ["solve"]]})
    cases.append({"mode": "USER", "scaler": 2, "persistent": 1, "simp": 0, "lp": base, "family": "sys-newrow",
                  "ops": [["solve"], ["add_col", "1:0", "0:0", INF_TOK, "0:1:3,2:1:5"], ["solve"],
                          ["add_col", "1:0", "0:0", "1:4", "1:1:3,4:1:7"], ["solve"]]})
    cases.append({"mode": "USER", "scaler": 2, "persistent": 1, "simp": 0, "lp": base, "family": "sys-scaleroff",
                  "ops": [["solve"], ["scaler", "0"], ["chg_obj", "0", "1:1"], ["solve"], ["scaler", "4"], ["solve"]]})
    cases.append({"mode": "USER", "scaler": 6, "persistent": 1, "simp": 1, "lp": base, "family": "sys-persist-toggle",
                  "ops": [["solve"], ["persist", "0"], ["chg_rhs", "1", "1:0"], ["solve"], ["persist", "1"], ["solve"]]})
    # change calls whose argument is the internally stored (scaled) value of the bound / side they change
    img = {"m": 2, "n": 2, "sense": -1, "obj": ["1:0", "3:-4"], "lo": ["1:0", "3:-2"], "up": ["5:3", "7:4"],
           "lhs": ["1:4", "1:2"], "rhs": ["3:8", "5:6"], "robj": ["0:0", "0:0"],
           "A": [(0, 0, "1:6"), (0, 1, "1:-2"), (1, 0, "1:2"), (1, 1, "1:-6")]}
    for sc in (1, 2, 3, 4, 5, 6):
        for lpk in (0, 1):
            cases.append({"mode": "USER", "scaler": sc, "persistent": 1, "simp": lpk, "lp": img, "family": "sys-scaled-image",
                          "ops": [["solve"], ["sc_lo", "0"], ["sc_up", "1"], ["solve"], ["sc_lhs", "0"], ["sc_lhs", "1"], ["sc_rhs", "0"], ["solve"],
                                  ["sc_up", "0"], ["sc_lo", "1"], ["solve"]]})
    # scaler sequences s1 -> off -> s3 on one object: switching the scaler off leaves the old exponents in the LP, and a scaler that decides
    # not to scale (geometric scalers on an LP whose ratio is small already) must not reuse them; mild: ratio 16, non-trivial exponents
    mild = {"m": 2, "n": 2, "sense": -1, "obj": ["1:0", "1:0"], "lo": ["0:0", "0:0"], "up": [INF_TOK, "5:3"],
            "lhs": ["1:4", "1:2"], "rhs": [INF_TOK, INF_TOK], "robj": ["0:0", "0:0"],
            "A": [(0, 0, "1:2"), (0, 1, "1:4"), (1, 1, "1:6"), (1, 0, "1:4")]}
    for s1 in (1, 2, 3, 4, 5, 6):
        for s3 in (1, 2, 3, 4, 5, 6):
            for k, lp in enumerate((mild, base)):
                if k == 1 and (s1 + s3) % 3 != 0:
                    continue
                cases.append({"mode": "USER", "scaler": s1, "persistent": 1, "simp": (s1 + s3) % 2, "lp": lp, "family": "sys-scaler-seq",
                              "ops": [["solve"], ["scaler", "0"], ["solve"], ["scaler", str(s3)], ["solve"], ["chg_lo", "0", "1:-3"], ["solve"]]})
    for sc in (1, 2, 3, 4, 5, 6):
        cases.append({"mode": "BARE", "scaler": sc, "persistent": 1, "simp": 0, "family": "sys-bare",
                      "lp": dict(base, lo=[NINF_TOK, "0:0"], lhs=["1:10", NINF_TOK], rhs=[INF_TOK, "1:-2"]),
                      "xc": ["1:0", "-3:2"], "xr": ["5:-3", "0:0"]})
    return cases


# ------------------------------------------------------------------------------------------ case files
def write_cases(path, cases):
    with open(path, "w") as f:
        for k, c in enumerate(cases):
            f.write("CASE %d %s %d %d %d\n" % (k, c["mode"], c["scaler"], c["persistent"], c.get("simp", 0)))
            f.write(lp_line(c["lp"]) + "\n")
            if c["mode"] == "BARE":
                f.write("XC %s\nXR %s\n" % (",".join(c["xc"]) + ",", ",".join(c["xr"]) + ","))
            else:
                for op in c["ops"]:
                    f.write("OP " + " ".join(op) + "\n")
            f.write("END\n")


def parse_harness(out):
    """-> {case index: list of lines}"""
    res, cur = {}, None
    for l in out.splitlines():
        if l.startswith("CASE "):
            cur = []
            res[int(l.split()[1])] = cur
        elif l.startswith("ENDCASE"):
            if cur is not None:
                cur.append(l)
            cur = None
        elif cur is not None:
            cur.append(l)
    return res


HARNESS_INF = [None]


def run_harness(exe, path, ncases, rundir, env=None, timeout=3000):
    """runs all cases; when the process dies, restarts behind the case that killed it.  -> (blocks, crashes)"""
    blocks, crashes = {}, []
    first = 0
    while first < ncases:
        rc, out, err = vlib.sh([exe, "run", path, str(first), rundir], timeout=timeout, env=env)
        if os.environ.get("VERIF_KEEP"):
            with open(path + ".out", "a") as fo:
                fo.write(out + "\n#### rc=%s first=%d\n" % (rc, first))
        for l in out.splitlines()[:3]:
            if l.startswith("INF "):
                HARNESS_INF[0] = l.split()[1]
        b = parse_harness(out)
        blocks.update(b)
        if rc == 0:
            break
        done = [k for k, ls in b.items() if ls and ls[-1].startswith("ENDCASE")]
        started = sorted(b.keys())
        if rc == 3 and started and started[-1] in done and any(l.startswith("CRASH") for l in b[started[-1]]):
            first = started[-1] + 1        # a signal was caught and reported inside the case; restart behind it
            continue
        bad = None
        for k in started:
            if k not in done:
                bad = k
                break
        if bad is None:
            bad = (max(started) + 1) if started else first
        i = err.find("ERROR: AddressSanitizer")
        crashes.append((bad, rc, err[max(0, i - 80):][:8000] if i >= 0 else err[-3000:]))
        first = bad + 1
    return blocks, crashes


# ------------------------------------------------------------------------------------------ property oracles
def user_lp_of(f):
    """fields of an A/B line -> LP dict with tokens (user view)"""
    return {"m": int(f["m"]), "n": int(f["n"]), "sense": int(f["sense"]), "obj": flist(f, "obj"), "lo": flist(f, "lo"),
            "up": flist(f, "up"), "lhs": flist(f, "lhs"), "rhs": flist(f, "rhs"), "A": ftrips(f, "A")}


def internal_of_user(lp):
    """the user's LP as SPxLPBase stores it when unscaled: maxObj = obj negated for MINIMIZE"""
    q = dict(lp)
    q["obj"] = [t if lp["sense"] == 1 else tokneg(t) for t in lp["obj"]]
    q["robj"] = ["0:0"] * lp["m"]
    return q


def fnum(t):
    v = tokval(t)
    return v


def check_solution(lp, f):
    """defining relations of a reported solution on the user's LP; returns list of (signature-suffix, text).
    All arithmetic exact (Fractions); tolerances relative to the magnitudes of the terms involved."""
    bad = []
    st = int(f["status"])
    m, n = lp["m"], lp["n"]
    rows = [[] for _ in range(m)]
    cols = [[] for _ in range(n)]
    for i, j, v in lp["A"]:
        a = tokval(v)
        rows[i].append((j, a))
        cols[j].append((i, a))
    obj = [tokval(t) for t in lp["obj"]]

    def vec(k, dim):
        if k not in f:
            return None
        v = [tokval(t) for t in flist(f, k)]
        if len(v) != dim or any(isinstance(x, float) for x in v):
            bad.append(("vector-" + k, "vector %s has wrong dimension or non-finite entries: %s" % (k, f[k][:200])))
            return None
        return v

    x, s, y, d = vec("x", n), vec("s", m), vec("y", m), vec("d", n)
    TOL = Fraction(1, 10 ** 6)
    FEAS = Fraction(1, 10 ** 5)

    def fin(t, sign):
        v = tokval(t)
        if isinstance(v, float):
            return None
        if sign < 0 and v <= -Fraction(10) ** 100:
            return None
        if sign > 0 and v >= Fraction(10) ** 100:
            return None
        return v

    if st == ST_OPTIMAL:
        if x is None or s is None or y is None or d is None:
            bad.append(("optimal-without-vectors", "OPTIMAL but x/s/y/d not all available: %s" % sorted(f.keys())))
            return bad
    if x is not None and s is not None and st == ST_OPTIMAL:
        for i in range(m):
            act = sum(a * x[j] for j, a in rows[i])
            mag = sum(abs(a * x[j]) for j, a in rows[i]) + abs(s[i])
            if abs(s[i] - act) > TOL * mag + Fraction(1, 10 ** 9):
                bad.append(("slack-identity", "row %d: slack %s but A x = %s (terms magnitude %s)" % (i, float(s[i]), float(act), float(mag))))
                break
    if x is not None and st == ST_OPTIMAL:
        for j in range(n):
            l, u = fin(lp["lo"][j], -1), fin(lp["up"][j], 1)
            if l is not None and x[j] < l - FEAS * (1 + abs(l)):
                bad.append(("primal-bound", "x[%d] = %s below lower bound %s" % (j, float(x[j]), float(l))))
                break
            if u is not None and x[j] > u + FEAS * (1 + abs(u)):
                bad.append(("primal-bound", "x[%d] = %s above upper bound %s" % (j, float(x[j]), float(u))))
                break
        for i in range(m):
            act = sum(a * x[j] for j, a in rows[i])
            mag = sum(abs(a * x[j]) for j, a in rows[i])
            l, u = fin(lp["lhs"][i], -1), fin(lp["rhs"][i], 1)
            if l is not None and act < l - FEAS * (1 + abs(l)) - TOL * mag:
                bad.append(("primal-side", "row %d activity %s below lhs %s" % (i, float(act), float(l))))
                break
            if u is not None and act > u + FEAS * (1 + abs(u)) + TOL * mag:
                bad.append(("primal-side", "row %d activity %s above rhs %s" % (i, float(act), float(u))))
                break
    if y is not None and d is not None and st == ST_OPTIMAL:
        for j in range(n):
            aty = sum(a * y[i] for i, a in cols[j])
            mag = sum(abs(a * y[i]) for i, a in cols[j]) + abs(obj[j]) + abs(d[j])
            if abs(d[j] - (obj[j] - aty)) > TOL * mag + Fraction(1, 10 ** 9):
                bad.append(("redcost-identity", "column %d: d = %s but c - A^T y = %s (terms magnitude %s)" % (j, float(d[j]), float(obj[j] - aty), float(mag))))
                break
    if x is not None and "objval" in f and st == ST_OPTIMAL:
        v = tokval(f["objval"])
        cx = sum(obj[j] * x[j] for j in range(n))
        mag = sum(abs(obj[j] * x[j]) for j in range(n)) + abs(v)
        if abs(v - cx) > TOL * mag + Fraction(1, 10 ** 6):
            bad.append(("objective-value", "objValueReal = %s but c.x = %s" % (float(v), float(cx))))
    if "ray" in f:
        ray = vec("ray", n)
        if ray is not None:
            nr = max([abs(t) for t in ray] + [Fraction(0)])
            if nr == 0:
                bad.append(("ray-zero", "primal ray is the zero vector"))
            else:
                imp = sum(obj[j] * ray[j] for j in range(n)) * lp["sense"]
                mag = sum(abs(obj[j] * ray[j]) for j in range(n))
                if imp <= TOL * mag:
                    bad.append(("ray-objective", "primal ray does not improve the objective: c.ray = %s (terms %s)" % (float(imp * lp["sense"]), float(mag))))
                for j in range(n):
                    l, u = fin(lp["lo"][j], -1), fin(lp["up"][j], 1)
                    if (l is not None and ray[j] < -FEAS * nr) or (u is not None and ray[j] > FEAS * nr):
                        bad.append(("ray-bounds", "primal ray leaves a finite bound in column %d: %s" % (j, float(ray[j]))))
                        break
                for i in range(m):
                    act = sum(a * ray[j] for j, a in rows[i])
                    mag = sum(abs(a * ray[j]) for j, a in rows[i])
                    l, u = fin(lp["lhs"][i], -1), fin(lp["rhs"][i], 1)
                    if (l is not None and act < -FEAS * mag) or (u is not None and act > FEAS * mag):
                        bad.append(("ray-sides", "primal ray leaves a finite side in row %d: A ray = %s (terms %s)" % (i, float(act), float(mag))))
                        break
    if "farkas" in f:
        yf = vec("farkas", m)
        if yf is not None:
            # y^T A x within [sum_i y_i^+ lhs_i - y_i^- rhs_i , ...] must be impossible: the minimal value of
            # y^T A x over the bounds exceeds ... ; checked in the usual form: with z = A^T y,
            #   sum_i (y_i>0 ? y_i lhs_i : y_i rhs_i)  >  max_{l<=x<=u} z.x
            lhsval, ok = Fraction(0), True
            mag = Fraction(0)
            for i in range(m):
                l, u = fin(lp["lhs"][i], -1), fin(lp["rhs"][i], 1)
                if yf[i] > 0:
                    if l is None:
                        rowmag = max([abs(a) for _, a in rows[i]] + [Fraction(1)])
                        if yf[i] * rowmag > FEAS * max([abs(t) * max([abs(a) for _, a in rows[k]] + [Fraction(1)]) for k, t in enumerate(yf)]):
                            ok = False
                        continue
                    lhsval += yf[i] * l
                    mag += abs(yf[i] * l)
                elif yf[i] < 0:
                    if u is None:
                        rowmag = max([abs(a) for _, a in rows[i]] + [Fraction(1)])
                        if -yf[i] * rowmag > FEAS * max([abs(t) * max([abs(a) for _, a in rows[k]] + [Fraction(1)]) for k, t in enumerate(yf)]):
                            ok = False
                        continue
                    lhsval += yf[i] * u
                    mag += abs(yf[i] * u)
            if not ok:
                bad.append(("farkas-sign", "Farkas multiplier uses an infinite side"))
            else:
                mx = Fraction(0)
                zmax = max([sum(abs(a * yf[i]) for i, a in cols[j]) for j in range(n)] + [Fraction(0)])
                for j in range(n):
                    z = sum(a * yf[i] for i, a in cols[j])
                    zmag = sum(abs(a * yf[i]) for i, a in cols[j])
                    l, u = fin(lp["lo"][j], -1), fin(lp["up"][j], 1)
                    if z == 0:
                        continue
                    small = abs(z) <= TOL * zmag or abs(z) <= Fraction(1, 10 ** 4) * zmax
                    b = u if z > 0 else l
                    if b is None:
                        if small:
                            continue       # a residual coefficient on a column without bound counts as zero
                        bad.append(("farkas-unbounded", "Farkas combination has coefficient %s on column %d without %s bound (terms %s)"
                                    % (float(z), j, "upper" if z > 0 else "lower", float(zmag))))
                        ok = False
                        break
                    mx += z * b
                    mag += abs(z * b)
                if ok and not (lhsval - mx > -TOL * mag):
                    bad.append(("farkas-margin", "Farkas proof has no margin: y.side = %s, max z.x = %s" % (float(lhsval), float(mx))))
    return bad


def replay_of(c, upto=None):
    r = {"mode": c["mode"], "scaler": c["scaler"], "persistent": c["persistent"], "simp": c.get("simp", 0),
         "lp": dict(c["lp"], A=[list(t) for t in c["lp"]["A"]]), "family": c.get("family", "")}
    if c["mode"] == "BARE":
        r["xc"], r["xr"] = c["xc"], c["xr"]
    else:
        r["ops"] = c["ops"] if upto is None else c["ops"][:upto]
    return r



# ------------------------------------------------------------------------------------------ main
def regenerate():
    pass


def main():
    ck = vlib.Check("C09", "proof")
    ck.prove()
    try:
        exe = vlib.build_harness("C09")
    except vlib.BuildError as e:
        ck.violation("harness-build", "harness does not build against the current tree: %s" % str(e)[-1500:], {"kind": "build"}, no_input=True)
        ck.finish()
    try:
        model = vlib.build_model("C09")
    except vlib.BuildError as e:
        ck.violation("model-build", "extracted model does not build: %s" % str(e)[-800:], {"kind": "extraction"}, no_input=True)
        ck.finish()

    g = Gen(ck.rng, ck.tier)
    cases = []
    if ck.args.replay:
        rp = json.load(open(ck.args.replay))
        if "case" in rp:
            c = rp["case"]
            c["lp"]["A"] = [tuple(t) for t in c["lp"]["A"]]
            cases = [c]
    else:
        cdir = os.path.join(vlib.ROOT, "corpus", "C09")
        if os.path.isdir(cdir):
            for fn in sorted(os.listdir(cdir)):
                if fn.endswith(".json"):
                    c = json.load(open(os.path.join(cdir, fn)))
                    c["lp"]["A"] = [tuple(t) for t in c["lp"]["A"]]
                    c.setdefault("family", "corpus")
                    cases.append(c)
        cases += systematic()
        nbare, nuser = (150, 170) if ck.tier == "quick" else (3000, 4000)
        for k in range(nbare):
            fam, lp, xc, xr = g.bare_lp()
            cases.append({"mode": "BARE", "scaler": 1 + k % 6, "persistent": ck.rng.randrange(2), "simp": 0, "lp": lp,
                          "xc": xc, "xr": xr, "family": "bare-" + fam})
        for k in range(nuser):
            kind, lp, rho, gam = g.user_lp()
            sc = 1 + k % 6
            pers = 1 if ck.rng.random() < 0.75 else 0
            ops, final = g.history(lp, kind, rho, gam)
            cases.append({"mode": "USER", "scaler": sc, "persistent": pers, "simp": ck.rng.choice([0, 0, 1]), "lp": lp,
                          "ops": ops, "family": "user-" + kind, "final": final})

    rundir = os.path.join(vlib.BUILD, "run")
    os.makedirs(rundir, exist_ok=True)
    hf = os.path.join(rundir, "C09.%d.h.cases" % os.getpid())
    mf = os.path.join(rundir, "C09.%d.m.cases" % os.getpid())
    write_cases(hf, cases)
    # the build cache may be collected while a long run is under way: work on a private copy of the binary
    import shutil
    import time
    exe_copy = os.path.join(rundir, "C09.%d.exe" % os.getpid())
    shutil.copy2(exe, exe_copy)
    t_h = time.time()
    blocks, crashes = run_harness(exe_copy, hf, len(cases), rundir)
    try:
        os.remove(exe_copy)
    except OSError:
        pass
    vlib.log("[C09] harness: %d cases in %.0fs (%d restarts)" % (len(cases), time.time() - t_h, len(crashes)))
    for k, rc, err in crashes:
        c = cases[k] if k < len(cases) else {}
        ck.violation("harness-died:%s" % c.get("mode", "?"), "the implementation killed the harness process (rc=%d) in case %d" % (rc, k),
                     {"kind": "crash", "case": c, "stderr": err})

    # ---- build the model queries from what the implementation reported
    queries = []      # (qid, case index, kind, extra)
    with open(mf, "w") as fm:
        def put(qid, R, C, lp, xc=None, xr=None):
            fm.write("CASE %s\nR %s\nC %s\n%s\n" % (qid, R, C, lp_line(lp)))
            if xc is not None:
                fm.write("XC %s\nXR %s\n" % (",".join(xc) + ",", ",".join(xr) + ","))
            fm.write("END\n")

        for k, c in enumerate(cases):
            ls = blocks.get(k)
            if not ls:
                continue
            if c["mode"] == "BARE":
                d = {l.split(" ", 1)[0]: l.split(" ", 1)[1] for l in ls if " " in l}
                if "orig" in d and "exps" in d:
                    fo, fe = parse_fields(d["orig"]), parse_fields(d["exps"])
                    lp = {"m": int(fo["m"]), "n": int(fo["n"]), "sense": int(fo["sense"]), "obj": flist(fo, "obj"),
                          "lo": flist(fo, "lo"), "up": flist(fo, "up"), "lhs": flist(fo, "lhs"), "rhs": flist(fo, "rhs"),
                          "robj": flist(fo, "robj"), "A": ftrips(fo, "A")}
                    put("%d" % k, fe.get("R", ""), fe.get("C", ""), lp, c["xc"], c["xr"])
            else:
                step, a = None, None
                for l in ls:
                    if l.startswith("OP "):
                        step = l.split()[1]
                    elif l.startswith("A "):
                        a = parse_fields(l[2:])
                    elif l.startswith("BI ") and "stored:" in l and a is not None:
                        fe = parse_fields(l.split("stored:")[0])
                        put("%d.%s" % (k, step), fe.get("R", ""), fe.get("C", ""), internal_of_user(user_lp_of(a)))
    t_m = time.time()
    rc2, mout, merr = vlib.sh([model, mf], timeout=900)
    vlib.log("[C09] model: %.0fs" % (time.time() - t_m))
    t_c = time.time()
    if rc2 != 0:
        ck.violation("model-crash", "model runner failed rc=%d: %s" % (rc2, merr[-400:]), {"kind": "model"}, no_input=True)
    mblocks, cur = {}, None
    for l in mout.splitlines():
        if l.startswith("CASE "):
            cur = {}
            mblocks[l.split()[1]] = cur
        elif l.startswith("INF "):
            model_inf = l.split()[1]
        elif cur is not None and " " in l:
            cur[l.split(" ", 1)[0]] = l.split(" ", 1)[1]
    if not os.environ.get("VERIF_KEEP"):
        for p in (hf, mf):
            try:
                os.remove(p)
            except OSError:
                pass

    def strip(text, drop=("cf", "scaled", "name", "rsz", "csz")):
        return " ".join(t for t in text.split() if t.split("=")[0] not in drop)

    if HARNESS_INF[0] is not None and (HARNESS_INF[0] != INF_TOK or locals().get("model_inf", INF_TOK) != INF_TOK):
        ck.violation("infinity-constant", "soplex::infinity is %s in the implementation, %s in the model (INF_M, INF_E of ScalingModel.v), %s in the generators"
                     % (HARNESS_INF[0], locals().get("model_inf"), INF_TOK), {"kind": "constant"}, no_input=True)
    for k, c in enumerate(cases):
        ls = blocks.get(k)
        if not ls:
            continue
        fam = c.get("family", "")
        ck.count("family:" + fam)
        ck.count("scaler:" + SCALER_NAMES.get(c["scaler"], "?"))
        ck.count("mode:%s persistent=%d" % (c["mode"], c["persistent"]))
        crash = [l for l in ls if l.startswith("CRASH") or l.startswith("EXCEPTION")]
        if c["mode"] == "BARE":
            bare_case(ck, k, c, ls, mblocks.get("%d" % k), strip, replay_of, crash)
        else:
            user_case(ck, k, c, ls, mblocks, strip, replay_of, crash)
        if k < 3:
            ck.sample({"mode": c["mode"], "scaler": c["scaler"], "lp": lp_line(c["lp"])[:300], "ops": c.get("ops", [])[:6]})

    vlib.log("[C09] comparison and oracles: %.0fs" % (time.time() - t_c))
    if ck.tier == "thorough" and not ck.args.replay:
        coq_sample(ck, cases, blocks)
        asan_run(ck, cases, rundir)

    ck.cov["rule"] = ("bare: one (LP, scaler) pair per case, LP entries dyadic with small mantissas and exponents over 2^-40..2^40 in the families "
                      "row/column-structured, wild, tiny, huge, unit, with empty rows/columns, single row/column; exact comparison of the stored LP, its "
                      "un-scaling, all getters, the six solution unscale maps, the scale* functions and the change overloads with the extracted model "
                      "fed with the exponents the implementation chose.  user: one API history (solve / change* single and vector / addRow(s) / addCol(s) "
                      "with implicit new columns and rows / changeRow / changeCol / remove* / sense / scaler switch / persistent toggle) per case run on a "
                      "SoPlex without scaler and one with scaler k; after every step accessors, vector getters and writeFile text compared exactly, the "
                      "stored scaled LP compared exactly with the model's scaling of the user's LP, solutions checked on the unscaled LP.  An evaluation "
                      "is one observed step (bare: one case); distinct = distinct (mode, scaler, step text)")
    ck.cov["trusted_base"] = ["Coq 8.16.1 kernel (coqc), no native_compute; vm_compute for the concrete examples and the two refutation witnesses",
                              "axioms: none (Print Assumptions: closed under the global context)" if not ck.coq["axioms"] else "axioms: " + ", ".join(ck.coq["axioms"]),
                              "extraction: ExtrOcamlBasic only; OCaml 4.13.1; extract/zutil.ml + extract/C09/driver.ml (zarith for I/O only)",
                              "harness/C09.cpp compiled with g++ -fno-access-control against /repo/src (reads scaleExp, _realLP, _scaler, _isRealLPScaled)",
                              "checks/C09.py: generators, exact Fraction arithmetic of the solution oracle"]
    ck.assumptions = ["the scaler's choice of exponents is free: exponents are read from the implementation, not predicted",
                      "IEEE-754 binary64 ldexp (round to nearest even below 2^-1074, overflow to infinity) as modelled by ldexp_ieee; the generated data stays "
                      "inside the guard d_in_range, which the bitwise round-trip theorem requires",
                      "solution vectors of the scaled and the unscaled run need not coincide; each is checked against the defining relations on the user's LP "
                      "(s = A x and d = c - A^T y to 1e-6 relative to the terms; feasibility to 1e-5 (1 + |bound|))",
                      "row objectives (maxRowObj) are scaled in the bare mode only; SoPlexBase offers no user-level access to them"]
    ck.finish()


def coq_term(t):
    if t == "inf":
        return "DPInf"
    if t == "-inf":
        return "DNInf"
    if t == "nan":
        return "DNaN"
    m, e = t.split(":")
    return "(DFin (%s) (%s))" % (m, e)


def coq_lp(f):
    m, n = int(f["m"]), int(f["n"])
    a = [["(DFin 0 0)"] * n for _ in range(m)]
    for i, j, v in ftrips(f, "A"):
        a[i][j] = coq_term(v)
    lst = lambda xs: "[" + "; ".join(xs) + "]"
    return "(mkLP %s %s %s %s %s %s %s)" % (
        lst([coq_term(t) for t in flist(f, "obj")]), lst([coq_term(t) for t in flist(f, "lo")]), lst([coq_term(t) for t in flist(f, "up")]),
        lst([coq_term(t) for t in flist(f, "lhs")]), lst([coq_term(t) for t in flist(f, "rhs")]), lst([coq_term(t) for t in flist(f, "robj")]),
        lst([lst(row) for row in a]))


def coq_sample(ck, cases, blocks, nsample=30):
    """re-evaluates a sample of bare cases inside Coq (vm_compute): the stored LP reported by the implementation is
    d_apply_scaling of the original and d_unscale of it is the original - takes extraction and the OCaml driver out of the
    trusted base for the sample"""
    picks = [k for k, c in enumerate(cases) if c["mode"] == "BARE" and k in blocks][:nsample]
    body = ["From Coq Require Import ZArith List.", "From SV Require Import Dbl ScalingModel.", "Import ListNotations.", "Local Open Scope Z_scope."]
    n = 0
    for k in picks:
        d = {}
        for l in blocks[k]:
            if " " in l:
                d.setdefault(l.split(" ", 1)[0], l.split(" ", 1)[1])
        if not all(x in d for x in ("orig", "exps", "stored")):
            continue
        fo, fe, fs = parse_fields(d["orig"]), parse_fields(d["exps"]), parse_fields(d["stored"])
        if any(len(x.split(":")[0]) > 17 for x in flist(fo, "obj")):
            continue
        R = "[" + "; ".join("(%s)" % x for x in flist(fe, "R")) + "]"
        C = "[" + "; ".join("(%s)" % x for x in flist(fe, "C")) + "]"
        body.append("Example sample_%d : d_apply_scaling %s %s %s = %s /\\ d_unscale %s %s %s = %s." % (k, R, C, coq_lp(fo), coq_lp(fs), R, C, coq_lp(fs), coq_lp(fo)))
        body.append("Proof. vm_compute. split; reflexivity. Qed.")
        n += 1
    if not n:
        return
    d = os.path.join(vlib.BUILD, "run")
    path = os.path.join(d, "C09_sample_%d.v" % os.getpid())
    with open(path, "w") as f:
        f.write("\n".join(body) + "\n")
    rc, out, err = vlib.sh(["coqc", "-Q", vlib.COQ, "SV", "-w", "-all", path], timeout=900, cwd=d)
    for ext in (".v", ".vo", ".vok", ".vos", ".glob"):
        try:
            os.remove(path[:-2] + ext)
        except OSError:
            pass
    try:
        os.remove(os.path.join(d, ".C09_sample_%d.aux" % os.getpid()))
    except OSError:
        pass
    if rc != 0:
        ck.violation("coq-sample", "re-evaluation of %d bare cases inside Coq (vm_compute) does not confirm the implementation's stored LPs: %s" % (n, (out + err)[-1200:]),
                     {"kind": "coq-sample"}, no_input=True)
    else:
        ck.cov["coq_vm_compute_sample"] = "%d bare cases re-evaluated inside Coq (d_apply_scaling / d_unscale by vm_compute, reflexivity)" % n


def asan_run(ck, cases, rundir, limit=200):
    """histories that create columns / rows implicitly under persistent scaling (and the hand-made cases) under
    AddressSanitizer + UBSan (clang)"""
    import re
    try:
        exe = vlib.build_harness("C09", cxx="clang++", extra=["-fsanitize=address,undefined", "-g"], tag="lib-asan")
    except (vlib.BuildError, OSError) as e:
        ck.cov["asan"] = "sanitizer build not available: %s" % str(e)[-300:]
        return
    sel = [c for c in cases if c["mode"] == "USER" and (c.get("family", "").startswith("sys-") or (c.get("final") or {}).get("implicit"))][:limit]
    if not sel:
        return
    path = os.path.join(rundir, "C09.%d.asan.cases" % os.getpid())
    write_cases(path, sel)
    env = dict(os.environ, C09_NOHANDLER="1", ASAN_OPTIONS="detect_leaks=0", UBSAN_OPTIONS="print_stacktrace=0")
    import shutil
    exe_copy = os.path.join(rundir, "C09.%d.asan.exe" % os.getpid())
    shutil.copy2(exe, exe_copy)
    blocks, crashes = run_harness(exe_copy, path, len(sel), rundir, env=env, timeout=900)
    for q in (path, exe_copy):
        try:
            os.remove(q)
        except OSError:
            pass
    ck.cov["asan"] = "%d histories under ASan+UBSan, %d aborted by the sanitizer" % (len(sel), len(crashes))
    for k, rc, err in crashes:
        c = sel[k] if k < len(sel) else {}
        diverged = False
        try:
            diverged = bool(c and blocks.get(k) and user_case(ck, k, c, blocks[k], {}, None, replay_of, ["PARTIAL"]))
        except (KeyError, IndexError, ValueError):
            pass               # the last line of an aborted process may be cut anywhere
        if diverged:
            ck.count("asan: abort later in a history that had already diverged (attributed to the reported defect)")
            continue
        m = re.search(r"ERROR: AddressSanitizer: (\S+)", err)
        kind = m.group(1) if m else "rc=%d" % rc
        frames = re.findall(r"#\d+ \S+ in (soplex::[A-Za-z0-9_]+(?:<[^>]*>)?::[A-Za-z0-9_~]+)", err)
        names = [f.split("::")[-1] for f in frames]
        if kind == "heap-buffer-overflow" and "computeScaleExp" in names[:2] and ("doAddRow" in names[:4] or "doAddCol" in names[:4]):
            sig = "implicit-%s-scale-exp:asan" % ("col" if "doAddRow" in names[:4] else "row")
        else:
            sig = "asan:%s:%s" % (kind, names[0] if names else "?")
        ck.violation(sig, "AddressSanitizer: %s in %s (history with scaler %s persistent=%s)" % (kind, " <- ".join(names[:4]), c.get("scaler"), c.get("persistent")),
                     {"case": {kk: vv for kk, vv in c.items() if kk != "final"}, "stderr": err[:3000]})


def cmp_fields(hf, mf, keys):
    return [k for k in keys if hf.get(k, "") != mf.get(k, "")]


def bare_case(ck, k, c, ls, mb, strip, replay_of, crash):
    d = {}
    for l in ls:
        if " " in l:
            d.setdefault(l.split(" ", 1)[0], l.split(" ", 1)[1])
    ck.evaluated(("bare", c["scaler"], lp_line(c["lp"])))
    rp = {"case": replay_of(c)}
    if crash:
        ck.violation("crash:bare", "the implementation crashed in the bare scaler mode: %s" % crash[0], dict(rp, observed=ls[-5:]))
        return
    if mb is None or "stored" not in d:
        ck.violation("bare-incomplete", "incomplete observation in bare case %d" % k, dict(rp, observed=ls[-5:]), no_input=True)
        return
    lp = c["lp"]
    fo = parse_fields(d["orig"])
    want = internal_of_user(lp)
    want["robj"] = lp["robj"]
    # the LP the harness built is the generated one
    for key in ("obj", "lo", "up", "lhs", "rhs", "robj"):
        if flist(fo, key) != want[key]:
            ck.violation("harness-load:" + key, "the LP built by the harness differs from the case in %s" % key, dict(rp, observed=d["orig"]), no_input=True)
            return
    if ftrips(fo, "A") != sorted(lp["A"]):
        ck.violation("harness-load:A", "the LP built by the harness differs from the case in A", dict(rp, observed=d["orig"]), no_input=True)
        return
    fe = parse_fields(d["exps"])
    nz = any(int(x) != 0 for x in flist(fe, "R") + flist(fe, "C"))
    ck.count("bare:exponents " + ("non-zero" if nz else "all zero"))
    fs, fu, fg = parse_fields(d["stored"]), parse_fields(d["unscaled"]), parse_fields(d["get"])
    ms, mu, mg = parse_fields(mb["stored"]), parse_fields(mb["unscaled"]), parse_fields(mb["get"])
    keys = ("m", "n", "obj", "lo", "up", "lhs", "rhs", "robj", "A")
    for name, h in (("orig", fo), ("stored", fs), ("unscaled", fu)):
        if h.get("cf") != "ok":
            ck.violation("bare-colfile:" + name, "row file and column file of the %s LP differ" % name, dict(rp, observed=d[name]))
            return
    diff = cmp_fields(fs, ms, keys)
    if diff:
        ck.violation("bare-stored:" + ",".join(diff), "stored scaled LP differs from apply_scaling(exponents, user LP) in %s (scaler %s)\n impl : %s\n model: %s"
                     % (diff, SCALER_NAMES[c["scaler"]], strip(d["stored"]), mb["stored"]),
                     dict(rp, exponents=d["exps"], implementation=d["stored"], model=mb["stored"], correspondence="d_apply_scaling vs SPxScaler::applyScaling"))
        return
    diff = cmp_fields(fu, fo, keys)
    if diff:
        ck.violation("bare-roundtrip:" + ",".join(diff), "unscaleLP() does not restore the original LP bit for bit in %s (scaler %s)" % (diff, SCALER_NAMES[c["scaler"]]),
                     dict(rp, exponents=d["exps"], original=d["orig"], unscaled=d["unscaled"], theorem="C09_d_unscale_scale_id"))
        return
    diff = cmp_fields(fu, mu, keys)
    if diff:
        ck.violation("bare-unscale-model:" + ",".join(diff), "unscaled LP differs from the model's d_unscale in %s" % diff,
                     dict(rp, implementation=d["unscaled"], model=mb["unscaled"]), no_input=True)
        return
    if fu.get("scaled") != "0" or fe.get("scaled") != "1":
        ck.violation("bare-scaling-flag", "isScaled() flags wrong: after scale %s, after unscale %s" % (fe.get("scaled"), fu.get("scaled")), rp)
    # getters: correspondence with the model ...
    gk = ("slo", "sup", "slhs", "srhs", "sobj", "vlo", "vup", "vlhs", "vrhs", "vobj", "ucoef")
    diff = cmp_fields(fg, mg, gk)
    # the model mirrors the vector getters as written (no test for infinity); an implementation that returns the original
    # data instead satisfies the property and is accepted as well
    diff = [x for x in diff if not (x in ("vlo", "vup", "vlhs", "vrhs") and flist(fg, x) == flist(fo, x[1:]))]
    if diff:
        ck.violation("bare-getters-model:" + ",".join(diff), "getters on the scaled LP differ from the model in %s\n impl : %s\n model: %s" % (diff, d["get"], mb["get"]),
                     dict(rp, implementation=d["get"], model=mb["get"]), no_input=True)
        return
    # ... and the property: they return the original data
    for gkey, okey in (("slo", "lo"), ("sup", "up"), ("slhs", "lhs"), ("srhs", "rhs"), ("sobj", "obj"), ("vobj", "obj")):
        if flist(fg, gkey) != flist(fo, okey):
            ck.violation("bare-getter:" + gkey, "getter %s on the scaled LP does not return the original %s: %s vs %s" % (gkey, okey, fg.get(gkey), fo.get(okey)),
                         dict(rp, exponents=d["exps"], observed=d["get"], original=d["orig"], theorem="C09_d_getters_see_original"))
            return
    for gkey in ("urow", "ucol", "ucoef"):
        if fg.get(gkey, "") != fo.get("A", ""):
            ck.violation("bare-getter:" + gkey, "unscaled rows/columns/coefficients differ from the original matrix (%s)" % gkey,
                         dict(rp, exponents=d["exps"], observed=d["get"], original=d["orig"]))
            return
    for gkey, okey in (("vlo", "lo"), ("vup", "up"), ("vlhs", "lhs"), ("vrhs", "rhs")):
        a, b = flist(fg, gkey), flist(fo, okey)
        if a != b:
            pos = [i for i in range(len(b)) if a[i] != b[i]]
            allinf = all(is_inf_tok(b[i]) for i in pos)
            sig = ("vecgetter-inf:" if allinf else "bare-vecgetter:") + gkey
            i = pos[0]
            ck.violation(sig, "vector getter %s on a scaled LP reports %s (= %.6g) for entry %d whose original value is %s (%s); exponents %s"
                         % ({"vlo": "getLowerUnscaled", "vup": "getUpperUnscaled", "vlhs": "getLhsUnscaled", "vrhs": "getRhsUnscaled"}[gkey], a[i],
                            float(tokval(a[i])), i, b[i], "infinite" if is_inf_tok(b[i]) else "finite", d["exps"].split(" rsz")[0]),
                         dict(rp, exponents=d["exps"], observed=fg.get(gkey), original=fo.get(okey), theorem="C09_vector_getters_see_original_refuted"))
    # solution maps and scale* functions
    for name in ("sol", "sc", "chg", "chg1"):
        if name not in d or name not in mb:
            ck.violation("bare-incomplete:" + name, "missing observation %s" % name, rp, no_input=True)
            return
        if d[name].strip() != mb[name].strip():
            hfm, mfm = parse_fields(d[name]), parse_fields(mb[name])
            diff = [x for x in hfm if hfm[x] != mfm.get(x)]
            if name == "chg":
                # as above: vector overloads that keep infinite entries (= what is stored already) are accepted
                diff = [x for x in diff if hfm[x] != fs.get(x)]
                if not diff:
                    continue
            ck.violation("bare-%s:%s" % (name, ",".join(diff)), "%s differs from the model in %s (exponents %s)\n impl : %s\n model: %s" % (
                {"sol": "solution unscale maps", "sc": "scale* of single data", "chg": "vector change overloads", "chg1": "single-index change overloads"}[name],
                diff, d["exps"].split(" rsz")[0], d[name], mb[name]),
                dict(rp, exponents=d["exps"], implementation=d[name], model=mb[name], probes={"xc": c["xc"], "xr": c["xr"]}))
            return
    # property: re-submitting the user's own bounds while scaled must leave the stored LP unchanged
    fc, fc1 = parse_fields(d["chg"]), parse_fields(d["chg1"])
    for key in ("lo", "up", "lhs", "rhs"):
        if flist(fc1, key) != flist(fs, key):
            ck.violation("bare-change1:" + key, "single-index change%s(scale=true) of the user's own datum alters the stored LP" % key,
                         dict(rp, exponents=d["exps"], stored=d["stored"], after=d["chg1"]))
            return
        a, b, o = flist(fc, key), flist(fs, key), flist(fo, key)
        if a != b:
            pos = [i for i in range(len(b)) if a[i] != b[i]]
            allinf = all(is_inf_tok(o[i]) for i in pos)
            i = pos[0]
            ck.violation(("vecchange-inf:" if allinf else "bare-vecchange:") + key,
                         "vector change%s(..., scale=true) stores %s (= %.6g, %s) for entry %d whose user value is the %s %s; the single-index overload stores %s"
                         % ({"lo": "Lower", "up": "Upper", "lhs": "Lhs", "rhs": "Rhs"}[key], a[i], float(tokval(a[i])),
                            "infinite" if is_inf_tok(a[i]) else "a finite bound", i, "infinite" if is_inf_tok(o[i]) else "finite", o[i], b[i]),
                         dict(rp, exponents=d["exps"], observed=fc.get(key), expected=fs.get(key), theorem="C09_vector_change_keeps_infinite_bounds_refuted"))


def user_case(ck, k, c, ls, mblocks, strip, replay_of, crash):
    # group the lines by step
    steps, cur = [], None
    for l in ls:
        if l.startswith("OP "):
            t = l.split()
            cur = {"k": int(t[1]), "name": t[2], "skipped": len(t) > 3 and t[3] == "skipped"}
            steps.append(cur)
        elif cur is not None and " " in l:
            tag, rest = l.split(" ", 1)
            cur[tag] = rest
    prevA = None
    stopped = False
    ns_seen = False
    implicit_seen = ""
    if crash and steps:
        # the process died: the output of the last step may be cut anywhere
        steps[-1].pop("AS", None)
        steps[-1].pop("BS", None)
    for s in steps:
        if s["skipped"]:
            continue
        opi = s["k"]
        optext = " ".join(c["ops"][opi - 1]) if opi >= 1 and opi - 1 < len(c["ops"]) else "load"
        ck.count("op:" + s["name"])
        ck.evaluated(("user", c["scaler"], c["persistent"], optext))
        rp = {"case": replay_of(c, opi)}
        if "A" not in s or "B" not in s or "F" not in s:
            break              # incomplete observation (the process died inside this step)
        fa, fb = parse_fields(s["A"]), parse_fields(s["B"])
        # implicit creation of a column / row by this step (DESIGN section 9 #20)?
        implicit = ""
        if prevA is not None and s["name"] in ("add_row", "add_col"):
            if s["name"] == "add_row" and int(fa["n"]) > int(prevA["n"]):
                implicit = "implicit-col"
            if s["name"] == "add_col" and int(fa["m"]) > int(prevA["m"]):
                implicit = "implicit-row"
        if implicit:
            implicit_seen = implicit
            ck.count("user:" + implicit)
        if "EXC" in s:
            ck.violation("exception:" + s["name"], "an SPxException escaped in step %d (%s): %s" % (opi, optext, s["EXC"]), dict(rp, observed=s["EXC"]))
            break
        ns_seen = fb.get("nullscaler") == "1"
        if fb.get("nullscaler") == "1":
            ck.violation("null-scaler-deref", "after setIntParam(SCALER, SCALER_OFF) on a persistently scaled LP _scaler is null while _realLP->isScaled(): "
                         "coefReal / getRowVectorReal dereference it (step %d, %s)" % (opi, optext), dict(rp, observed=s["B"][:400]))
        for who, f in (("A", fa), ("B", fb)):
            if f.get("cols") != "ok" or (f.get("coef") != "ok" and f.get("nullscaler") != "1"):
                ck.violation("user-views:%s:%s" % (who, s["name"]), "getRowVectorReal / getColVectorReal / coefReal of object %s disagree after step %d (%s): cols=%s coef=%s"
                             % (who, opi, optext, f.get("cols", "")[:200], f.get("coef")), dict(rp, observed=s[who]))
        keys = ("m", "n", "sense", "obj", "lo", "up", "lhs", "rhs", "A", "vlo", "vup", "vlhs", "vrhs", "vobj")
        diff = cmp_fields(fa, fb, keys)
        stop = False
        isv = s["name"].startswith("vchg")
        for key in diff:
            a, b = flist(fa, key), flist(fb, key)
            ctx = dict(rp, unscaled_object=s["A"], scaled_object=s["B"], internal=s.get("BI", "")[:800])
            if key in ("lo", "up", "lhs", "rhs", "vlo", "vup", "vlhs", "vrhs") and len(a) == len(b):
                pos = [i for i in range(len(a)) if a[i] != b[i]]
                i = pos[0] if pos else 0
                if pos and all(is_inf_tok(a[i]) for i in pos):
                    if key.startswith("v") and key[1:] not in diff:
                        # DESIGN section 9 #21: does not change the state of the object; go on with the history
                        ck.violation("vecgetter-inf:" + key,
                                     "get%sReal(VectorBase&) on a persistently scaled LP reports %s (= %.6g) for entry %d; without scaling (and through the "
                                     "single-index getter) it is the infinite %s; step %d (%s), scaler %s" % (
                                         {"vlo": "Lower", "vup": "Upper", "vlhs": "Lhs", "vrhs": "Rhs"}[key], b[i], float(tokval(b[i])), i, a[i], opi, optext,
                                         SCALER_NAMES[c["scaler"]]), ctx)
                        continue
                    if key.startswith("v"):
                        continue           # reported with the single-index field below / above
                    ck.violation(("vecchange-inf:" if isv else "infinite-bound-altered:%s:" % s["name"]) + key,
                                 "after step %d (%s) the scaled object reports %s = %s for entry %d where the user's value is the infinite %s (scaler %s)"
                                 % (opi, optext, key, b[i], i, a[i], SCALER_NAMES[c["scaler"]]), ctx)
                    stop = True
                    continue
            if implicit and key in ("A", "lo", "up", "lhs", "rhs", "obj", "vlo", "vup", "vlhs", "vrhs", "vobj"):
                ck.violation("%s-scale-exp:user-view" % implicit,
                             "%s under persistent scaling with an index that creates a new %s: the data seen by the user differ from the unscaled object in '%s' "
                             "after step %d (%s), scaler %s\n A: %s\n B: %s" % (s["name"], "column" if implicit == "implicit-col" else "row", key, opi, optext,
                                                                                SCALER_NAMES[c["scaler"]], fa.get(key, "")[:300], fb.get(key, "")[:300]), ctx)
                stop = True
                continue
            ck.violation("user-mismatch:%s:%s" % (s["name"], key),
                         "user-level view differs between the unscaled and the scaled object in %s after step %d (%s), scaler %s persistent=%d\n A: %s\n B: %s"
                         % (key, opi, optext, SCALER_NAMES[c["scaler"]], c["persistent"], fa.get(key, "")[:300], fb.get(key, "")[:300]), ctx)
            stop = True
        if s.get("F", "same").split()[0] != "same":
            t = s["F"].split()
            ta, tb = bytes.fromhex(t[1]).decode("latin-1"), bytes.fromhex(t[2]).decode("latin-1")
            if not stop:
                ck.violation("writefile:" + s["name"], "writeFile(unscale=true) text differs between the unscaled and the scaled object after step %d (%s)" % (opi, optext),
                             dict(rp, file_unscaled=ta, file_scaled=tb))
                stop = True
        # stored scaled LP == model's scaling of the user's LP
        bi = s.get("BI", "")
        fbi = parse_fields(bi.split("stored:")[0])
        if s["name"] == "solve":
            nzexp = any(int(x) != 0 for x in flist(fbi, "R") + flist(fbi, "C"))
            ck.count("user:solve, LP %s afterwards%s" % ("persistently scaled" if fbi.get("scaled") == "1" else "not scaled",
                                                         (" (non-zero exponents)" if nzexp else " (all exponents zero)") if fbi.get("scaled") == "1" else ""))
            if int(fbi.get("uc", "0")) > 0:
                ck.count("user:solve after at least one unscale fallback / scaler switched off (_unscaleCalls > 0)")
        if "stored:" in bi:
            ck.count("user:step with scaled LP")
            mb = mblocks.get("%d.%d" % (k, opi))
            fi = parse_fields(bi.split("stored:")[1])
            if fi.get("cf") != "ok":
                ck.violation(("%s-scale-exp:colfile" % implicit) if implicit else "user-colfile:" + s["name"],
                             "row file and column file of the stored scaled LP differ after step %d (%s): row file %s / column file %s"
                             % (opi, optext, fi.get("A", "")[:300], fi.get("cf", "")[:300]), dict(rp, internal=bi))
                stop = True
            elif mb is not None and not stop:
                ms = parse_fields(mb["stored"])
                d2 = cmp_fields(fi, ms, ("m", "n", "obj", "lo", "up", "lhs", "rhs", "A"))
                if d2:
                    key = d2[0]
                    a, b = flist(fi, key), flist(ms, key)
                    sig = "user-stored:%s:%s" % (s["name"], ",".join(d2))
                    if implicit:
                        sig = "%s-scale-exp:stored" % implicit
                    if key in ("lo", "up", "lhs", "rhs") and len(a) == len(b):
                        pos = [i for i in range(len(a)) if a[i] != b[i]]
                        if all(is_inf_tok(b[i]) for i in pos):
                            sig = ("vecchange-inf-stored:" if isv else "stored-infinite-scaled:%s:" % s["name"]) + key
                    ck.violation(sig, "the stored scaled LP is not the scaling of the user's LP with the current exponents in %s after step %d (%s), scaler %s\n impl : %s\n model: %s"
                                 % (d2, opi, optext, SCALER_NAMES[c["scaler"]], fi.get(key, "")[:300], ms.get(key, "")[:300]),
                                 dict(rp, internal=bi, model=mb["stored"], theorem="C09_stored_after_change / C09_add_under_scaling_consistent"))
                    stop = True
        if stop:
            stopped = True
            break
        # solutions
        if "AS" in s and "BS" in s and "status=" in s["AS"] and "status=" in s["BS"] and "hassol=" in s["BS"]:
            lp = user_lp_of(fa)
            sa, sb = parse_fields(s["AS"]), parse_fields(s["BS"])
            ck.count("solve:A=%s B=%s" % (sa["status"], sb["status"]))
            badA = check_solution(lp, sa)
            badB = check_solution(lp, sb)
            failsA = set(x for x, _ in badA)
            for suffix, text in badA:
                ck.count("oracle:unscaled run fails %s (not attributed to scaling)" % suffix)
            benign = c.get("family", "") in ("user-opt", "user-inf", "user-unb") or c.get("family", "").startswith("sys-")
            for suffix, text in badB:
                if suffix in failsA:
                    continue
                if not benign:
                    ck.count("oracle:scaled run fails %s on a wild LP (entries over 80 binary orders; not judged)" % suffix)
                    continue
                ck.violation("solution:scaled:%s" % suffix,
                             "solution of the scaled object after step %d violates a defining relation on the user's LP that the unscaled object's solution satisfies: "
                             "%s (status %s, scaler %s persistent=%d)" % (opi, text, sb["status"], SCALER_NAMES[c["scaler"]], c["persistent"]),
                             dict(rp, lp=lp_line(lp), solution=s["BS"], unscaled_solution=s["AS"], internal=s.get("BI", "")[:600]))
            benign_first = c.get("family", "") in ("user-opt", "user-inf", "user-unb") and all(o[0] in ("solve",) for o in c["ops"][:opi])
            if int(sa["status"]) == ST_OPTIMAL and int(sb["status"]) == ST_OPTIMAL and "objval" in sa and "objval" in sb and not failsA:
                va, vb = tokval(sa["objval"]), tokval(sb["objval"])
                # both optimal: the optimal value is unique
                x = [tokval(t) for t in flist(sb, "x")]
                mag = sum(abs(tokval(lp["obj"][j]) * x[j]) for j in range(len(x))) + abs(va) + abs(vb)
                if abs(va - vb) > Fraction(1, 10 ** 5) * mag + Fraction(1, 10 ** 6):
                    if benign_first:
                        ck.violation("solution:objective-differs", "both objects report OPTIMAL but objective values differ: %s (unscaled) vs %s (scaled) after step %d"
                                     % (float(va), float(vb), opi), dict(rp, lp=lp_line(lp), unscaled=s["AS"], scaled=s["BS"]))
                    else:
                        ck.count("oracle:objective values differ on a modified / wild LP")
            elif {int(sa["status"]), int(sb["status"])} <= {ST_OPTIMAL, ST_UNBOUNDED, ST_INFEASIBLE} and sa["status"] != sb["status"]:
                if benign_first and int(sb["status"]) == ST_OPTIMAL and not badB:
                    # the SCALED object returns OPTIMAL with a solution that satisfies every defining relation on the user's LP; it is the
                    # unscaled twin (no scaler on an LP whose entries span many binary orders of magnitude) that misjudges: not a scaling leak
                    # (a wrong verdict of an unscaled solve belongs to C01 / C02)
                    ck.count("oracle:unscaled twin misjudges a badly scaled LP (scaled answer verified)")
                elif benign_first:
                    ck.violation("solution:status-differs", "definite but different verdicts on a benign LP: %s (unscaled) vs %s (scaled) after step %d (scaler %s)"
                                 % (sa["status"], sb["status"], opi, SCALER_NAMES[c["scaler"]]), dict(rp, lp=lp_line(lp), unscaled=s["AS"], scaled=s["BS"]))
                else:
                    ck.count("oracle:verdicts differ on a modified / wild LP")
        prevA = fa
    if crash == ["PARTIAL"]:
        return stopped         # output of a process that was aborted by the sanitizer: only the divergence matters
    # (histories with sc_* calls take their values from the scaled object at run time: the generator cannot mirror them)
    if not crash and not stopped and "final" in c and steps and not any(x["skipped"] for x in steps) and "A" in steps[-1] \
            and steps[-1]["k"] == len(c["ops"]) and not any(o[0].startswith("sc_") for o in c["ops"]):
        fa = parse_fields(steps[-1]["A"])
        for key in ("lo", "up", "lhs", "rhs"):
            if flist(fa, key) != c["final"][key]:
                ck.violation("generator-tracking:" + key, "the generator's mirror of the LP differs from the unscaled object at the end of a history in %s: %s vs %s"
                             % (key, c["final"][key], flist(fa, key)), {"case": replay_of(c)}, no_input=True)
                break
    if crash and stopped:
        ck.count("user:crash later in a history that had already diverged (attributed to the reported defect)")
    if crash and not stopped:
        last = steps[-1] if steps else {"k": 0, "name": "load"}
        nxt = c["ops"][last["k"]][0] if last["k"] < len(c["ops"]) and "F" in last else last["name"]
        hang = "sig=14" in crash[0]
        if not implicit_seen and last["k"] < len(c["ops"]) and "F" in last and "A" in last:
            # the operation that never returned may itself create a column / row implicitly
            o = c["ops"][last["k"]]
            fl = parse_fields(last["A"])
            if o[0] == "add_row" and o[3] != "-" and max(int(t.split(":")[0]) for t in o[3].split(",")) >= int(fl["n"]):
                implicit_seen = "implicit-col"
            if o[0] == "add_col" and o[4] != "-" and max(int(t.split(":")[0]) for t in o[4].split(",")) >= int(fl["m"]):
                implicit_seen = "implicit-row"
        if implicit_seen:
            ck.violation("%s-scale-exp:crash" % implicit_seen,
                         "%s (%s) in step %d (%s) of a history in which a %s was created implicitly under persistent scaling (scale exponents read beyond the array)"
                         % ("no return within 90 s" if hang else "crash", crash[0], last["k"] + (1 if "F" in last else 0), nxt,
                            "column" if implicit_seen == "implicit-col" else "row"), {"case": replay_of(c, last["k"] + 1), "observed": ls[-6:]})
            return stopped
        if ns_seen and nxt == "solve" and not hang:
            ck.violation("null-scaler-deref:optimize", "optimize() crashed (%s) in step %d: SCALER had been switched off (and PERSISTENTSCALING as well, so that _optimize does "
                         "not unscale) while the LP is still persistently scaled; the solution is unscaled through the null _scaler" % (crash[0], last["k"] + 1),
                         {"case": replay_of(c, last["k"] + 1), "observed": ls[-6:]})
            return stopped
        ck.violation(("hang:user:" if hang else "crash:user:") + nxt, ("the implementation did not return within 90 s" if hang else "the implementation crashed") +
                     " (%s) in step %d (%s) of a user-level history, scaler %s persistent=%d"
                     % (crash[0], last["k"] + (1 if "F" in last else 0), nxt, SCALER_NAMES[c["scaler"]], c["persistent"]),
                     {"case": replay_of(c, last["k"] + 1), "observed": ls[-6:]})
    return stopped


if __name__ == "__main__":
    main()
