#!/usr/bin/env python3
"""C14 - basis files and state files restore exactly what was saved.

prove (Properties_C14: record-level BAS round trip, default names) + correspondence: for all valid bases of small LPs and
for bases from solves / random valid setBasis arrays, x {user names, default names} x {standard, CPLEX flag} x {descriptor
in the solver (column / row representation), status arrays outside the solver}: the file written by the implementation is
tokenised and compared with the model's records, the result of readBasisFile is compared with the model's readBasis and
with the statuses before writing; state files (writeStateReal -> new solver: readFile + readBasisFile + loadSettingsFile)
are compared on LP data, statuses, parameters and the result of a re-solve."""
import itertools
import os
import sys
from fractions import Fraction

sys.path.insert(0, os.path.dirname(os.path.abspath(__file__)))
sys.path.insert(0, os.path.dirname(os.path.dirname(os.path.abspath(__file__))))
import vlib
import lpgen
import basiscommon as bc

HARNESSES = ["C04"]
MODEL = True
OBJ_TOL = 1e-6
ALPHA = "abcdefghijklmnopqrstuvwxyzABCDEFGHIJKLMNOPQRSTUVWXYZ0123456789_"


def py_valid(p, rows, cols):
    """input filter only (the judgement is the model's): arrays accepted by isBasisValid"""
    if rows.count("B") + cols.count("B") != p.m:
        return False

    def ok(s, lo, up):
        if s == "B" or s == "Z":
            return True
        if s == "L":
            return lo is not None
        if s == "U":
            return up is not None
        if s == "F":
            return lo is not None and up is not None and lo == up
        return False
    return all(ok(rows[i], p.rows[i][0], p.rows[i][2]) for i in range(p.m)) and all(ok(cols[j], p.cols[j][1], p.cols[j][2]) for j in range(p.n))


def all_valid_bases(p):
    out = []
    for t in itertools.product("ULFZB", repeat=p.m + p.n):
        rows, cols = "".join(t[:p.m]), "".join(t[p.m:])
        if py_valid(p, rows, cols):
            out.append((rows, cols))
    return out


NAME_BOUNDARY = [7, 8, 9, 14, 15, 16, 22, 23, 24, 31]


def rand_names(r, k, maxlen, used):
    out = []
    while len(out) < k:
        # lengths at and around the field boundaries of the BAS layout (8-character name fields, 7 blanks between them)
        ln = r.choice(NAME_BOUNDARY) if (maxlen > 8 and r.random() < 0.35) else r.randint(1, maxlen)
        n = "".join(r.choice(ALPHA) for _ in range(ln))
        if n[0] == "$" or n in used or n in ("ENDATA", "NAME", "RHS", "RANGES", "BOUNDS", "ROWS", "COLUMNS", "MINIMIZE"):
            continue
        used.add(n)
        out.append(n)
    return out


def file_records(text, outside_default):
    """tokenised data lines -> ['TAG:col[:row]', ...]; the broken default column name of the outside writer ('x', '<j>')
    is glued together again and reported"""
    name, recs, end, raw = bc.bas_records(text)
    out, broken = [], False
    for t in recs:
        if outside_default and len(t) >= 3 and t[1] == "x" and t[2].isdigit():
            t = [t[0], "x" + t[2]] + t[3:]
            broken = True
        out.append(":".join(t))
    return name, out, end, broken


def unhex(h):
    return bytes.fromhex(h.rstrip(",")).decode("latin-1")


# --------------------------------------------------------------------------------------------------------------
# part 1+2: basis files
# --------------------------------------------------------------------------------------------------------------
PATHS = [("C", ["NEW", "REP C"], True), ("R", ["NEW", "REP R"], True), ("D", ["NEW syncmode=1", "DETACH"], False)]


def part_bas(ck, exe, model):
    r = ck.rng
    quick = ck.tier == "quick"
    dims = [(1, 1), (2, 1), (1, 2), (2, 2), (3, 1), (1, 3), (2, 3), (3, 2), (3, 3), (2, 4), (4, 2), (2, 3), (3, 2)] if quick else \
        [(1, 1), (2, 1), (1, 2), (2, 2), (3, 1), (1, 3), (2, 3), (3, 2), (3, 3), (2, 4), (4, 2), (3, 4), (4, 3), (4, 4), (3, 5), (5, 4)]
    cap = 400 if quick else 3000
    jobs = []      # (cid, p, rows, cols, rn, cn)
    k = 0
    for (m, n) in dims:
        p = bc.gen_small(r, m, n)
        bases = all_valid_bases(p)
        ck.count("bas:lp-dim:%d" % (m + n))
        ck.count("bas:valid-bases-enumerated", len(bases))
        if len(bases) > cap:
            r.shuffle(bases)
            bases = bases[:cap]
        used = set()
        rn = rand_names(r, m, r.choice([3, 8, 12, 20]), used)
        cn = rand_names(r, n, r.choice([3, 8, 12, 20]), used)
        for (rows, cols) in bases:
            jobs.append(("b%d" % k, p, rows, cols, rn, cn, "enum"))
            k += 1
    # larger LPs: random valid setBasis arrays
    for _ in range(250 if quick else 6000):
        p = lpgen.gen_around_point(r, 8 if quick else 14) if r.random() < 0.7 else lpgen.gen_random(r, 8 if quick else 14)
        rows, cols = bc.random_valid_basis(r, p, free_zero_only=(r.random() < 0.7))
        used = set()
        ml = r.choice([8, 8, 12, 24])
        jobs.append(("b%d" % k, p, rows, cols, rand_names(r, p.m, ml, used), rand_names(r, p.n, ml, used), "random"))
        k += 1
    htxt, meta = "", {}
    for (cid, p, rows, cols, rn, cn, fam) in jobs:
        htxt += p.text(cid) + "\n"
        combos = [(pa, nm, cpx) for pa in PATHS for nm in (1, 0) for cpx in (0, 1)]
        if fam == "random":
            combos = [r.choice(combos) for _ in range(3)]
        elif not (quick and False):
            # every path, every name mode; the flag alternates to keep the volume down on the enumerated bases
            combos = [(pa, nm, (i + j) % 2) for i, pa in enumerate(PATHS) for j, nm in enumerate((1, 0))] + [r.choice(combos)]
        steps = []
        z_bounded = any(rows[i] == "Z" and not (p.rows[i][0] is None and p.rows[i][2] is None) for i in range(p.m)) or \
            any(cols[j] == "Z" and not (p.cols[j][1] is None and p.cols[j][2] is None) for j in range(p.n))
        if z_bounded:
            # ZERO on a bounded variable is moved to a bound by setBasis when the LP is in the solver; stored outside the solver it has no
            # representation in a BAS file (the stricter predicate of C04_set_get_roundtrip / free_ok of C14_bas_roundtrip)
            combos = [c for c in combos if c[0][2]]
            ck.count("bas:zero-on-bounded-variable(loaded paths only)")
        for ci, ((pn, pre, loaded), nm, cpx) in enumerate(combos):
            # the outside writer reads _rowTypes, which is maintained only in the sync modes that keep a rational LP
            pre = list(pre)
            if nm == 0 and (ci + len(cid)) % 2 == 1 and p.n >= 1 and p.m >= 1:
                # the same LP, but a column and a row have been re-entered at the end and the originals removed: the last element moves
                # into the hole, so the internal keys no longer coincide with the positions (default names are by POSITION; with user name
                # sets the writer looks names up by the LP's keys, i.e. the caller has to maintain the name set in parallel - not done here)
                jx, ix = r.randrange(p.n), r.randrange(p.m)
                q = lpgen.qs
                o, lo, up = p.cols[jx]
                ent = " ".join("%d:%s" % (i, q(rw[1][jx])) for i, rw in enumerate(p.rows) if rw[1].get(jx, 0) != 0)
                pre.append("MOD zz1 addcol %s %s %s %s" % (q(o), lpgen.NINF if lo is None else q(lo), lpgen.INF if up is None else q(up), ent))
                pre.append("MOD zz2 rmcol %d" % jx)
                lhs, co, rhs = p.rows[ix]
                pre.append("MOD zz3 addrow %s %s %s" % (lpgen.NINF if lhs is None else q(lhs), lpgen.INF if rhs is None else q(rhs),
                                                       " ".join("%d:%s" % (j, q(v)) for j, v in sorted(co.items()) if v != 0)))
                pre.append("MOD zz4 rmrow %d" % ix)
                ck.count("bas:rekeyed-lp")
            htxt += "\n".join(pre) + "\nNAMES r %s\nNAMES c %s\n" % (" ".join(rn), " ".join(cn))
            htxt += "SETB s%d %s %s\nDUMP d%d\nWBAS w%d %d %d\n" % (ci, bc.sarg(rows), bc.sarg(cols), ci, ci, nm, cpx)
            if loaded:
                htxt += "WBASK k%d %d %d\n" % (ci, nm, cpx)
            htxt += "RBAS r%d %d\nDUMP e%d\n" % (ci, nm, ci)
            steps.append((ci, pn, loaded, nm, cpx))
        meta[cid] = (p, rows, cols, rn, cn, fam, steps)
    rc, hout, herr = bc.run_harness(ck, exe, htxt, "bas")
    HB = lpgen.blocks(hout)
    if rc != 0:
        ck.violation("crash:bas", "harness crashed in the basis-file part (rc=%d)" % rc, {"kind": "crash", "stderr": herr[-400:]}, no_input=True)
    # model queries built from the observed descriptors / files
    mtxt = ""
    obs = {}
    for cid, (p, rows, cols, rn, cn, fam, steps) in meta.items():
        ls = HB.get(cid)
        if ls is None:
            continue
        L = {}
        for l in ls:
            t = l.split()
            if len(t) > 1:
                L[t[1]] = l
        obs[cid] = L
        mtxt += bc.lp_block_from_lp(p, cid) + "\nN r %s\nN c %s\n" % (" ".join(rn), " ".join(cn))
        for (ci, pn, loaded, nm, cpx) in steps:
            if "d%d" % ci not in L or "w%d" % ci not in L:
                continue
            d = bc.DumpLP(bc.kv(L["d%d" % ci]))
            w = bc.kv(L["w%d" % ci])
            name, recs, end, broken = file_records(unhex(w["text"]), (not loaded) and nm == 0)
            if loaded and d.drows is not None:
                mtxt += "Q wf%d writefile %s %s %d %d\n" % (ci, bc.sarg(d.drows), bc.sarg(d.dcols), nm, cpx)
                mtxt += "Q wk%d write %s %s %d %d\n" % (ci, bc.sarg(d.drows), bc.sarg(d.dcols), nm, cpx)
                mtxt += "Q dv%d descvalid %s %s\n" % (ci, bc.sarg(d.drows), bc.sarg(d.dcols))
            else:
                mtxt += "Q wf%d writeout %s %s %d %d\n" % (ci, bc.sarg(d.rows), bc.sarg(d.cols), nm, cpx)
            mtxt += "Q rd%d read %d impl %s\n" % (ci, nm, bc.sarg(";".join(recs)))
            mtxt += "Q ri%d read %d intended %s\n" % (ci, nm, bc.sarg(";".join(recs)))
            mtxt += "Q sb%d setbasis 1 %s %s\n" % (ci, bc.sarg(d.rows), bc.sarg(d.cols))
    mout = bc.run_model(ck, model, mtxt, "bas")
    MA = bc.answers(mout)
    for cid, (p, rows, cols, rn, cn, fam, steps) in meta.items():
        L = obs.get(cid)
        if L is None:
            continue
        A = MA.get(cid, {})
        for (ci, pn, loaded, nm, cpx) in steps:
            key = "%s:%s:%s" % (pn, "user" if nm else "default", "cpx" if cpx else "std")
            if "d%d" % ci not in L or "w%d" % ci not in L or "e%d" % ci not in L:
                continue
            ck.count("bas:combo:" + key)
            ck.evaluated((cid, ci, key), nontrivial=(p.m + p.n >= 2))
            d = bc.DumpLP(bc.kv(L["d%d" % ci]))
            e = bc.DumpLP(bc.kv(L["e%d" % ci]))
            w = bc.kv(L["w%d" % ci])
            rb = bc.kv(L["r%d" % ci])
            ctx = {"lp": p.text(cid), "lp_format": p.lp_format(), "rows": rows, "cols": cols, "row_names": rn, "col_names": cn, "path": pn,
                   "names": "user" if nm else "default", "cpx": cpx, "file": unhex(w["text"]), "before": L["d%d" % ci], "after": L["e%d" % ci]}
            name, recs, end, broken = file_records(unhex(w["text"]), (not loaded) and nm == 0)
            if broken:
                ck.violation("bas-outside-default-colname-split",
                             "writeBasisFile with the LP outside the solver and no column names writes the default name in two pieces ('x       0' instead of 'x0')",
                             dict(ctx, theorem="C14_outside_writer_agrees"))
            if broken:
                continue
            if not end or w["ok"] != "1":
                ck.violation("bas-file-incomplete", "writeBasisFile returned %s / no ENDATA line" % w["ok"], ctx)
                continue
            # 1. the file is what the model writes
            exp = A.get("wf%d" % ci, {}).get("recs", "").rstrip(";")
            if loaded and ";".join(recs) != exp and ";".join(recs) == A.get("wk%d" % ci, {}).get("recs", "").rstrip(";"):
                ck.count("bas:format-flag-honoured-by-writeBasisFile(fixed variant)")
                exp = ";".join(recs)
            if ";".join(recs) != exp:
                ck.violation("bas-writer-correspondence:%s" % key, "the records written (%s) differ from the model's (%s)" % (";".join(recs), exp),
                             dict(ctx, model=exp, theorem="correspondence BasisFileModel.writeBasisFile / writeBasisFileOutside"))
                continue
            if loaded and "k%d" % ci in L:
                kx = bc.kv(L["k%d" % ci])
                _, krecs, kend, _ = file_records(unhex(kx["text"]), False)
                kexp = A.get("wk%d" % ci, {}).get("recs", "").rstrip(";")
                if ";".join(krecs) != kexp:
                    ck.violation("bas-writer-kernel-correspondence:%s" % key, "SPxBasisBase::writeBasis wrote %s, the model %s" % (";".join(krecs), kexp),
                                 dict(ctx, model=kexp))
                if cpx and ";".join(krecs) != ";".join(recs):
                    ck.count("bas:format-flag-dropped-by-SPxSolverBase::writeBasisFile")
            # 2. reading: implementation vs model of the implementation
            mr = A.get("rd%d" % ci, {})
            if rb["ok"] != mr.get("ok") and rb["ok"] == A.get("ri%d" % ci, {}).get("ok"):
                ck.count("bas:reader-uses-documented-default-names(fixed variant)")
                mr = A.get("ri%d" % ci, {})
            if rb["ok"] != mr.get("ok"):
                ck.violation("bas-reader-correspondence:%s" % key, "readBasisFile returned %s, the model %s" % (rb["ok"], mr.get("ok")), dict(ctx, model=mr))
                continue
            if rb["ok"] == "1":
                if (e.drows, e.dcols) != (bc.stat(mr.get("drows", "")), bc.stat(mr.get("dcols", ""))):
                    ck.violation("bas-reader-correspondence:%s" % key, "after readBasisFile the descriptor is %s/%s, the model says %s/%s" % (
                        e.drows, e.dcols, mr.get("drows"), mr.get("dcols")), dict(ctx, model=mr))
                    continue
            # 3. the property: exactly the statuses that were saved come back
            want = A.get("sb%d" % ci, {})      # statuses of the saved basis as a solver holds them (loadDesc of the arrays)
            wr, wc = bc.stat(want.get("rows", "")), bc.stat(want.get("cols", ""))
            if rb["ok"] != "1":
                if nm == 0 and A.get("ri%d" % ci, {}).get("ok") == "1":
                    ck.violation("bas-default-names-readback",
                                 "readBasisFile without names fails on the file written by writeBasisFile without names (the reader's default names are x0, x0x1, x0x1x2, ...)",
                                 dict(ctx, theorem="C14_bas_roundtrip_default_names_refuted"))
                else:
                    ck.violation("bas-readback-fails:%s" % key, "readBasisFile fails on a file written by writeBasisFile", ctx)
                continue
            if not e.has or (e.rows, e.cols) != (wr, wc):
                freeok = A.get("dv%d" % ci, {}).get("freeok", "1")
                ck.violation("bas-roundtrip-differs:%s" % key, "saved statuses %s/%s come back as %s/%s (hasBasis %s)" % (wr, wc, e.rows, e.cols, e.has),
                             dict(ctx, expected=(wr, wc), free_ok=freeok, theorem="C14_bas_roundtrip"))
        if cid in ("b0", "b1"):
            ck.sample({"part": "basis file", "lp": p.text(cid), "basis": (rows, cols), "names": (rn, cn)})


# --------------------------------------------------------------------------------------------------------------
# part 3: bases from solves + state files
# --------------------------------------------------------------------------------------------------------------
def part_state(ck, exe, model):
    r = ck.rng
    ns, nmax = (400, 8) if ck.tier == "quick" else (8000, 14)
    jobs, htxt = [], ""
    for k in range(ns):
        q = r.randrange(10)
        p = lpgen.gen_around_point(r, nmax) if q < 6 else (lpgen.gen_random(r, nmax) if q < 8 else lpgen.gen_lp(r, nmax))
        if r.random() < 0.85:
            # the MPS writer throws on a free row (finding of C12): give free rows a far right-hand side in most cases
            p.rows = [(lhs, co, Fraction(1000) if (lhs is None and rhs is None) else rhs) for (lhs, co, rhs) in p.rows]
        free_row = any(lhs is None and rhs is None for (lhs, co, rhs) in p.rows)
        cfg = lpgen.rand_config(r)
        cfg.pop("solution_polishing", None)
        if r.random() < 0.5:
            cfg["iterlimit"] = r.choice([0, 1, 2, 50])
        if r.random() < 0.3:
            cfg["timelimit"] = r.choice([1000, 50])
        used = set()
        rn, cn = rand_names(r, p.m, 7, used), rand_names(r, p.n, 7, used)
        names = r.random() < 0.6
        setfirst = r.random() < 0.6
        readnames = True if names else r.random() < 0.6      # a file with user names cannot be read with default names
        start = r.choice(["solve", "solve", "setbasis"])
        cid = "s%d" % k
        htxt += p.text(cid) + "\nNEW %s\nNAMES r %s\nNAMES c %s\n" % (lpgen.cfg_text(cfg), " ".join(rn), " ".join(cn))
        if start == "solve":
            htxt += "SOLVE first S\n"
        else:
            rows, cols = bc.random_valid_basis(r, p)
            htxt += "SETB sb %s %s\n" % (bc.sarg(rows), bc.sarg(cols))
        # basis file round trip on the solved object (statuses must come back, re-solve must agree)
        htxt += "DUMP pre A\nWBAS w %d 0\nRBAS r %d\nDUMP post A\n" % (1 if names else 0, 1 if names else 0)
        htxt += "STATE st %d 0 %d %d\nSOLVE resolveA S\n" % (1 if names else 0, 1 if readnames else 0, 1 if setfirst else 0)
        jobs.append((cid, p, cfg, names, readnames, start, free_row, rn, cn, setfirst))
    rc, hout, herr = bc.run_harness(ck, exe, htxt, "state")
    HB = lpgen.blocks(hout)
    if rc != 0:
        ck.violation("crash:state", "harness crashed in the state-file part (rc=%d)" % rc, {"kind": "crash", "stderr": herr[-400:]}, no_input=True)
    for (cid, p, cfg, names, readnames, start, free_row, rn, cn, setfirst) in jobs:
        ls = HB.get(cid)
        if ls is None:
            continue
        L = {}
        for l in ls:
            t = l.split()
            L.setdefault(t[0] + ":" + (t[1] if len(t) > 1 else ""), l)
        ctx = {"lp": p.text(cid), "lp_format": p.lp_format(), "config": cfg, "user_names": names, "names_passed_to_reader": readnames, "start": start,
               "load_order": "settings, LP, basis" if setfirst else "LP, basis, settings",
               "row_names": rn, "col_names": cn, "observed": [x[:600] for x in ls]}
        ck.count("state:start:" + start)
        # (a) basis file round trip after a solve
        if "DUMP:pre" in L and "DUMP:post" in L and "RBAS:r" in L:
            pre, post = bc.DumpLP(bc.kv(L["DUMP:pre"])), bc.DumpLP(bc.kv(L["DUMP:post"]))
            ok = bc.kv(L["RBAS:r"])["ok"]
            if "SOLVE:first" in L:
                ck.count("state:first-status:" + bc.kv(L["SOLVE:first"])["status"])
            if pre.has and int(pre.d["bstat"]) > -2:
                ck.evaluated((cid, "bas-after-" + start), nontrivial=(p.m + p.n >= 3))
                if ok != "1":
                    sig = "bas-default-names-readback" if not names else "bas-readback-fails:solve"
                    ck.violation(sig, "readBasisFile (%s names) fails on the file just written by writeBasisFile" % ("user" if names else "default"), ctx)
                elif (pre.rows, pre.cols) != (post.rows, post.cols) or not post.has:
                    ck.violation("bas-roundtrip-differs:solve", "statuses %s/%s come back as %s/%s" % (pre.rows, pre.cols, post.rows, post.cols), ctx)
        # (b) state files
        if "EXC:st" in L:
            what = unhex(bc.kv(L["EXC:st"]).get("what", ""))
            if free_row:
                ck.count("state:mps-writer-throws-on-free-row")        # C12's finding, not claimed here
            else:
                ck.violation("state-exception", "writeStateReal / loading threw: " + what, ctx)
            continue
        if "STATE:st" not in L or "STATE-A:st" not in L or "STATE-B:st" not in L:
            continue
        st = bc.kv(L["STATE:st"])
        a, b = bc.DumpLP(bc.kv(L["STATE-A:st"])), bc.DumpLP(bc.kv(L["STATE-B:st"]))
        ck.evaluated((cid, "state"), nontrivial=(p.m + p.n >= 3))
        ck.count("state:names:%s/%s" % ("user" if names else "default", "passed" if readnames else "nullptr"))
        if st["okLP"] != "1" or st["okSet"] != "1":
            ck.violation("state-load-fails", "readFile / loadSettingsFile failed on the files of writeStateReal: %s" % st, ctx)
            continue
        # LP up to the normalisations of the MPS writer: objective written as minimisation of -maxObj, offset not in the file
        bad = None
        if (a.m, a.n) != (b.m, b.n):
            bad = "dimensions %dx%d -> %dx%d" % (a.m, a.n, b.m, b.n)
        else:
            def same(x, y):
                return (x is None and y is None) or (x is not None and y is not None and abs(x - y) <= Fraction(1, 10 ** 15))
            for nm_, xa, xb in (("lower", a.lo, b.lo), ("upper", a.up, b.up), ("lhs", a.lhs, b.lhs), ("rhs", a.rhs, b.rhs)):
                if not all(same(x, y) for x, y in zip(xa, xb)):
                    bad = nm_ + " differs"
            sgn = -1 if a.sense == 1 else 1
            if a.sense == 1 and not setfirst:
                # the MPS file holds min -c.x, the settings file restores objsense = maximize afterwards: max -c.x
                if b.sense == 1 and any(x != 0 for x in a.obj) and all(same(-x, y) for x, y in zip(a.obj, b.obj)):
                    ck.violation("state-max-objective-negated:settings-loaded-last",
                                 "state files of a maximisation problem loaded in the order LP, basis, settings give max -c.x (the MPS writer inverts the "
                                 "objective, the settings file restores objsense = maximize)", ctx)
                    continue
            if b.sense != -1 and any(x != 0 for x in a.obj):
                bad = "objective sense of the reloaded LP is %d (MPS files are minimisation problems)" % b.sense
            elif not all(same((sgn if b.sense == -1 else 1) * x, y) for x, y in zip(a.obj, b.obj)):
                bad = "objective differs"
            if set(a.A) != set(b.A) or not all(same(a.A[k], b.A[k]) for k in a.A):
                bad = "matrix differs"
            if a.off != b.off:
                bad = "objective offset %s -> %s" % (a.off, b.off)
        if bad:
            ck.violation("state-lp-differs", "the LP restored from the state files differs: " + bad, ctx)
            continue
        # parameters
        pa = dict(w.split("=", 1) for w in L["STATEPAR-A:st"].split()[2:])
        pb = dict(w.split("=", 1) for w in L["STATEPAR-B:st"].split()[2:])
        diff = [k for k in pa if pa[k] != pb.get(k) and k != "i:objsense"]
        if diff:
            ck.violation("state-params-differ:%s" % "+".join(sorted(diff))[:60], "parameters not restored: %s" % [(k, pa[k], pb.get(k)) for k in diff], ctx)
        # basis
        if a.has and int(a.d["bstat"]) > -2:
            if st["okBas"] != "1":
                if not readnames:
                    ck.violation("bas-default-names-readback", "readBasisFile without names fails on the .bas file of writeStateReal", ctx)
                else:
                    ck.violation("state-basis-load-fails", "readBasisFile fails on the .bas file of writeStateReal", ctx)
                continue
            if (a.rows, a.cols) != (b.rows, b.cols):
                ck.violation("state-basis-differs", "statuses %s/%s restored as %s/%s" % (a.rows, a.cols, b.rows, b.cols), ctx)
                continue
            # re-solve
            if "STATESOLVE-B:st" in L and "SOLVE:resolveA" in L:
                sa, sb = bc.kv(L["SOLVE:resolveA"]), bc.kv(L["STATESOLVE-B:st"])
                free_nb_row = any(a.rows[i] == "Z" and a.lhs[i] is None and a.rhs[i] is None for i in range(a.m))
                if sa["status"].startswith("ABORT") or sb["status"].startswith("ABORT"):
                    ck.count("state:resolve-hit-a-limit")
                elif sa["status"] != sb["status"]:
                    ck.violation("state-resolve-free-nonbasic-row" if free_nb_row else "state-resolve-status:%s->%s" % (sa["status"], sb["status"]),
                                 "the restored solver ends %s, the original %s" % (sb["status"], sa["status"]), ctx)
                elif sa["status"] == "OPTIMAL":
                    va, vb = lpgen.dy2fr(sa["obj"]), lpgen.dy2fr(sb["obj"])
                    exp = va if (a.sense == -1 or b.sense == 1) else -(va - a.off) + a.off
                    if abs(float(exp - vb)) > OBJ_TOL * (1 + abs(float(exp))):
                        ck.violation("state-resolve-free-nonbasic-row" if free_nb_row else "state-resolve-objective",
                                     "the restored solver reaches %s, expected %s" % (float(vb), float(exp)), ctx)
        if cid in ("s0", "s1"):
            ck.sample({"part": "state files", "lp": p.text(cid), "config": cfg, "names": names})


def main():
    ck = vlib.Check("C14", "proof")
    ck.prove()
    exe = vlib.build_harness("C04")
    model = vlib.build_model("C14")
    part_bas(ck, exe, model)
    part_state(ck, exe, model)
    ck.cov["rule"] = ("(a) every valid basis (all status arrays accepted by isBasisValid, capped per LP) of small LPs plus random valid bases of LPs up to %d rows/"
                      "columns, each under combinations of {column repr., row repr., LP outside the solver} x {user names, default names} x {standard, CPLEX flag}: "
                      "one evaluation per (LP, basis, combination); (b) basis-file round trip after a solve / setBasis and state-file round trip into a new solver: "
                      "one evaluation each per LP. non-trivial: rows+columns >= 2 (a) / >= 3 (b)" % (8 if ck.tier == "quick" else 14))
    ck.cov["trusted_base"] = ["Coq 8.16.1 kernel; theorems of Properties_C14.v closed under the global context",
                              "extraction (ExtrOcamlBasic) + extract/C14/driver.ml",
                              "harness/C04.cpp (writeBasisFile/readBasisFile/writeStateReal/readFile/loadSettingsFile through the public API; private members only to "
                              "print the descriptor and to enter the 'LP outside the solver' branch)",
                              "checks/C14.py, checks/basiscommon.py, checks/lpgen.py (generation, tokenising of BAS files, comparison)"]
    ck.assumptions = ["the BAS round trip is proved at record level (indicator, column name, optional row name); the lexical level (MPSInput::readLine, NAME/ENDATA "
                      "lines) and the state files (MPS writer/reader, settings files) are validated per run, not proved",
                      "names: no blanks, not starting with '$', at most 8 characters for state files (the MPS writer truncates longer names); LPs with a free row "
                      "are skipped in the state part (the MPS writer throws, finding of C12); state files are written in MPS format only",
                      "the outside writer is exercised in SYNCMODE_AUTO (it reads _rowTypes, which is empty in SYNCMODE_ONLYREAL)"]
    ck.finish()


if __name__ == "__main__":
    main()
