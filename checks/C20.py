#!/usr/bin/env python3
"""C20 - the C interface does exactly what the corresponding C++ calls do.
regenerate the tables (declared/defined functions + wrapped members, enumerator integers documented / compiled / as the
compiled C functions treat them) -> prove Properties_C20 -> build harness (+ sanitizer build in the thorough tier) and
the extracted model -> random call sequences over all C functions, mirrored call by call on a C++ object -> compare
(a) every value returned to the C caller with the C++ getter, (b) the complete state of both objects after every call,
(c) what the C object holds with what the extracted conversions predict from the raw arguments, (d) the elements of
output arrays that were written with the model's write footprint; guard pages / canaries / ASan watch the lengths."""
import json
import math
import os
import shutil
import sys

sys.path.insert(0, os.path.dirname(os.path.dirname(os.path.abspath(__file__))))
import vlib
from translator import gen_ciface

HARNESSES = ["C20"]
MODEL = True
ASAN_EXTRA = ["-fsanitize=address,undefined", "-fsanitize-recover=address", "-g"]
ASAN_ENV = {"ASAN_OPTIONS": "halt_on_error=0:detect_leaks=0:handle_segv=0:allow_user_segv_handler=1:print_summary=0",
            "UBSAN_OPTIONS": "print_stacktrace=0"}
INF = 1e100
LONG_MAX = 2 ** 63 - 1


def dy(x):
    m, e = vlib.dyadic(float(x))
    return "%d:%d" % (m, e)


def hexs(s):
    return s.encode("latin-1").hex()


def regenerate():
    exe = vlib.build_harness("C20")
    rc, table, err = vlib.sh([exe, "table"], timeout=300)
    gen_ciface.generate(table, os.path.join(vlib.COQ, "gen", "Gen_CIface.v"))


# --------------------------------------------------------------------------------------------------------------
# generator
# --------------------------------------------------------------------------------------------------------------
BOOL_EXCLUDE = {"ITERATIVE_REFINEMENT", "ADAPT_TOLS_TO_MULTIPRECISION", "PRECISION_BOOSTING", "BOOSTED_WARM_START",
                "RECOVERY_MECHANISM", "BOOLPARAM_COUNT"}
INT_VALUES = {"OBJSENSE": [-1, 1, 0, 2], "REPRESENTATION": [0, 1, 2, 3], "ALGORITHM": [0, 1, 2], "FACTOR_UPDATE_TYPE": [0, 1, -1],
              "FACTOR_UPDATE_MAX": [0, 1, 5, 200, -1], "ITERLIMIT": [-1, 0, 1, 2, 5, 100, -2], "REFLIMIT": [-1, 0, 1, 3],
              "STALLREFLIMIT": [-1, 0, 2], "DISPLAYFREQ": [1, 10, 200, 0], "VERBOSITY": [0, 1, 3, 5, 6], "SIMPLIFIER": [0, 1, 2, 3, 4],
              "SCALER": [0, 1, 2, 3, 4, 5, 6, 7], "STARTER": [0, 1, 2, 3, 4], "PRICER": [0, 1, 2, 3, 4, 5, 6],
              "RATIOTESTER": [0, 1, 2, 3, 4], "SYNCMODE": [0, 1, 1, 3], "READMODE": [0, 1, 2], "SOLVEMODE": [0, 1, 2, 3],
              "CHECKMODE": [0, 1, 2, 3], "TIMER": [0, 1, 2], "HYPER_PRICING": [0, 1, 2, 3], "RATFAC_MINSTALLS": [0, 2, 5],
              "LEASTSQ_MAXROUNDS": [0, 5, 50], "SOLUTION_POLISHING": [0, 1, 2, 3], "STATTIMER": [0, 1, 2],
              "STORE_BASIS_SIMPLEX_FREQ": [0, 1, 10]}
REAL_VALUES = {"FEASTOL": [1e-6, 1e-9, 1e-3, 0.0, -1.0], "OPTTOL": [1e-6, 1e-9, 1e-3, 0.0, -1.0], "EPSILON_ZERO": [1e-16, 1e-12, 0.0, 2.0],
               "OBJLIMIT_LOWER": [-INF, -10.0, 0.0], "OBJLIMIT_UPPER": [INF, 10.0, 0.0], "FPFEASTOL": [1e-9, 1e-6, 1e-13],
               "FPOPTTOL": [1e-9, 1e-6, 1e-13], "MAXSCALEINCR": [1e25, 1.0, 0.5], "SPARSITY_THRESHOLD": [0.6, 0.0, 1.0, 2.0],
               "OBJ_OFFSET": [0.0, 1.0, -2.5, 7.0], "MIN_MARKOWITZ": [0.01, 0.5, 0.99, 2.0], "TIMELIMIT": [INF, 1000.0, -1.0],
               "REPRESENTATION_SWITCH": [1.2, 3.0], "MINRED": [1e-4, 0.5]}


class Gen:
    def __init__(self, rng, tab):
        self.r = rng
        self.IP, self.BP, self.RP = tab["IP"], tab["BP"], tab["RP"]

    # ---- values
    def entry(self):
        r = self.r
        k = r.randrange(10)
        if k < 4:
            return 0.0
        if k < 8:
            return float(r.choice([-4, -3, -2, -1, 1, 2, 3, 4]))
        return r.choice([0.5, -0.5, 0.25, 1.5, -2.5, 8.0])

    def coef(self):
        return float(self.r.choice([-3, -2, -1, 0, 0, 1, 1, 2, 3, 5])) if self.r.randrange(6) else self.r.choice([0.5, -1.5, 2.25])

    def lower(self):
        return self.r.choice([-INF, -INF, 0.0, 0.0, 0.0, -1.0, -3.0, 1.0, 0.5])

    def upper(self, lo=None):
        r = self.r
        if r.randrange(3) == 0:
            return INF
        base = 0.0 if lo is None or lo <= -INF else lo
        return base + r.choice([0.0, 1.0, 2.0, 4.0, 10.0, 2.5])

    def pool(self, f, k=12):
        return " ".join(dy(f()) for _ in range(k))

    def num(self):
        return self.r.choice([-9, -7, -5, -3, -2, -1, -1, 0, 0, 1, 2, 3, 4, 6, 12])

    def den(self):
        return self.r.choice([1, 1, 1, 1, 2, 3, 5, 7, 10, -2, -3])

    def ratpair(self, allow_zero=True):
        n = self.num()
        if not allow_zero and n == 0:
            n = -1
        return n, self.den()

    def ratlo(self):
        return self.r.choice([(-1000000, 1), (0, 1), (0, 1), (-1, 2), (-5, 3), (1, 5), (-3, -2)])

    def rathi(self):
        return self.r.choice([(1000000, 1), (1000000, 1), (4, 1), (7, 2), (10, 3), (1, 5), (9, -4)])

    def lpool(self, f, k=12):
        return " ".join(str(f()) for _ in range(k))

    def size(self, sym):
        return self.r.choice(["@%s" % sym] * 5 + ["@%s+1" % sym, "@%s+2" % sym, "@%s-1" % sym, "1", "2", "3", "0"])

    def nnz(self):
        return self.r.choice([0, 0, 1, 2, 5, 100, -1])

    # ---- single operations
    def add_col_real(self):
        lo = self.lower()
        return "addColReal %s %d %s %s %s | %s" % (self.size("m"), self.nnz(), dy(self.coef()), dy(lo), dy(self.upper(lo)), self.pool(self.entry))

    def add_row_real(self):
        lo = self.lower()
        return "addRowReal %s %d %s %s | %s" % (self.size("n"), self.nnz(), dy(lo), dy(self.upper(lo)), self.pool(self.entry))

    def add_col_rat(self):
        o, l, u = self.ratpair(), self.ratlo(), self.rathi()
        return "addColRational %s %d %d %d %d %d %d %d | %s | %s" % (self.size("rm"), self.nnz(), o[0], o[1], l[0], l[1], u[0], u[1],
                                                                   self.lpool(self.num), self.lpool(self.den))

    def add_row_rat(self):
        l, u = self.ratlo(), self.rathi()
        return "addRowRational %s %d %d %d %d %d | %s | %s" % (self.size("rn"), self.nnz(), l[0], l[1], u[0], u[1],
                                                              self.lpool(self.num), self.lpool(self.den))

    def modifier(self):
        r = self.r
        k = r.randrange(20)
        if k == 0:
            return "changeObjReal @n | " + self.pool(self.coef)
        if k == 1:
            return "changeLhsReal @m | " + self.pool(self.lower)
        if k == 2:
            return "changeRhsReal @m | " + self.pool(self.upper)
        if k == 3:
            return "changeLowerReal @n | " + self.pool(self.lower)
        if k == 4:
            return "changeUpperReal @n | " + self.pool(self.upper)
        if k == 5:
            return "changeRangeReal @m | %s | %s" % (self.pool(self.lower), self.pool(self.upper))
        if k == 6:
            return "changeBoundsReal @n | %s | %s" % (self.pool(self.lower), self.pool(self.upper))
        if k == 7:
            return "changeRowLhsReal %d %s" % (r.randrange(50), dy(self.lower()))
        if k == 8:
            return "changeRowRhsReal %d %s" % (r.randrange(50), dy(self.upper()))
        if k == 9:
            lo = self.lower()
            return "changeRowRangeReal %d %s %s" % (r.randrange(50), dy(lo), dy(self.upper(lo)))
        if k == 10:
            lo = self.lower()
            return "changeVarBoundsReal %d %s %s" % (r.randrange(50), dy(lo), dy(self.upper(lo)))
        if k == 11:
            return "changeVarLowerReal %d %s" % (r.randrange(50), dy(self.lower()))
        if k == 12:
            return "changeVarUpperReal %d %s" % (r.randrange(50), dy(self.upper()))
        if k == 13:
            return "changeObjRational @rn | %s | %s" % (self.lpool(self.num), self.lpool(self.den))
        if k == 14:
            return "changeLhsRational @rm | %s | %s" % (self.lpool(lambda: self.ratlo()[0]), self.lpool(lambda: r.choice([1, 1, 2, 3])))
        if k == 15:
            return "changeRhsRational @rm | %s | %s" % (self.lpool(lambda: self.rathi()[0]), self.lpool(lambda: r.choice([1, 1, 2, 3])))
        if k == 16:
            l, u = self.ratlo(), self.rathi()
            return "changeVarBoundsRational %d %d %d %d %d" % (r.randrange(50), l[0], l[1], u[0], u[1])
        if k == 17:
            return "removeColReal %d" % r.randrange(50)
        if k == 18:
            return "removeRowReal %d" % r.randrange(50)
        return r.choice(["clearLPReal", self.add_col_real(), self.add_row_real()])

    def param(self, solved=True):
        r = self.r
        k = r.randrange(10)
        if k < 5:
            # SCALER is changed only before the first solve: switching the scaler off while the LP is stored scaled makes
            # SoPlexBase::getRowVectorReal dereference the null _scaler (C++ side, reported; not a C-interface matter)
            # the rational modes are switched on only before the first solve as well: a rational solve on an LP that a real solve
            # left stored scaled is C07/C03 matter (DESIGN 9 #8: the scaled LP is copied into the rational LP; objReal faults afterwards)
            late = {"SCALER", "SYNCMODE", "SOLVEMODE", "CHECKMODE", "READMODE"}
            name = r.choice(sorted(n for n in INT_VALUES if not (solved and n in late)))
            return "setIntParam %d %d" % (self.IP[name], r.choice(INT_VALUES[name]))
        if k < 7:
            names = sorted(n for n in self.BP if n not in BOOL_EXCLUDE)
            return "setBoolParam %d %d" % (self.BP[r.choice(names)], r.choice([0, 1, 1, 2, -1, 7]))
        if k < 9:
            name = r.choice(sorted(REAL_VALUES))
            vals = REAL_VALUES[name]
            if solved and name in ("FEASTOL", "OPTTOL"):
                vals = [v for v in vals if v != 0.0]      # zero tolerances switch SOLVEMODE_AUTO to a rational solve (see above)
            return "setRealParam %d %s" % (self.RP[name], dy(r.choice(vals)))
        return "getIntParam %d" % r.randrange(self.IP["INTPARAM_COUNT"])

    def query(self):
        r = self.r
        k = r.randrange(22)
        big = r.choice(["", "", "", "+1", "+3", "-1"])
        if k == 0:
            return "getPrimalReal @n" + big
        if k == 1:
            return "getDualReal @m" + big
        if k == 2:
            return "getRedCostReal @n" + big
        if k == 3:
            return "getLowerReal @n"
        if k == 4:
            return "getUpperReal @n"
        if k == 5:
            return "getObjReal @n"
        if k == 6:
            return "getPrimalRationalString @pn"
        if k == 7:
            return "objValueRationalString"
        if k == 8:
            return "objValueReal"
        if k == 9:
            return "getStatus"
        if k == 10:
            return "getNumIterations"
        if k == 11:
            return "getSolvingTime"
        if k == 12:
            return "basisRowStatus %d" % r.randrange(50)
        if k == 13:
            return "basisColStatus %d" % r.randrange(50)
        if k == 14:
            return "getRowVectorReal %d" % r.randrange(50)
        if k == 15:
            return "getRowBoundsReal %d" % r.randrange(50)
        if k == 16:
            return "getRowBoundsRational %d" % r.randrange(50)
        if k == 17:
            return r.choice(["numRows", "numCols"])
        if k == 18:
            return "writeFileReal " + r.choice(["lp", "mps"])
        if k == 19:
            return "readBasisFile"
        if k == 20:
            return "getIntParam %d" % r.randrange(self.IP["INTPARAM_COUNT"])
        return "getRowVectorReal %d" % r.randrange(50)

    def lpfile(self):
        r = self.r
        nv = r.randrange(1, 4)
        vs = ["x%d" % i for i in range(nv)]

        def lin():
            t = []
            for v in vs:
                c = r.choice([-2, -1, 0, 1, 1, 2, 3])
                if c:
                    t.append("%+d %s" % (c, v))
            return " ".join(t) or "+1 " + vs[0]
        s = r.choice(["Minimize", "Maximize"]) + "\n obj: " + lin() + "\nSubject To\n"
        for i in range(r.randrange(1, 4)):
            s += " c%d: %s %s %d\n" % (i, lin(), r.choice([">=", "<=", "="]), r.choice([-2, 0, 1, 3, 5]))
        s += "Bounds\n"
        for v in vs:
            k = r.randrange(4)
            if k == 0:
                s += " %s free\n" % v
            elif k == 1:
                s += " 0 <= %s <= %d\n" % (v, r.choice([1, 4, 10]))
            elif k == 2:
                s += " %s >= %d\n" % (v, r.choice([-3, -1, 1]))
        return s + "End\n"

    def settings(self):
        r = self.r
        lines = []
        for _ in range(r.randrange(1, 4)):
            lines.append(r.choice(["int:iterlimit = %d" % r.choice([-1, 3, 50]), "bool:lifting = %s" % r.choice(["true", "false"]),
                                   "real:feastol = 1e-7", "int:pricer = %d" % r.randrange(6), "int:objsense = %d" % r.choice([-1, 1]),
                                   "int:nosuchparam = 3", "real:opttol = -1", "# comment", "int:iterlimit = 1000",
                                   "int:algorithm = %d" % r.randrange(2)]))
        return "\n".join(lines) + "\n"

    def case(self, maxops):
        r = self.r
        ops = []
        style = r.randrange(10)
        if style < 3:
            ops.append("setRational")
        elif style == 3:
            # (SYNCMODE_MANUAL is used in a fixed case only: the C interface has no sync call, and switching from manual to
            #  auto with the two LPs out of step makes the C++ modifiers index the rational LP out of range)
            ops.append("setIntParam %d 1" % self.IP["SYNCMODE"])
        if r.randrange(3):
            ops.append("setIntParam %d %d" % (self.IP["OBJSENSE"], r.choice([-1, 1])))
        if r.randrange(8) == 0:
            ops.append("readInstanceFile lp " + hexs(self.lpfile()))
        rational = style <= 3
        nbuild = r.randrange(2, 9)
        for _ in range(nbuild):
            k = r.randrange(10)
            if rational and k < 4:
                ops.append(r.choice([self.add_col_rat, self.add_row_rat])())
            elif k < 8:
                ops.append(r.choice([self.add_col_real, self.add_row_real])())
            else:
                ops.append(self.modifier())
        for _ in range(r.randrange(0, 3)):
            ops.append(self.param(False))
        n = r.randrange(3, maxops)
        solved = False
        for _ in range(n):
            k = r.randrange(100)
            if k < 12:
                ops.append("optimize")
                solved = True
            elif k < 50:
                ops.append(self.query())
            elif k < 72:
                ops.append(self.modifier())
            elif k < 84:
                ops.append(self.param(solved))
            elif k < 86:
                ops.append("readSettingsFile " + hexs(self.settings()))
            elif k < 88:
                ops.append("readInstanceFile lp " + hexs(self.lpfile()))
            elif k < 90 and not solved:
                ops.append("setRational")
                rational = True
            elif k < 94 and rational:
                ops.append(r.choice([self.add_col_rat, self.add_row_rat])())
            else:
                ops.append(self.query() if solved else "optimize")
                solved = True
        if rational and r.randrange(3) == 0:
            ops.append("getRowVectorRational %d" % r.randrange(50))      # last: any non-empty row faults
        return {"ops": ops, "risky": False}


def fixed_cases(tab):
    """hand-made sequences: the C test program, the recorded findings (each isolated), boundary arguments"""
    IP = tab["IP"]
    i1 = dy(1e100)
    cs = []
    # tests/c_interface/main.c, test_real (columns) and test_rational (rows)
    cs.append({"ops": ["setIntParam 0 -1", "addColReal 1 1 1:0 0:0 %s | -1:0" % i1, "addColReal 1 1 1:0 %s %s | 1:0" % (dy(-1e100), i1),
                       "numRows", "numCols", "changeLhsReal 1 | -5:1", "optimize", "getPrimalReal 2", "objValueReal", "getStatus",
                       "getDualReal 1", "getRedCostReal 2", "getLowerReal @n", "getUpperReal @n", "getObjReal @n", "basisColStatus 0",
                       "basisColStatus 1", "basisRowStatus 0", "getRowVectorReal 0", "getRowBoundsReal 0", "writeFileReal lp",
                       "writeFileReal mps", "readBasisFile"], "risky": False})
    cs.append({"ops": ["setRational", "setIntParam 0 -1", "addRowRational 2 2 1 5 1000000 1 | -1 1 | 1 1", "changeObjRational 2 | 1 1 | 1 1",
                       "optimize", "getPrimalRationalString 2", "objValueRationalString", "getRowBoundsRational 0", "getStatus",
                       "getPrimalReal 2", "objValueReal"], "risky": False})
    cs.append({"ops": ["setRational", "setIntParam 0 -1", "addColRational 1 1 1 5 0 1 1000000 1 | -1 | 1",
                       "addColRational 1 1 1 5 -1000000 1 1000000 1 | 1 | 1", "changeLhsRational 1 | -1 | 5", "optimize",
                       "getPrimalRationalString 2", "objValueRationalString"], "risky": False})
    # finding: objective value with a long decimal expansion (37035/14-like) through the string getter
    cs.append({"ops": ["setRational", "setIntParam 0 1", "addRowRational 2 2 -1000000 1 37035 14 | 1 1 | 1 1", "changeObjRational 2 | 1 1 | 1 1",
                       "changeVarBoundsRational 0 0 1 1000000 1", "changeVarBoundsRational 1 0 1 1000000 1", "optimize",
                       "objValueRationalString", "getPrimalRationalString @pn"], "risky": False})
    # finding: SoPlex_getRowVectorRational on a non-empty row (isolated: it faults)
    cs.append({"ops": ["setRational", "addRowRational 2 2 1 5 1000000 1 | -1 1 | 1 1", "getRowBoundsRational 0", "getRowVectorRational 0"],
               "risky": True})
    cs.append({"ops": ["setRational", "addColRational 2 0 1 1 0 1 5 1 | 0 0 | 1 1", "getRowVectorRational 0"], "risky": False})   # empty row: fine
    # finding: vector getters with dim larger than needed on an LP that is not stored scaled
    for g in ("getLowerReal", "getUpperReal", "getObjReal"):
        cs.append({"ops": ["addRowReal 2 2 1:0 %s | 1:0 1:1" % i1, "changeBoundsReal @n | 1:0 1:1 | 5:0 3:1", "changeObjReal @n | 3:0 7:0",
                           "%s @n" % g, "%s @n+2" % g], "risky": True})
    # ... the same call after a solve with persistent scaling stays inside the temporary
    cs.append({"ops": ["addRowReal 2 2 1:0 %s | 1:0 1:1" % i1, "changeBoundsReal @n | 0:0 0:0 | 5:0 3:1", "changeObjReal @n | 3:0 7:0",
                       "optimize", "getLowerReal @n", "getLowerReal @n+2", "getObjReal @n+1"], "risky": True})
    # finding: rational primal string with dim larger than needed after a rational solve
    cs.append({"ops": ["setRational", "setIntParam 0 -1", "addRowRational 2 2 1 5 1000000 1 | -1 1 | 1 1", "changeObjRational 2 | 1 1 | 1 1",
                       "optimize", "getPrimalRationalString @pn", "getPrimalRationalString @pn+2"], "risky": True})
    # boundary arguments: zero sizes, zero nonzeros, all-zero arrays, negative numerators / denominators, size beyond the LP
    cs.append({"ops": ["addColReal 0 0 1:0 0:0 1:0 | 1:0", "addRowReal 0 5 0:0 1:0 | 1:0", "addColReal 3 0 1:0 0:0 1:0 | 0:0", "numRows",
                       "addColReal 4 -1 -1:0 %s 1:1 | 0:0 0:0 0:0 7:0" % dy(-1e100), "numRows", "addRowReal @n+3 1 0:0 0:0 | 0:0 1:0",
                       "numCols", "getPrimalReal 0", "getLowerReal @n", "changeObjReal @n | 1:0 -1:0", "optimize", "getPrimalReal @n+5",
                       "getDualReal @m-1", "getRedCostReal 0", "getRowVectorReal 0", "getRowVectorReal 5"], "risky": False})
    cs.append({"ops": ["setRational", "addColRational 3 0 -1 -2 1 -3 4 2 | -3 0 5 | -6 0 1", "addRowRational @rn+2 0 -7 1 7 -1 | 0 -2 0 | 0 3 0",
                       "changeObjRational @rn | -1 0 3 | 1 5 -2", "changeVarBoundsRational 1 -4 -2 -9 -3", "getRowBoundsRational 3",
                       "getRowBoundsRational 0", "optimize", "objValueRationalString", "getPrimalRationalString @pn"], "risky": False})
    # SYNCMODE_MANUAL: the two LPs are independent; rational calls address the rational LP only
    cs.append({"ops": ["setIntParam %d 2" % IP["SYNCMODE"], "addColReal 2 2 1:0 0:0 1:2 | 1:0 1:1", "addColRational 1 1 -1 3 0 1 5 2 | -2 | 3",
                       "addRowRational @rn 1 -1 2 7 2 | 3 | -4", "numRows", "numCols", "changeObjRational @rn | 5 | -7", "changeVarBoundsRational 0 -1 2 9 4",
                       "getRowBoundsRational 1", "getRowBoundsReal 1", "changeLhsRational @rm | -3 1 | 4 1", "changeRhsRational @rm | 3 11 | 4 2",
                       "getRowBoundsRational 0", "getRowBoundsRational 1"], "risky": False})
    # rational calls without a rational LP (SYNCMODE_ONLYREAL): ignored by the C++ members
    cs.append({"ops": ["addColRational 2 2 1 1 0 1 5 1 | 1 2 | 1 1", "addRowRational 2 2 0 1 5 1 | 1 2 | 1 1", "changeObjRational 0 | 1 | 1",
                       "changeVarBoundsRational 0 0 1 1 1", "numCols", "getPrimalRationalString 3", "getRowBoundsRational 0"], "risky": False})
    return cs


# --------------------------------------------------------------------------------------------------------------
# running and judging
# --------------------------------------------------------------------------------------------------------------
def write_cases(path, cases, ids):
    with open(path, "w") as f:
        for k, c in zip(ids, cases):
            f.write("CASE %d\n" % k)
            for op in c["ops"]:
                f.write(op + "\n")


def parse_transcript(out):
    blocks, cur = {}, None
    for l in out.splitlines():
        if l.startswith("CASE "):
            cur = []
            blocks[int(l.split()[1])] = cur
        elif l.startswith("DIFF ") and cur:
            cur[-1].setdefault("diff", []).append(l[5:])
        elif cur is not None and l and l[0].isdigit():
            t = l.split(" ")
            d = {"j": int(t[0]), "op": t[1], "raw": l}
            for kv in t[2:]:
                if "=" in kv:
                    a, b = kv.split("=", 1)
                    d[a] = b
            cur.append(d)
    return blocks


class Runner:
    def __init__(self, ck, exe, model, env=None, tag="h"):
        self.ck, self.exe, self.model, self.env, self.tag = ck, exe, model, env, tag
        self.dir = os.path.join(vlib.BUILD, "run", "C20.%d.%s" % (os.getpid(), tag))
        os.makedirs(self.dir, exist_ok=True)
        self.nruns = 0

    def cleanup(self):
        if not os.environ.get("VERIF_KEEP"):
            shutil.rmtree(self.dir, ignore_errors=True)

    def harness(self, cases, ids, timeout=1200):
        self.nruns += 1
        p = os.path.join(self.dir, "cases.%d" % self.nruns)
        write_cases(p, cases, ids)
        env = dict(os.environ)
        if self.env:
            env.update(self.env)
        rc, out, err = vlib.sh([self.exe, "run", p, self.dir], timeout=timeout, env=env)
        return rc, parse_transcript(out), err

    def run_all(self, cases):
        """harness over all cases; risky cases (and whatever follows a dead process) in processes of their own"""
        res, errs = {}, {}
        safe = [k for k, c in enumerate(cases) if not c["risky"]]
        chunk = 100 if self.env else 1000
        queue = [safe[i:i + chunk] for i in range(0, len(safe), chunk)]
        while queue:
            todo = queue.pop(0)
            if not todo:
                continue
            rc, blocks, err = self.harness([cases[k] for k in todo], todo)
            done = [k for k in todo if k in blocks]
            # sanitizer build: after the first report the process has touched memory it does not own; what follows in that
            # process is not evidence: the cases after the reporting one get a fresh process
            first = next((k for k in done if any("asan" in d for d in blocks[k])), None) if self.env else None
            if first is not None:
                for k in done[:done.index(first) + 1]:
                    res[k], errs[k] = blocks[k], err
                queue.insert(0, todo[todo.index(first) + 1:])
                continue
            for k in done:
                res[k], errs[k] = blocks[k], (err if self.env else "")
            if rc == 0:
                continue
            if not done:            # died before the first case started
                res[todo[0]] = [{"j": 0, "op": "?", "process": "rc=%d" % rc, "stderr": err[-1500:]}]
                queue.insert(0, todo[1:])
                continue
            last = done[-1]         # the process died in this case
            n = len(res[last])
            res[last].append({"j": n, "op": cases[last]["ops"][n].split()[0] if n < len(cases[last]["ops"]) else "?",
                              "process": "rc=%d" % rc, "stderr": err[-1500:]})
            queue.insert(0, todo[todo.index(last) + 1:])
        for k, c in enumerate(cases):
            if c["risky"]:
                rc, blocks, err = self.harness([c], [k], timeout=120)
                res[k] = blocks.get(k, [])
                errs[k] = err
                if rc != 0:
                    j = len(res[k])
                    res[k].append({"j": j, "op": c["ops"][j].split()[0] if j < len(c["ops"]) else "?", "process": "rc=%d" % rc,
                                   "stderr": err[-1500:]})
        return res, errs

    def model_run(self, cases, res):
        p = os.path.join(self.dir, "model.cases")
        with open(p, "w") as f:
            for k in range(len(cases)):
                f.write("CASE %d\n" % k)
                for d in res.get(k, []):
                    if "args" not in d:
                        continue
                    strlen = 0
                    x = d.get("x", "")
                    if "text=" in x:
                        strlen = len(x.split("text=")[1].split(",")[0]) // 2
                    f.write("%s pre=%s rowlen=%s strlen=%d args=%s\n" % (d["op"], d["pre"], d.get("rowlen", "0"), strlen, d["args"]))
        rc, out, err = vlib.sh([self.model, p], timeout=600)
        blocks, cur = {}, None
        for l in out.splitlines():
            if l.startswith("CASE "):
                cur = []
                blocks[int(l.split()[1])] = cur
            elif cur is not None:
                t = l.split(" ")
                d = {"op": t[0]}
                for kv in t[1:]:
                    if "=" in kv:
                        a, b = kv.split("=", 1)
                        d[a] = b
                cur.append(d)
        return rc, blocks, err


WR_OPS = {"getPrimalReal", "getDualReal", "getRedCostReal", "getLowerReal", "getUpperReal", "getObjReal", "getRowVectorReal"}
VEC_GETTERS = {"getLowerReal", "getUpperReal", "getObjReal", "getPrimalRationalString"}
FORWARDERS = {"optimize", "readInstanceFile", "readBasisFile", "readSettingsFile", "writeFileReal"}


def big(s):
    try:
        return abs(int(s.split("/")[0])) > LONG_MAX or ("/" in s and abs(int(s.split("/")[1])) > LONG_MAX)
    except ValueError:
        return False


def pre_of(d):
    p = d.get("pre", "").split(",")
    return p + ["?"] * (8 - len(p))


def judge(case, hl, ml, stderr=""):
    """findings of one case: list of (signature, text, op index)"""
    out = []
    mi = 0
    state_diverged = False
    for d in hl:
        j, op = d["j"], d["op"]
        if "process" in d:
            out.append(("crash:" + op, "the process died (%s) in %s: %s" % (d["process"], op, d.get("stderr", "")[-300:]), j))
            break
        m = None
        if "args" in d and ml is not None and mi < len(ml):
            m = ml[mi]
            mi += 1
        if d.get("wr") is None:
            continue
        skipped = any(k == "skip" for k in d)
        if skipped:
            if d.get("skip") == "out-of-step":
                out.append(("@lps-out-of-step-before:" + op, "real and rational LP have different dimensions in SYNCMODE_AUTO (pre=%s)" % d.get("pre"), j))
                break
            continue
        c, x = d.get("c", "-"), d.get("x", "-")
        exc = d.get("exc")
        if exc and exc.startswith("XSIGNAL"):
            # the C++ member faulted on the mirror object before the C function was called: not attributable to the wrapper
            out.append(("@cpp-member-faults:" + op, "C++ member behind SoPlex_%s faults on its own (%s), pre=%s" % (op, exc, d.get("pre")), j))
            break
        if exc:
            if op == "getRowVectorRational" and exc.startswith("SIGNAL") and d.get("rowlen", "0") != "0":
                out.append(("rowvector-rational-null-write", "SoPlex_getRowVectorRational faults (%s) on a row with %s non-zeros "
                            "(C++ getRowRational delivers %s)" % (exc, d.get("rowlen"), x), j))
            elif op in VEC_GETTERS and "beyond-vector" in x:
                out.append(("getter-reads-beyond-vector:" + op, "SoPlex_%s(dim=%s) faults (%s): the C++ vector has %s elements" % (
                    op, d.get("args"), exc, x.split("beyond-vector:")[1]), j))
            elif exc.startswith("SIGNAL") and op in ("getPrimalReal", "getDualReal", "getRedCostReal") and x not in ("-", ".") and \
                    len(x.split(",")) > int(d.get("args", "0")):
                out.append(("cpp-array-getter-stores-beyond-dim:" + op, "the C++ member %s(array, dim=%s) stores %d elements (LP %s x %s, status %s): "
                            "the C call faults on the caller's array of dim elements" % (op, d.get("args"), len(x.split(",")), pre_of(d)[0], pre_of(d)[1],
                                                                                     pre_of(d)[7]), j))
            elif exc.startswith("SIGNAL:14"):
                out.append(("hang:" + op, "SoPlex_%s (or its mirror call) did not return within the watchdog time" % op, j))
            elif exc.startswith("SIGNAL"):
                out.append(("crash:" + op, "SoPlex_%s faults: %s" % (op, exc), j))
            else:
                out.append(("exception:" + op, "SoPlex_%s lets an exception escape: %s" % (op, exc), j))
            break
        if "asan" in d:
            what = d["asan"].split(":", 1)[1]
            if what.startswith("X") or op in FORWARDERS:
                # reported while the C++ member ran on the mirror object, or inside a member that receives no array from the
                # caller: a memory error of the library itself
                out.append(("@asan-inside-cpp-member:" + op, "ASan: %s during %s (pre=%s)" % (what, op, d.get("pre")), j))
            elif op in ("getPrimalReal", "getDualReal", "getRedCostReal") and x not in ("-", ".") and len(x.split(",")) > int(d.get("args", "0")):
                out.append(("cpp-array-getter-stores-beyond-dim:" + op, "ASan: %s: the C++ member %s(array, dim=%s) stores %d elements (LP %s x %s, status %s)" % (
                    what, op, d.get("args"), len(x.split(",")), pre_of(d)[0], pre_of(d)[1], pre_of(d)[7]), j))
                x = None
            elif op in VEC_GETTERS and "beyond-vector" in x:
                out.append(("getter-reads-beyond-vector:" + op, "ASan: %s in SoPlex_%s(dim=%s); the C++ vector has %s elements" % (
                    what, op, d.get("args"), x.split("beyond-vector:")[1]), j))
            else:
                out.append(("asan:%s:%s" % (op, what.split("/")[0]), "ASan report during SoPlex_%s: %s" % (op, what), j))
        elif op in VEC_GETTERS and "beyond-vector" in x:
            nvec = int(x.split("beyond-vector:")[1])
            xv = x.split(",beyond-vector")[0]
            if op == "getPrimalRationalString":
                beyond = c != xv
            else:
                vals = c.split(",") if c not in (".", "-") else []
                # on an LP stored scaled the temporary keeps the caller's dimension: the extra elements are its own zeros
                beyond = any(v != "_" for v in vals[nvec:]) and pre_of(d)[4] == "0"
                if ",".join(vals[:nvec]) != (xv if xv != "." else ""):
                    out.append(("ret-mismatch:" + op, "SoPlex_%s returned %s, the C++ getter %s" % (op, c[:300], xv[:300]), j))
            if beyond:
                out.append(("getter-reads-beyond-vector:" + op, "SoPlex_%s(dim=%s) hands out elements beyond the %d the C++ getter delivered "
                            "(read past the end of the re-dimensioned temporary): C=%s C++=%s" % (op, d.get("args"), nvec, c[:200], x[:200]), j))
            x = None
        if x is not None and op in ("getPrimalReal", "getDualReal", "getRedCostReal") and x not in ("-", ".") and \
                d.get("args", "").isdigit() and len(x.split(",")) > int(d["args"]):
            # (sanitizer build: only the first overflow at a code location is reported; the later ones show up here)
            out.append(("cpp-array-getter-stores-beyond-dim:" + op, "the C++ member %s(array, dim=%s) stores %d elements (LP %s x %s, status %s)" % (
                op, d["args"], len(x.split(",")), pre_of(d)[0], pre_of(d)[1], pre_of(d)[7]), j))
            x = None
        if "canary" in d:
            out.append(("canary:" + op, "SoPlex_%s wrote in front of an array argument" % op, j))
        # (a) returned values
        if x is not None and c != x and op == "optimize" and (c.startswith(("EXC", "SPXEXC", "-15")) or x.startswith(("EXC", "SPXEXC", "-15"))):
            # SoPlex_optimize only forwards: a solve that ends in the library's error path on one object and not (or differently) on
            # the other is nondeterminism of the library (seen together with ASan reports inside the rational solve)
            out.append(("@cpp-solve-error-path-differs:optimize", "optimize: C object %s, mirror %s (pre=%s)" % (c, x, d.get("pre")), j))
            break
        if x is not None and c != x:
            if op == "objValueRationalString" and c.startswith("buflen=1,term=0"):
                out.append(("objvalue-string-unterminated", "SoPlex_objValueRationalString returns a 1-byte buffer without terminator: %s; "
                            "C++ objValueRational().str() needs %s" % (c, x), j))
            elif op == "getRowBoundsRational" and any(big(p) for p in x.split(",")) and all(
                    (a == b) or big(b) for a, b in zip(c.split(","), x.split(","))):
                out.append(("rat-getter-saturates:" + op, "SoPlex_getRowBoundsRational cannot return a value beyond long: C=%s C++=%s" % (c, x[:80]), j))
            else:
                out.append(("ret-mismatch:" + op, "SoPlex_%s returned %s, the C++ call %s (args %s)" % (op, c[:300], x[:300], d.get("args", "")[:200]), j))
        # (b) state of the two objects
        if d.get("eq", "").startswith("DUMPX"):
            out.append(("@cpp-getter-faults-after:" + op, "a C++ getter faults on the mirror object after %s (%s), pre=%s" % (op, d["eq"], d.get("pre")), j))
            break
        if d.get("eq", "").startswith("DUMP"):
            out.append(("cpp-getter-fault-after:" + op, "after SoPlex_%s(%s) a C++ getter used for the comparison faults (%s); pre=%s" % (
                op, d.get("args", "")[:100], d["eq"], d.get("pre")), j))
            break
        if d.get("eq") == "0" and not state_diverged:
            state_diverged = True          # later differences in this case are consequences
            diff = d.get("diff", ["", ""])
            fields = ""
            if len(diff) == 2:
                a, b = diff[0].split(" "), diff[1].split(" ")
                fields = ",".join(t.split("=")[0].split(":")[0] for t, u in zip(a[1:], b[1:]) if t != u)[:60]
            out.append(("state-mismatch:" + op, "after SoPlex_%s(%s) the C object differs from the mirror (%s)" % (op, d.get("args", "")[:200], fields), j))
        # (c) conversions predicted by the extracted model, (d) write footprint
        if m is not None and m.get("op") == op:
            if m.get("same") == "0":
                out.append(("model-inconsistent:" + op, "wrapper_calls and intended_calls differ on %s" % d.get("args"), j))
            pre = d["pre"].split(",")
            obs, pred = d.get("obs", "-"), m.get("pred", "-")
            if obs not in ("-", "inactive") and pred not in ("-",) and pre[4] == "0" and not pred.startswith(("codes", "bool")):
                if obs != pred:
                    out.append(("pred-mismatch:" + op, "SoPlex_%s(%s): the object holds %s, the model's conversion gives %s" % (
                        op, d.get("args", "")[:200], obs[:300], pred[:300]), j))
            in_sync = pre[3] == "0" or (pre[5] == pre[1] and pre[6] == pre[0])     # SYNCMODE_MANUAL: solution may live in the rational LP's dimensions
            if op in WR_OPS and x is not None and in_sync and d.get("wr", "-") != m.get("wr", "-"):
                lpdim = int(pre[0]) if op == "getDualReal" else int(pre[1])
                if op in ("getPrimalReal", "getDualReal", "getRedCostReal") and c == x and c not in (".", "-") and len(c.split(",")) > lpdim:
                    out.append(("cpp-array-getter-stores-beyond-dim:" + op, "the C++ member %s(array, dim=%s) stores %d elements for an LP dimension of %d "
                                "(status %s); the C function forwards the array" % (op, d.get("args"), len(c.split(",")), lpdim, pre[7]), j))
                else:
                    out.append(("wr-mismatch:" + op, "SoPlex_%s(%s) wrote %s, the model's footprint is %s (pre=%s)" % (
                        op, d.get("args"), d.get("wr"), m.get("wr"), d["pre"]), j))
            if m.get("valid") == "0":
                out.append(("generator-invalid:" + op, "generated arguments are invalid for the model: %s" % d.get("args"), j))
    for l in stderr.splitlines():
        if "runtime error" in l and "soplex_interface.cpp" in l:
            out.append(("ubsan:" + l.split("runtime error:")[1].strip()[:40], "UBSan in the wrapper layer: " + l.strip()[:300], -1))
    return out


def main():
    ck = vlib.Check("C20", "proof")
    try:
        exe = vlib.build_harness("C20")
    except vlib.BuildError as e:
        ck.violation("harness-build", "harness does not compile against the current tree: %s" % str(e)[-1500:], {"kind": "build"}, no_input=True)
        ck.finish()
    rc, table, err = vlib.sh([exe, "table"], timeout=300)
    if rc != 0:
        ck.violation("table-dump", "table dump failed rc=%d %s" % (rc, err[-500:]), {"kind": "harness"}, no_input=True)
        ck.finish()
    info = gen_ciface.generate(table, os.path.join(vlib.COQ, "gen", "Gen_CIface.v"))
    tab = info["table"]
    ck.cov["tables"] = {"declared_functions": len(info["declared"]), "defined_functions": len(info["defined"]), "code_rows": len(info["rows"])}
    # concrete witnesses for a broken table obligation
    for kind, name, d, c, s in info["bad_rows"]:
        ck.violation("codes-disagree:%s:%s" % (kind, name), "code of %s %s: documented %d, C++ enumerator %d, compiled C function %d" % (kind, name, d, c, s),
                     {"kind": "code-table", "row": {"kind": kind, "name": name, "documented": d, "cpp": c, "c_side": s},
                      "theorem": "C20_codes_agree"})
    # ... and for the wrapped-member obligation (the expected table is read from the model file)
    import re
    mtxt = open(os.path.join(vlib.COQ, "CIfaceModel.v")).read()
    mtxt = mtxt[mtxt.index("Definition expected_wraps"):]
    mtxt = mtxt[:mtxt.index("].") + 2]
    expected = {n: re.findall(r'"(\w+)"', ms) for n, ms in re.findall(r'\("(SoPlex_\w+)",\s*\[([^\]]*)\]\)', mtxt)}
    defined = dict(info["defined"])
    for n in sorted(set(info["declared"]) | set(expected)):
        if n not in info["declared"] or defined.get(n) != expected.get(n):
            ck.violation("wraps-disagree:" + n, "%s: declared=%s, calls %s through the handle, the model composes %s" % (
                n, n in info["declared"], defined.get(n), expected.get(n)),
                {"kind": "wrap-table", "function": n, "defined_members": defined.get(n), "model_members": expected.get(n),
                 "theorem": "C20_wrappers_call_the_modelled_members"})
    ck.prove()
    try:
        model = vlib.build_model("C20")
    except vlib.BuildError as e:
        ck.violation("model-build", "extracted model does not build: %s" % str(e)[-800:], {"kind": "extraction"}, no_input=True)
        ck.finish()

    if ck.args.replay:
        rp = json.load(open(ck.args.replay))
        cases = [rp["case"]] if "case" in rp else []
    else:
        ncases, maxops = (300, 22) if ck.tier == "quick" else (6000, 40)
        g = Gen(ck.rng, tab)
        cases = fixed_cases(tab)
        cdir = os.path.join(vlib.ROOT, "corpus", "C20")
        if os.path.isdir(cdir):
            for f in sorted(os.listdir(cdir)):
                cases.append({"ops": [l.rstrip("\n") for l in open(os.path.join(cdir, f)) if l.strip()], "risky": True})
        for _ in range(ncases):
            cases.append(g.case(maxops))

    runs = [("g++", Runner(ck, exe, model, tag="n"))]
    if ck.tier == "thorough":
        try:
            aexe = vlib.build_harness("C20", cxx="clang++", extra=ASAN_EXTRA, tag="lib-asan", timeout=3000)
            runs.append(("asan", Runner(ck, aexe, model, env=ASAN_ENV, tag="a")))
        except vlib.BuildError as e:
            ck.violation("asan-build", "sanitizer build failed: %s" % str(e)[-800:], {"kind": "build"}, no_input=True)

    shrunk = set()
    side = {}
    first_res = {}
    for tag, rn in runs:
        res, errs = rn.run_all(cases)
        if tag == "g++":
            first_res = res
        rcm, mres, merr = rn.model_run(cases, res)
        if rcm != 0:
            ck.violation("model-crash", "model runner failed rc=%d: %s" % (rcm, merr[-400:]), {"kind": "model"}, no_input=True)
        for k, c in enumerate(cases):
            hl = res.get(k, [])
            fs = judge(c, hl, mres.get(k), errs.get(k, "") if tag == "asan" else "")
            if tag == "g++":
                for d in hl:
                    if "args" in d:
                        ck.count("op:" + d["op"])
                        if "skip" not in d:
                            ck.evaluated((d["op"], d["args"]))
                    if d.get("pre"):
                        p = d["pre"].split(",")
                        ck.count("state:%s%s%s" % ("sol" if p[2] == "1" else "nosol", "+rat" if p[3] == "1" else "", "+scaled" if p[4] == "1" else ""))
                if len(hl) < len(c["ops"]) and not any(("exc" in d or "process" in d or d.get("c", "").startswith(("EXC", "SPXEXC"))
                                                        or d.get("x", "").startswith(("EXC", "SPXEXC")) or d.get("eq", "").startswith("DUMP") or d.get("eq") == "0" or d.get("skip") == "out-of-step") for d in hl):
                    ck.violation("short-output", "harness produced fewer transcript lines than calls", {"case": c})
            for sig, what, j in fs:
                if sig.startswith("@"):
                    # side observation about the C++ library itself (same fault without the C layer): recorded, not a C20 violation
                    if tag == "g++":
                        ck.count("side:" + sig[1:])
                        side.setdefault(sig[1:], {"what": what, "ops": c["ops"][:j + 1]})
                    continue
                case = {"ops": c["ops"][:j + 1] if j >= 0 else c["ops"], "risky": True}
                first = ck.violation(sig, "[%s build] %s" % (tag, what), {"case": case, "observed": [d.get("raw", str(d)) for d in hl[max(0, j - 1):j + 1]],
                                                                       "correspondence": "SoPlex_* on the C object vs intended C++ call on a mirror SoPlexBase<double>; extracted CIfaceModel conversions/footprints",
                                                                       "build": tag})
                if first and sig not in shrunk:
                    shrunk.add(sig)
                    shr = shrink(rn, mres, case, sig)
                    if shr is not None:
                        for v in ck.violations:
                            if v[0] == sig:
                                v[2]["case"] = shr
            if k < 4 and tag == "g++":
                ck.sample({"ops": c["ops"][:6]})
        rn.cleanup()

    if ck.tier == "thorough" and not ck.args.replay:
        incoq_sample(ck, first_res, cases)
    ck.cov["side_observations_cpp_library"] = side
    ck.cov["rule"] = ("a case is one C call with its resolved raw arguments, executed on the C object and mirrored on a C++ object inside a random "
                      "call sequence (all 56 C functions; dimension arguments equal to, larger and smaller than the LP where the C++ contract allows; "
                      "zero sizes and nonzero hints; rational pairs with negative numerators/denominators, denominator 1); non-trivial = executed "
                      "(not skipped for an empty LP); distinct = distinct (function, arguments)")
    ck.cov["trusted_base"] = ["Coq 8.16.1 kernel (coqc), no native_compute; vm_compute for the regenerated tables and refutation witnesses",
                              "axioms: none (Print Assumptions: closed under the global context)" if not ck.coq["axioms"] else "axioms: " + ", ".join(ck.coq["axioms"]),
                              "extraction: ExtrOcamlBasic only; OCaml 4.13.1; extract/zutil.ml + extract/C20/driver.ml (zarith for I/O only)",
                              "translator/gen_ciface.py (scrape of soplex_interface.h/.cpp, soplex.h, spxsolver.h + table dump of the compiled harness)",
                              "harness/C20.cpp (includes src/soplex_interface.cpp; g++ -fno-access-control; guard pages, canaries, sentinels; "
                              "thorough: clang++ -fsanitize=address,undefined)",
                              "the C++ object is abstract in C20_c_refines_cpp: the theorem is about the wrapper layer (conversions, call order, result "
                              "conversions, absence of wrapper state), the C++ members' own behaviour is compared at run time only"]
    ck.assumptions = ["the mirror object receives the C++ call a C++ user would write (hand-written in harness/C20.cpp); the extracted model predicts the "
                      "converted arguments independently for the LP-building calls",
                      "solves are deterministic across two objects in one process (same call history): solution vectors are compared exactly",
                      "SoPlex_getSolvingTime is compared with solveTime() of the same object",
                      "read footprints are observed only as faults (guard page directly behind every array; ASan in the thorough tier); write footprints "
                      "are observed element by element through sentinels",
                      "conversion predictions are compared while the real LP is not stored scaled (afterwards C09's unscaling is in the path); the mirror "
                      "comparison is made always",
                      "doubles in generated arguments are dyadic rationals and +-1e100; NaN and -0.0 are not generated"]
    ck.finish()


def coq_q(tok):
    m, e = tok.split(":")
    m, e = int(m), int(e)
    return "(Qmake (%d)%%Z (%d)%%positive)" % ((m << e, 1) if e >= 0 else (m, 1 << -e))


def incoq_sample(ck, res, cases, limit=25):
    """thorough: a sample of dense->sparse conversions is re-evaluated inside Coq (vm_compute) against what the C object
    holds, which takes extraction and the OCaml driver out of the trusted base for that sample"""
    ex = []
    for k in sorted(res):
        for d in res[k]:
            if d.get("op") in ("addColReal", "addRowReal") and d.get("obs", "-") not in ("-",) and d.get("pre", "").split(",")[4:5] == ["0"] \
                    and "args" in d and ";" in d["args"] and len(ex) < limit:
                head, arr = d["args"].split(";")[0].split(","), d["args"].split(";")[1]
                toks = [t for t in arr.split(",") if t]
                vec = d["obs"].split("vec=")[1]
                ent = [e.split("~") for e in vec.split(",") if e]
                ex.append("Example s%d : dense_to_sparse [%s] %s = [%s].\nProof. vm_compute. reflexivity. Qed." % (
                    len(ex), "; ".join(coq_q(t) for t in toks), head[0], "; ".join("(%s%%nat, %s)" % (i, coq_q(v)) for i, v in ent)))
    if not ex:
        return
    d = os.path.join(vlib.BUILD, "run", "C20.%d.coq" % os.getpid())
    os.makedirs(d, exist_ok=True)
    with open(os.path.join(d, "Sample_C20.v"), "w") as f:
        f.write("From Coq Require Import ZArith QArith List.\nFrom SV Require Import CIfaceModel.\nImport ListNotations.\n\n" + "\n".join(ex) + "\n")
    rc, out, err = vlib.sh(["coqc", "-Q", vlib.COQ, "SV", "-Q", os.path.join(vlib.COQ, "gen"), "SVG", "-w", "-all", "Sample_C20.v"], cwd=d, timeout=600)
    ck.cov["in_coq_reevaluated_samples"] = len(ex) if rc == 0 else 0
    if rc != 0:
        ck.violation("incoq-sample", "a dense->sparse conversion observed on the C object is not what the Coq function computes: %s" % (out + err)[-600:],
                     {"kind": "in-Coq sample", "file": open(os.path.join(d, "Sample_C20.v")).read()[:4000]})
    shutil.rmtree(d, ignore_errors=True)


def shrink(rn, mres, case, sig, budget=40):
    """greedy removal of calls before the failing one, keeping the signature"""
    ops = list(case["ops"])
    if len(ops) <= 2:
        return None
    changed = False
    i = len(ops) - 2
    while i >= 0 and budget > 0:
        trial = ops[:i] + ops[i + 1:]
        budget -= 1
        rc, blocks, err = rn.harness([{"ops": trial, "risky": True}], [0], timeout=60)
        hl = blocks.get(0, [])
        if rc != 0:
            hl.append({"j": len(hl), "op": trial[len(hl)].split()[0] if len(hl) < len(trial) else "?", "process": "rc=%d" % rc, "stderr": err[-300:]})
        rcm, mr, _ = rn.model_run([{"ops": trial}], {0: hl})
        fs = judge({"ops": trial}, hl, mr.get(0), err if rn.env else "")
        if any(s == sig for s, _, _ in fs):
            ops = trial
            changed = True
        i -= 1
    return {"ops": ops, "risky": True} if changed else None


if __name__ == "__main__":
    main()
