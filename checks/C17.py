#!/usr/bin/env python3
"""C17 - solves are deterministic; copies are equal and independent.
Coq: ownership obligation over the regenerated copy table (Properties_C17).  Dynamic: the implementation against itself."""
import os
import sys

sys.path.insert(0, os.path.dirname(os.path.abspath(__file__)))
sys.path.insert(0, os.path.dirname(os.path.dirname(os.path.abspath(__file__))))
import vlib
import lpgen
from translator import gen_copy, gen_members

HARNESSES = [dict(name="C17", deps=[os.path.join(vlib.ROOT, "harness", "gen", "C17_members.inc")])]
MODEL = True


MEMBERS_INC = os.path.join(vlib.ROOT, "harness", "gen", "C17_members.inc")


def pregenerate():
    gen_members.generate(MEMBERS_INC)


def regenerate():
    gen_members.generate(MEMBERS_INC)
    return gen_copy.generate(os.path.join(vlib.COQ, "gen", "Gen_Copy.v"))


def gen_boxed(r, m, n):
    """every column boxed [0, u], ranged rows around a point: the bound-flipping ratio tester has flips to do and solves take tens of iterations,
    so that state a ratio tester or pricer carries from one solve of an object into the next changes the pivot path"""
    from fractions import Fraction as F
    cols, x0 = [], []
    for j in range(n):
        u = F(r.randint(1, 4))
        cols.append((F(r.randint(-20, 20)), F(0), u))
        x0.append(u * F(r.randrange(5), 4))
    rows = []
    for i in range(m):
        co = {}
        for j in range(n):
            if r.random() < 0.35:
                co[j] = F(r.choice([a for a in range(-9, 10) if a != 0]))
        if not co:
            co[r.randrange(n)] = F(1)
        act = sum(a * x0[j] for j, a in co.items())
        rows.append((act - r.randint(0, 5), co, act + r.randint(0, 5)))
    return lpgen.LP(False, F(0), cols, rows, "boxed")


def rng_part(ck, exe):
    """The generator model (coq/RandomModel.v, extracted) against class Random and against the generator inside solver objects."""
    import subprocess
    model = vlib.build_model("C17")
    r = ck.rng
    n = 150 if ck.tier == "quick" else 3000
    edge = [0, 1, 2, 17, 42, 0xFFFFFFFF, 0xFFFFFFFE, 0x80000000, 0x7FFFFFFF,
            # seeds at which a member would become 0 without SOPLEX_MAX(., 1u), and their neighbours
            2**32 - 123456789, 2**32 - 362436000, 2**32 - 521288629, 2**32 - 7654321,
            2**32 - 123456789 - 1, 2**32 - 362436000 + 1, 2**32 - 521288629 - 1]
    lines, seqs = [], {}
    for k in range(n):
        ops = []
        for _ in range(r.randrange(1, 30)):
            m = r.random()
            if m < 0.25:
                ops.append("S%d" % (r.choice(edge) if r.random() < 0.4 else r.randrange(2**32)))
            else:
                ops.append("N")
        if k < len(edge):
            ops = ["S%d" % edge[k]] + ops
        seqs["g%d" % k] = ops
        lines.append("RNG g%d %s" % (k, " ".join(ops)))
    solv = {}
    for k in range(12 if ck.tier == "quick" else 120):
        seed = r.choice(edge) if k < len(edge) and r.random() < 0.7 else r.randrange(2**32)
        nd = r.randrange(0, 40)
        lo = r.choice([0.0, -1.0, 1e-6, -1e300, 5.0])
        hi = lo + r.choice([0.0, 1.0, 1e-9, 1e300, 3.5])
        solv["s%d" % k] = (seed, nd, lo, hi)
        lines.append("RNGS s%d %d %d %s %s" % (k, seed, nd, _dy(lo), _dy(hi)))
        seqs["s%d" % k] = ["S%d" % seed] + ["N"] * nd
    seqs["s-default"] = ["S0"]
    txt = "\n".join(lines) + "\n"
    rundir = os.path.join(vlib.BUILD, "run", "C17rng.%d" % os.getpid())
    os.makedirs(rundir, exist_ok=True)
    qf = os.path.join(rundir, "rng.txt")
    with open(qf, "w") as f:
        f.write("".join("RNG %s %s\n" % (i, " ".join(o)) for i, o in seqs.items()))
    mo = subprocess.run([model, qf], capture_output=True, text=True, timeout=600)
    if mo.returncode != 0:
        raise vlib.BuildError("C17 model runner failed: " + mo.stderr[-500:])
    M = {}
    for l in mo.stdout.splitlines():
        t = l.split()
        M[(t[1], int(t[2]))] = t[3:]
    rc, out, err = lpgen.run_harness(exe, txt, "C17rng")
    if rc != 0:
        ck.violation("rng-harness-crash", "the generator harness terminated abnormally (rc=%d): %s" % (rc, err[-300:]), {"kind": "crash", "input": txt[-3000:]})
    nops = 0
    seen = set()
    for l in out.splitlines():
        t = l.split()
        if not t:
            continue
        if t[0] == "R":
            gid, k = t[1], int(t[2])
            want = M.get((gid, k))
            nops += 1
            seen.add(gid)
            ck.evaluated(("rng", gid, k, tuple(seqs[gid][:k + 1])), nontrivial=True)
            ck.count("rng-op:" + ("next" if seqs[gid][k] == "N" else "seed"))
            rp = {"kind": "rng", "ops": seqs[gid][:k + 1], "implementation": t[3:], "model": want,
                  "correspondence": "RandomModel.rrun (extracted) vs class Random, member by member after every operation"}
            if want is None or t[3:8] != want[:5]:
                ck.violation("tie-mismatch:rng-state:" + ("next" if seqs[gid][k] == "N" else "seed"),
                             "after %s the members of Random (seedshift, lin, xor, mwc, cst) are %s, the model says %s" % (
                                 " ".join(seqs[gid][:k + 1])[-200:], t[3:8], want and want[:5]), rp)
            elif t[8] != "-":
                v = _undy(t[8])
                num = int(want[5])
                if v != num / 4294967295.0 or not (0.0 <= v <= 1.0):
                    ck.violation("tie-mismatch:rng-value", "next() returned %r, the model's numerator %d / UINT32_MAX is %r" % (v, num, num / 4294967295.0), rp)
        elif t[0] == "RS":
            gid, what = t[1], t[2]
            seed, nd, lo, hi = solv[gid]
            seen.add(gid)
            if what == "inrange":
                ck.evaluated(("rng-solver", gid, "inrange"), nontrivial=True)
                if t[3] != "1":
                    ck.violation("rng-next-out-of-range", "next(%r, %r) left its interval within %d draws after seed %d" % (lo, hi, nd, seed),
                                 {"kind": "rng-solver", "seed": seed, "draws": nd, "lo": lo, "hi": hi})
                continue
            # the model state each observation point must show
            if what == "fresh":
                want = M.get(("s-default", 0))
            elif what == "seeded":
                want = M.get((gid, 0))
            elif what == "parsed":
                want = M.get((gid, 0))
            else:   # drawn / copy / assigned: the state after the draws (a copy keeps the position in the stream)
                want = M.get((gid, nd))
            ck.evaluated(("rng-solver", gid, what), nontrivial=True)
            ck.count("rng-solver:" + what)
            rp = {"kind": "rng-solver", "seed": seed, "draws": nd, "point": what, "implementation": t[3:], "model": want,
                  "correspondence": "RandomModel (extracted) vs SoPlexBase::_solver.random after setRandomSeed / draws / copy construction / assignment / settings line"}
            if want is None or t[3:8] != want[:5]:
                ck.violation("tie-mismatch:rng-solver:" + what,
                             "the generator of a solver object (%s; seed %d, %d draws) has members %s, the model says %s" % (what, seed, nd, t[3:8], want and want[:5]), rp)
            if what != "fresh" and int(t[8]) != seed:
                ck.violation("rng-solver-seed-getter:" + what, "randomSeed() returns %s after seed %d (%s)" % (t[8], seed, what), rp)
    if len(seen) < len(seqs) - 1 and rc == 0:
        ck.violation("rng-harness-incomplete", "the generator harness answered %d of %d sequences" % (len(seen), len(seqs) - 1), {"kind": "crash", "input": txt[-3000:]})
    ck.cov["rng"] = {"operation_sequences": n, "operations_compared": nops, "solver_object_scenarios": len(solv),
                     "edge_seeds": [str(e) for e in edge]}
    import shutil
    shutil.rmtree(rundir, ignore_errors=True)


def _dy(x):
    import math
    if x == 0.0:
        return "0:0"
    m, e = vlib.dyadic(x)
    return "%d:%d" % (m, e)


def _undy(t):
    import math
    m, e = t.split(":")
    return math.ldexp(int(m), int(e))


def main():
    ck = vlib.Check("C17", "other")
    info = regenerate()
    ck.cov["copy_table"] = {"members": info["members"], "assigned_in_operator=": info["assigned"], "pointer_members": info["pointers"]}
    if not ck.prove():
        # which entry is unsafe?  (the Coq obligation is the judge; this only names the member)
        bad = [n for n, h in info["pointers"].items() if h == "HAssign"]
        for sig, what, rp, ni in ck.violations:
            rp["unsafe_members"] = bad
    exe = vlib.build_harness("C17", deps=[MEMBERS_INC])
    if not ck.args.replay:
        rng_part(ck, exe)
    r = ck.rng
    nlp = 70 if ck.tier == "quick" else 1500
    nmax = 10 if ck.tier == "quick" else 25
    txt = ""
    cmds = {}
    lps = []
    corpus = lpgen.load_corpus("C17")
    for k in range(len(corpus) + nlp):
        if k < len(corpus):
            p = corpus[k][0]
            lps.append(p)
            txt += p.text(str(k)) + "\n"
            cmds[k] = []
            for j, line in enumerate(corpus[k][1]):
                t = line.split()
                line = " ".join([t[0], "k%d" % j] + t[2:])
                cfg = {a.split("=")[0]: int(a.split("=")[1]) for a in t[2:] if "=" in a}
                cmds[k].append(("k%d" % j, line, cfg))
                txt += line + "\n"
            continue
        boxed = (k - len(corpus)) % 12 == 5
        p = gen_boxed(r, r.randint(8, 14), r.randint(30, 60)) if boxed else lpgen.gen_lp(r, nmax)
        lps.append(p)
        txt += p.text(str(k)) + "\n"
        cmds[k] = []
        for c in range(3):
            cfg = lpgen.rand_config(r) if c else {}
            cfg.pop("solution_polishing", None)
            if c == 2:
                # a configuration in which a re-solve after clearBasis() (with the generator put back to its seed) reproduces the first solve on
                # the unchanged tree: no scaler, no steepest-edge pricer, default starter - so that state a component carries from one solve into
                # the next (ratio tester, pricer, factorization options) is visible as a difference
                cfg = {"scaler": 0, "pricer": r.choice([1, 2, 3]), "ratiotester": 3 if boxed else r.choice([3, 3, 1, 2]), "simplifier": 0 if boxed else r.choice([0, 1]),
                       "algorithm": r.randrange(2), "representation": r.randrange(3)}
            if c == 1 and r.random() < 0.25:
                cfg["starter"] = 3
            if r.random() < 0.15:
                cfg["seed"] = r.randrange(1, 1000)
            line = "DET d%d %s" % (c, lpgen.cfg_text(cfg))
            cmds[k].append(("d%d" % c, line, cfg))
            txt += line + "\n"
        for c in range(3):
            cfg = lpgen.rand_config(r) if c else {}
            cfg.pop("solution_polishing", None)
            if r.random() < 0.3:
                cfg["syncmode"] = r.choice([1, 2])
            if r.random() < 0.3:
                cfg["seed"] = r.randrange(1, 1000)     # the seed is a parameter too: a copy must carry it (and the generator)
            if r.random() < 0.35:
                cfg["ensureray"] = 1                   # infeasible / unbounded LPs then end with a ray or a Farkas vector, which a copy must carry
            mode = r.choice(["ctor", "assign", "assign-used"])
            point = r.choice(["nosolve", "solved", "solved-mod"])
            mut = r.choice(["params", "lp", "solve", "all"])
            line = "COPY c%d %s %s %s %s" % (c, mode, point, mut, lpgen.cfg_text(cfg))
            cmds[k].append(("c%d" % c, line, cfg))
            txt += line + "\n"
    other_diffs = []
    rc, out, err = lpgen.run_harness(exe, txt, "C17")
    B = lpgen.blocks(out)
    if rc != 0:
        ck.violation("harness-crash", "the harness terminated abnormally (rc=%d): %s" % (rc, err[-300:]), {"kind": "crash", "input": txt[-4000:]})
    for k, p in enumerate(lps):
        res = {}
        for l in B.get(str(k), []):
            d = lpgen.parse_kv(l)
            res[d["_id"]] = d
        for (cid, line, cfg) in cmds[k]:
            d = res.get(cid)
            if d is None:
                continue
            ck.evaluated((p.key(), line), nontrivial=(p.n + p.m >= 3))
            ck.count(d["_tag"])
            rp = {"lp": p.text("replay"), "lp_format": p.lp_format(), "command": line, "observed": {a: b for a, b in d.items() if not a.startswith("_")}}
            if d["_tag"] == "DET":
                ck.count("det-status:" + d.get("status", "?"))
                if d.get("two_objects") != "none":
                    ck.violation("nondeterministic:two-objects:" + d.get("two_objects", "?"),
                                 "two solver objects given the same LP, parameters and seed differ in %s under %s" % (d.get("two_objects"), cfg), rp)
                if d.get("resolve_after_clearBasis") != "none":
                    if d.get("resolve_reseeded") == "none":
                        tag = "rng-continues"
                    elif cfg.get("starter") == 3:
                        tag = "starter=3"
                    elif cfg.get("scaler", 2) != 0 and cfg.get("persistentscaling", 1) != 0:
                        tag = "persistent-scaling"
                    elif cfg.get("scaler", 2) != 0 and cfg.get("persistentscaling", 1) == 0:
                        tag = "nonpersistent-scaling"
                    elif cfg.get("pricer", 0) in (4, 5):
                        tag = "steepest-edge"
                    else:
                        tag = "other:rt%s:simp%s" % (cfg.get("ratiotester", 3), cfg.get("simplifier", 3))
                    what_ = "solving the same unmodified object again after clearBasis() differs in %s (after re-seeding: %s) under %s" % (
                        d.get("resolve_after_clearBasis"), d.get("resolve_reseeded"), cfg)
                    if tag.startswith("other"):
                        # judged at the end by their frequency: on the unchanged tree about one re-solve in 1500 differs in configurations
                        # without a known cause (known finding, 'rare'); a component that carries state across solves shows up in a large
                        # share of the runs ('frequent')
                        other_diffs.append((tag, what_, rp))
                    else:
                        ck.violation("resolve-after-clearBasis-differs:%s" % tag, what_, rp)
            else:
                ck.count("copy:%s:%s:%s" % (d.get("mode"), d.get("point"), d.get("mut")))
                if d.get("equal") != "none":
                    ck.violation("copy-not-equal:%s:%s" % (d.get("mode"), d.get("equal")),
                                 "a %s copy taken at point '%s' differs from its source in %s" % (d.get("mode"), d.get("point"), d.get("equal")), rp)
                if d.get("members", "none") != "none":
                    ck.violation("copy-member-not-copied:%s" % d.get("members"),
                                 "a %s copy differs from its source in the solver members %s" % (d.get("mode"), d.get("members")), rp)
                if d.get("solves_like_source", "none") != "none":
                    ck.count("twin-solve-differs:" + d.get("point", "?"))
                # only for copies taken before any solve: there is no hidden solve state (random stream position, pricer weights,
                # scaling state), so a copy must solve exactly like an identically built object
                if d.get("solves_like_source", "none") != "none" and d.get("point") == "nosolve":
                    tag = "persistent-scaling" if (cfg.get("scaler", 2) != 0 and cfg.get("persistentscaling", 1) != 0 and d.get("point") != "nosolve") else \
                          ("starter=3" if cfg.get("starter") == 3 else "other")
                    ck.violation("copy-solves-differently:%s:%s" % (tag, d.get("point")),
                                 "a %s copy (taken at '%s'), solved from a cleared basis, differs from an identically built twin of its source in %s" % (
                                     d.get("mode"), d.get("point"), d.get("solves_like_source")), rp)
                if d.get("source_unchanged") != "none":
                    ck.violation("copy-not-independent:source-changed:%s" % d.get("source_unchanged"),
                                 "mutating (%s) the copy changed the source in %s" % (d.get("mut"), d.get("source_unchanged")), rp)
                if d.get("copy_unchanged") != "none":
                    ck.violation("copy-not-independent:copy-changed:%s" % d.get("copy_unchanged"),
                                 "mutating (%s) the source changed the copy in %s" % (d.get("mut"), d.get("copy_unchanged")), rp)
                st = int(d.get("after_destroy_status", "0"))
                if st <= -1000:
                    scaled = "scaled" if (cfg.get("scaler", 2) != 0 and d.get("point") != "nosolve") else "unscaled"
                    ck.violation("use-after-destroy:signal%d:%s" % (-1000 - st, scaled),
                                 "after destroying the source, using the copy (taken at '%s') died with signal %d" % (d.get("point"), -1000 - st), rp)
        if k < 2:
            ck.sample({"lp": p.text(str(k)), "commands": [c[1] for c in cmds[k]], "results": [res.get(c[0], {}) for c in cmds[k]]})
    ndet = sum(1 for k_ in cmds for c_ in cmds[k_] if c_[1].startswith("DET "))
    limit = max(1, ndet // 1000)
    ck.cov["resolve_differences_without_known_cause"] = {"count": len(other_diffs), "DET_runs": ndet, "rare_up_to": limit}
    for (tag, what_, rp) in other_diffs:
        ck.violation("resolve-after-clearBasis-differs:%s:%s" % (tag, "rare" if len(other_diffs) <= limit else "frequent"),
                     what_ + " (%d such differences in %d DET runs)" % (len(other_diffs), ndet), rp)
    ck.cov["explanation"] = ("partial: the aliasing obligation over the regenerated copy table (which member of SoPlexBase<R> operator= clones, deep-copies, rebinds or "
                             "assigns) is proved in Coq on every run; determinism (two objects with interposed heap perturbation; re-solve after clearBasis), "
                             "equality of copies (copy constructor, assignment to a fresh and to a used object, before/after solve, with/without rational LP) and "
                             "independence (mutate parameters / LP / solve on one side and re-dump the other; destroy the source in a child process and keep "
                             "using the copy) are explored dynamically by comparing the implementation with itself: uninitialised reads, address dependence and "
                             "aliasing below the first member level cannot be exhibited by a model.")
    ck.cov["rule"] = ("per LP (lpgen families, <= %d rows/cols): 2 DET commands and 3 COPY commands with sampled configurations; a case is (LP, command), non-trivial when "
                      "rows+columns >= 3" % nmax)
    ck.cov["trusted_base"] = ["Coq 8.16.1 kernel (Properties_C17.v closed under the global context)",
                              "translator/gen_copy.py (regex scrape of soplex.h member declarations and of operator= in soplex.hpp)",
                              "harness/C17.cpp compares canonical dumps of the observable state (LP, parameters, tolerances, status, flags, solution vectors as bit patterns, basis, rational LP)"]
    ck.assumptions = ["solution_polishing is left at 0 (separate known findings)", "bitwise equality of solution vectors is required for determinism"]
    ck.finish()


if __name__ == "__main__":
    main()
