#!/usr/bin/env python3
"""C05 - basis-inverse and basis-multiply queries agree with the user's basis matrix.

prove (Properties_C05 over coq/BasisInvModel.v) + for generated (LP, configuration, basis) triples every answer of
getBasisInverseRowReal / ColReal / TimesVecReal, multBasis, multBasisTranspose (both unscale flags, sparse and dense
calls) is judged by the extracted, proved checkers against the USER's basis matrix (or the stored, scaled one for
unscale = false), the sparse index output by check_inds, getBasisInd by the extracted bind_colrep / bind_rowrep, and
the stored matrix by the extracted `scale`.  In addition the extracted glue models (column and row representation,
plain and scaled branches), run with an exact oracle validated by the extracted is_inverse, must predict what the
implementation returned - this ties the _refuted theorems to the code.  For the three refuted branches the repaired
models (*_fixed, proved right; they mirror /verif/proposed_fixes/C05-*.diff) are evaluated as well and a tree that
behaves like them is accepted."""
import json
import os
import sys
from fractions import Fraction as F

sys.path.insert(0, os.path.dirname(os.path.abspath(__file__)))
sys.path.insert(0, os.path.dirname(os.path.dirname(os.path.abspath(__file__))))
import vlib
import lpgen

HARNESSES = ["C05"]
MODEL = True

EPS = "1/100000000"          # 1e-8
COND_MAX = 10 ** 6
SENT = F(777)


# ----------------------------------------------------------------------------------------------------------
# exact (untrusted) linear algebra: only used to select well-conditioned cases and to produce the inverse that the
# extracted is_inverse validates before it is used as the oracle of the glue models
# ----------------------------------------------------------------------------------------------------------
def inverse(M):
    """M: list of rows (square) -> inverse as list of rows, or None"""
    n = len(M)
    A = [list(r) + [F(int(i == j)) for j in range(n)] for i, r in enumerate(M)]
    for c in range(n):
        p = None
        for i in range(c, n):
            if A[i][c] != 0:
                p = i
                break
        if p is None:
            return None
        A[c], A[p] = A[p], A[c]
        d = A[c][c]
        A[c] = [x / d for x in A[c]]
        for i in range(n):
            if i != c and A[i][c] != 0:
                f = A[i][c]
                A[i] = [x - f * y for x, y in zip(A[i], A[c])]
    return [r[n:] for r in A]


def norm_inf_rows(M):
    return max([sum(abs(x) for x in r) for r in M] or [F(0)])


def fs(x):
    return str(x.numerator) if x.denominator == 1 else "%d/%d" % (x.numerator, x.denominator)


def dense_A(lp):
    A = [[F(0)] * lp.n for _ in range(lp.m)]
    for i, (lhs, co, rhs) in enumerate(lp.rows):
        for j, v in co.items():
            A[i][j] = F(v)
    return A


def basis_rows(A, m, bind):
    """basis matrix as list of rows"""
    B = [[F(0)] * len(bind) for _ in range(m)]
    for k, b in enumerate(bind):
        if b >= 0:
            for i in range(m):
                B[i][k] = A[i][b]
        else:
            B[-1 - b][k] = F(1)
    return B


def scaled_A(A, rexp, cexp):
    return [[A[i][j] * F(2) ** (rexp[i] + cexp[j]) for j in range(len(cexp))] for i in range(len(rexp))]


# ----------------------------------------------------------------------------------------------------------
# generation
# ----------------------------------------------------------------------------------------------------------
def dy(x):
    """dyadic Fraction -> m:e"""
    if x == 0:
        return "0:0"
    m, d = x.numerator, x.denominator
    e = -(d.bit_length() - 1)
    while m % 2 == 0:
        m //= 2
        e += 1
    return "%d:%d" % (m, e)


def rand_vec(r, m):
    k = r.randrange(4)
    if k == 0:
        return [F(r.randint(-9, 9)) for _ in range(m)]
    if k == 1:
        return [F(r.randint(-9, 9)) if r.random() < 0.5 else F(0) for _ in range(m)]
    if k == 2:
        return [F(r.randint(-40, 40), 2 ** r.randint(0, 4)) for _ in range(m)]
    return [F(r.choice([-1, 1]) * r.randint(1, 9)) for _ in range(m)]


def nonbasic_status(lo, up, r):
    if lo is not None and up is not None:
        if lo == up:
            return "F"
        return r.choice("LU")
    if lo is not None:
        return "L"
    if up is not None:
        return "U"
    return "Z"


def random_basis(r, lp):
    """a regular, well-conditioned basis of [A I] as (brows, bcols) status strings, or None"""
    m, n = lp.m, lp.n
    A = dense_A(lp)
    for _ in range(30):
        want_cols = r.randint(0, min(m, n))
        S = sorted(r.sample(range(n), want_cols)) + [n + i for i in sorted(r.sample(range(m), m - want_cols))]
        bind = [j if j < n else -1 - (j - n) for j in S]
        B = basis_rows(A, m, bind)
        Bi = inverse(B)
        if Bi is None or norm_inf_rows(B) * norm_inf_rows(Bi) > 10 ** 4:
            continue
        bc = "".join("B" if j in S else nonbasic_status(lp.cols[j][1], lp.cols[j][2], r) for j in range(n))
        br = "".join("B" if (n + i) in S else nonbasic_status(lp.rows[i][0], lp.rows[i][2], r) for i in range(m))
        return br, bc
    return None


def rand_run(r, lp, forced=None, force_add=None):
    cfg = {"representation": r.choice([1, 2, 2, 0]), "scaler": r.randrange(7), "persistentscaling": r.choice([1, 1, 0]),
           "simplifier": r.choice([0, 0, 1, 3])}
    if r.random() < 0.3:
        cfg["algorithm"] = r.choice([0, 1])
    if r.random() < 0.2:
        cfg["pricer"] = r.randrange(6)
    if r.random() < 0.2:
        cfg["ratiotester"] = r.randrange(4)
    if r.random() < 0.15:
        cfg["factor_update_type"] = r.choice([0, 1])
    if r.random() < 0.15:
        cfg["iterlimit"] = r.randint(0, 4)
    if forced:
        cfg.update(forced)
    k = r.randrange(10)
    mode = "solve" if k < 6 else ("solveset" if k < 9 else "set")
    parts = ["mode=" + mode]
    if mode != "solve":
        b = random_basis(r, lp)
        if b is None:
            mode = "solve"
            parts = ["mode=solve"]
        else:
            parts += ["brows=" + (b[0] or "-"), "bcols=" + (b[1] or "-")]
    if mode == "set":
        # without a solve the LP is neither scaled nor switched to the row representation
        cfg.pop("iterlimit", None)
    parts += ["%s=%s" % (k_, v) for k_, v in sorted(cfg.items())]
    if lp.m >= 1 and lp.n >= 1 and r.random() < 0.35:
        # coefficient changes after the solve / setBasis: the factorization has to follow the LP (or the basis be dropped)
        ch = []
        for _ in range(r.randint(1, 2)):
            i, j = r.randrange(lp.m), r.randrange(lp.n)
            old = lp.rows[i][1].get(j, F(0))
            v = r.choice([F(x) for x in (-3, -2, -1, 1, 2, 3, 4) if F(x) != old] + ([F(0)] if old != 0 and r.random() < 0.3 else []))
            ch.append("%d:%d:%s" % (i, j, lpgen.qs(v)))
        parts.append("chg=" + ",".join(ch))
    elif lp.m >= 1 and lp.n >= 1 and (force_add or r.random() < 0.3):
        # a column or a row added after the solve / setBasis, queries without a re-solve: the new column enters non-basic, the new row basic,
        # and getBasisInd has to keep describing the matrix the queries answer for
        if force_add == "col" or (force_add is None and r.random() < 0.6):
            ent = ":".join("%d:%d" % (i, r.choice([-2, -1, 1, 2, 3])) for i in range(lp.m) if r.random() < 0.6)
            parts.append("addc=%d:0:%s%s" % (r.randint(-3, 3), r.choice(["inf", "4", "7"]), (":" + ent) if ent else ""))
        else:
            ent = ":".join("%d:%d" % (j, r.choice([-2, -1, 1, 2, 3])) for j in range(lp.n) if r.random() < 0.6)
            parts.append("addr=-inf:%d%s" % (r.randint(5, 30), (":" + ent) if ent else ""))
    return " ".join(parts)


def apply_changes(lp, runline):
    """the LP a run's queries are about: the case LP with the run's coefficient changes / added column / added row applied"""
    ch = [t[4:] for t in runline.split() if t.startswith("chg=")]
    ac = [t[5:] for t in runline.split() if t.startswith("addc=")]
    ar = [t[5:] for t in runline.split() if t.startswith("addr=")]
    if ac or ar:
        base = apply_changes(lp, " ".join(t for t in runline.split() if not t.startswith(("addc=", "addr="))))
        cols = list(base.cols)
        rows = [(lhs, dict(co), rhs) for (lhs, co, rhs) in base.rows]
        if ac:
            f = ac[0].split(":")
            cols.append((F(f[0]), lpgen.fr(f[1]), lpgen.fr(f[2])))
            for q in range(3, len(f) - 1, 2):
                i = int(f[q])
                if 0 <= i < len(rows):
                    rows[i][1][len(cols) - 1] = F(f[q + 1])
        if ar:
            f = ar[0].split(":")
            co = {}
            for q in range(2, len(f) - 1, 2):
                j = int(f[q])
                if 0 <= j < len(cols):
                    co[j] = F(f[q + 1])
            rows.append((lpgen.fr(f[0]), co, lpgen.fr(f[1])))
        return lpgen.LP(base.maxi, base.offset, cols, rows, base.family)
    if not ch:
        return lp
    rows = [(lhs, dict(co), rhs) for (lhs, co, rhs) in lp.rows]
    for item in ch[0].split(","):
        i, j, v = item.split(":")
        i, j = int(i), int(j)
        if 0 <= i < lp.m and 0 <= j < lp.n:
            rows[i][1][j] = F(v)
    return lpgen.LP(lp.maxi, lp.offset, lp.cols, rows, lp.family)


def gen_case(r, nmax):
    for _ in range(50):
        lp = lpgen.gen_lp(r, nmax)
        if lp.m >= 1 and lp.n >= 1:
            break
    vecs = [rand_vec(r, lp.m) for _ in range(2)]
    runs = [rand_run(r, lp) for _ in range(3)]
    # the additions that do NOT change the dimension of the basis matrix (a column in column representation, a row in row representation):
    # the solver pivots itself (no simplifier), then the LP grows, then getBasisInd and the queries without a re-solve
    for _ in range(40):
        if r.random() < 0.5:
            rl = rand_run(r, lp, forced={"representation": 1, "simplifier": 0}, force_add="col")
        else:
            rl = rand_run(r, lp, forced={"representation": 2, "simplifier": 0}, force_add="row")
        if ("addc=" in rl or "addr=" in rl) and "mode=solve " in rl + " ":
            runs.append(rl)
            break
    return {"lp": lp.text("x"), "vecs": [[dy(x) for x in v] for v in vecs], "runs": runs, "family": lp.family}


def gen_tall_case(r):
    """many rows (30-60), few columns, rows of very different magnitude: the optimal basis is dominated by slacks, so the LU solves keep their
    sparse pattern (CLUFactor::vSolveLeft / vSolveRight return set-up vectors only when the pattern is small against 0.1 * dim) and the scaling
    exponents of the rows differ - the regime of the sparse branches of the inverse queries, which small LPs never reach"""
    n = r.randint(2, 5)
    m = r.randint(30, 60)
    cols = [(F(r.randint(1, 5), 2 ** (j % 3)), F(0), F(8 * 2 ** (j % 3))) for j in range(n)]
    rows = []
    for i in range(m):
        co = {}
        for j in range(n):
            if r.random() < 0.35:
                co[j] = F(r.choice([1, 2, 3]) * 2 ** (2 * (i % 4)), 2 ** (j % 3))
        if not co:
            co[r.randrange(n)] = F(2 ** (2 * (i % 4)))
        rows.append((None, co, F(r.choice([10, 13, 100]) * 2 ** (2 * (i % 4)))))
    lp = lpgen.LP(True, F(0), cols, rows, "tall-sparse")
    runs = []
    for k in range(3):
        cfg = {"representation": [1, 1, 2][k], "scaler": r.choice([2, 2, 1, 5, 6]), "persistentscaling": 1, "simplifier": r.choice([0, 0, 1])}
        runs.append("mode=solve " + " ".join("%s=%s" % kv_ for kv_ in sorted(cfg.items())))
    vecs = [rand_vec(r, lp.m) for _ in range(2)]
    return {"lp": lp.text("x"), "vecs": [[dy(x) for x in v] for v in vecs], "runs": runs, "family": lp.family}


def parse_lp(text):
    cols, rows, head = [], [], None
    for l in text.splitlines():
        t = l.split()
        if not t:
            continue
        if t[0] == "LP":
            head = t
        elif t[0] == "C":
            cols.append((F(t[1]), lpgen.fr(t[2]), lpgen.fr(t[3])))
        elif t[0] == "R":
            rows.append((lpgen.fr(t[1]), {int(e.split(":")[0]): F(e.split(":")[1]) for e in t[3:]}, lpgen.fr(t[2])))
    return lpgen.LP(head[2] == "max", F(head[3]), cols, rows, "case")


def case_text(cid, c):
    out = [c["lp"].replace("LP x ", "LP %s " % cid, 1)]
    for v in c["vecs"]:
        out.append("VEC " + ",".join(v))
    for k, run in enumerate(c["runs"]):
        out.append("RUN %s.%d %s" % (cid, k, run))
    return "\n".join(out) + "\n"


# ----------------------------------------------------------------------------------------------------------
# harness output
# ----------------------------------------------------------------------------------------------------------
def kv(tokens):
    d = {}
    for w in tokens:
        if "=" in w:
            a, b = w.split("=", 1)
            d[a] = b
    return d


def ints(s):
    return [int(t) for t in s.split(",") if t != ""]


def vec(s):
    return [lpgen.dy2fr(t) for t in s.split(",") if t != ""]


def parse_runs(out):
    """-> {run id: {"head":..., "lines": [...]}}"""
    runs = {}
    for l in out.splitlines():
        t = l.split()
        if len(t) < 2:
            continue
        if t[0] == "RUN":
            runs[t[1]] = {"head": kv(t[2:]), "obs": [], "crash": None}
        elif t[0] == "CRASH":
            runs.setdefault(t[1], {"head": {}, "obs": [], "crash": None})["crash"] = kv(t[2:])
        elif t[0] == "CRASHIN":
            runs.setdefault(t[1], {"head": {}, "obs": [], "crash": None})["crashin"] = (t[2], int(t[3]) if len(t) > 3 else 0, kv(t[4:]))
        elif t[1] in runs:
            rr = runs[t[1]]
            if t[0] in ("BIND", "BIND2", "BINDOVERFLOW"):
                rr[t[0]] = ints(t[2]) if len(t) > 2 else []
            elif t[0] == "GETBASIS":
                d = kv(t[2:])
                rr["getbasis"] = (d.get("rows", "").strip(","), d.get("cols", "").strip(","))
            elif t[0] == "STATE":
                rr["state"] = kv(t[2:])
            elif t[0] == "EXP":
                d = kv(t[2:])
                rr["rexp"], rr["cexp"] = ints(d["rexp"]), ints(d["cexp"])
            elif t[0] == "BASEID":
                rr["baseid"] = [(-1 - int(x[1:])) if x[0] == "R" else int(x[1:]) for x in (t[2].split(",") if len(t) > 2 else []) if x]
            elif t[0] == "SCALEDA":
                rr["scaledA"] = [(int(e.split(",")[0]), int(e.split(",")[1]), lpgen.dy2fr(e.split(",")[2]))
                                 for e in (t[2].split(";") if len(t) > 2 else []) if e]
            elif t[0] == "LPDUMP":
                rr["dump"] = kv(t[2:])
            elif t[0] in ("ROW", "COL", "SOLVE", "SOLVEB", "MULT", "MULTT"):
                rr["obs"].append((t[0], int(t[2]), kv(t[3:])))
    return runs


# ----------------------------------------------------------------------------------------------------------
# query file for the extracted checker
# ----------------------------------------------------------------------------------------------------------
class Queries:
    def __init__(self):
        self.lines = []
        self.meta = {}          # tag -> dict
        self.n = 0
        self.ids = 0
        self.alts = {}

    def fresh(self, p):
        self.ids += 1
        return "%s%d" % (p, self.ids)

    def lpm(self, A, m, n):
        i = self.fresh("L")
        self.lines.append("LPM %s %d %d %s" % (i, m, n, " ".join(fs(A[r][c]) for c in range(n) for r in range(m))))
        return i

    def mat_rows(self, M):
        """M as list of rows -> column-major MAT"""
        i = self.fresh("M")
        rows, k = len(M), (len(M[0]) if M else 0)
        self.lines.append("MAT %s %d %d %s" % (i, rows, k, " ".join(fs(M[r][c]) for c in range(k) for r in range(rows))))
        return i

    def vec(self, v):
        i = self.fresh("V")
        self.lines.append("VEC %s %s" % (i, " ".join(fs(x) for x in v)))
        return i

    def zv(self, v):
        i = self.fresh("Z")
        self.lines.append("ZV %s %s" % (i, " ".join(str(x) for x in v)))
        return i

    def scale(self, lp, r, c):
        i = self.fresh("L")
        self.lines.append("SCALE %s %s %s %s" % (i, lp, r, c))
        return i

    def alt(self, tag, alt_tag):
        """alt_tag is the verdict of the repaired model for the observation judged by tag"""
        self.alts[tag] = alt_tag

    def q(self, meta, kind, *args):
        self.n += 1
        tag = "q%d" % self.n
        self.lines.append("Q %s %s %s" % (tag, kind, " ".join(str(a) for a in args)))
        self.meta[tag] = meta
        return tag


SIGNAME = {"ROW": "binv-row", "COL": "binv-col", "SOLVE": "solve", "SOLVEB": "solve", "MULT": "mult", "MULTT": "multT"}


def plan_run(ck, Q, cid, c, lp, A, rid, runline, rr, found):
    """emit the queries of one run; immediate (python-side) findings go to found(sig, what, case, extra)"""
    m, n = lp.m, lp.n
    case = {"lp": c["lp"], "vecs": c["vecs"], "runs": [runline], "size": m * n}
    head = rr["head"]
    if rr["crash"] is not None and "state" not in rr:
        found("crash:setup", "the implementation crashed (%s) in RUN %s before the first query returned (%s)" % (
            rr["crash"], runline, rr.get("crashin")), case, {})
        return
    ck.count("status:" + head.get("status", "?"))
    if head.get("hasBasis") != "1" or "BIND" not in rr:
        ck.count("no-basis")
        return
    bind = rr["BIND"]
    gb = rr.get("getbasis")
    if gb is not None:
        nb = gb[0].count("B") + gb[1].count("B")
        if nb != m or "BINDOVERFLOW" in rr:
            # hasBasis() is true but the basis in the solver is not a basis: the precondition of the queries does not hold
            mode = runline.split()[0][5:]
            sig = "basis-invalid:%s:%s%s" % (mode, head.get("status", "?"), ":bind-overflow" if "BINDOVERFLOW" in rr else "")
            found(sig, "hasBasis() is true but getBasis reports %d basic variables for %d rows (rows=%s cols=%s)%s after RUN %s" % (
                nb, m, gb[0], gb[1], "; getBasisInd wrote %d entries into the caller's array of numRows()=%d entries: %s" % (
                    len(rr["BINDOVERFLOW"]), m, rr["BINDOVERFLOW"]) if "BINDOVERFLOW" in rr else "", runline), case,
                  {"getBasis": gb, "status": head.get("status")})
            return
        if set(bind) != set([-1 - i for i, ch in enumerate(gb[0]) if ch == "B"] + [j for j, ch in enumerate(gb[1]) if ch == "B"]):
            found("bind-vs-getbasis", "getBasisInd %s does not name the variables getBasis reports basic (rows=%s cols=%s)" % (bind, gb[0], gb[1]),
                  case, {"getBasis": gb})
    st = rr.get("state", {})
    rep = st.get("rep", head.get("rep"))
    scaled = st.get("scaled") == "1"
    ck.count("rep:%s scaled:%d" % (rep, scaled))
    ck.count("mode:" + runline.split()[0][5:])
    if head.get("loaded0") == "0":
        ck.count("real-LP-not-loaded-before-queries")
    # the user's LP must be what we loaded
    dump = rr.get("dump", {})
    dA = {}
    for e in dump.get("A", "").split(";"):
        if e:
            i, j, v = e.split(",")
            dA[(int(i), int(j))] = lpgen.dy2fr(v)
    if dump and dA != {(i, j): A[i][j] for i in range(m) for j in range(n) if A[i][j] != 0}:
        found("lp-changed", "the LP seen through the accessors differs from the LP loaded", case, {"dump": dump.get("A")})
    if rr.get("BIND2") is not None and rr["BIND2"] != bind:
        found("bind-unstable:%s" % ("colrep" if rep == "C" else "rowrep"), "getBasisInd before the queries %s and after them %s differ" % (bind, rr["BIND2"]), case, {})
    ok = len(bind) == m and all((0 <= b < n) or (b < 0 and -1 - b < m) for b in bind) and len(set(bind)) == m
    if not ok:
        found("bind-malformed", "getBasisInd returned %s for m=%d n=%d" % (bind, m, n), case, {})
        return
    rexp, cexp = rr.get("rexp", [0] * m), rr.get("cexp", [0] * n)
    if not scaled:
        rexp, cexp = [0] * m, [0] * n
    As = scaled_A(A, rexp, cexp)
    B = basis_rows(A, m, bind)
    Bi = inverse(B)
    if Bi is None:
        ck.count("singular-basis-skipped")
        return
    cond = norm_inf_rows(B) * norm_inf_rows(Bi)
    Bs = basis_rows(As, m, bind)
    Bsi = inverse(Bs)
    conds = norm_inf_rows(Bs) * norm_inf_rows(Bsi)
    if cond > COND_MAX or conds > COND_MAX:
        ck.count("ill-conditioned-skipped")
        return
    ck.count("bases-judged")
    ck.count("basis-slacks:%d/%d" % (sum(1 for b in bind if b < 0), m))
    base = {"case": case, "rid": rid, "rep": rep, "scaled": scaled, "bind": bind, "rexp": rexp, "cexp": cexp}
    lu = Q.lpm(A, m, n)
    zr, zc, zb = Q.zv(rexp), Q.zv(cexp), Q.zv(bind)
    ls = Q.scale(lu, zr, zc) if scaled else lu
    # the stored matrix is the model's scaling of the user's matrix
    if "scaledA" in rr:
        S = [[F(0)] * n for _ in range(m)]
        for (i, j, v) in rr["scaledA"]:
            S[i][j] = v
        lobs = Q.lpm(S, m, n)
        Q.q(dict(base, kind="stored-matrix", sig="stored-matrix:%s" % ("scaled" if scaled else "plain"),
                 what="the matrix stored in the solver is not scale(r, c, user matrix)"), "EQLP", lobs, ls)
    # getBasisInd against the solver's basis order
    baseid = rr.get("baseid")
    zi = None
    if baseid is not None:
        zi = Q.zv(baseid)
        if rep == "C":
            Q.q(dict(base, kind="bind", sig="bind:colrep", what="getBasisInd differs from the basis order %s" % baseid), "BINDC", zi, zb)
        else:
            Q.q(dict(base, kind="bind", sig="bind:rowrep", what="getBasisInd differs from the complement of the row basis %s" % baseid),
                "BINDR", ls, zi, zb)
    # exact oracles for the glue models
    mbs = Q.mat_rows(Bsi)          # inverse of the stored basis matrix (column representation)
    mbu = Q.mat_rows(Bi) if scaled else mbs
    Q.q(dict(base, kind="oracle", sig="oracle", what="python inverse rejected"), "INVB", ls, zb, mbs)
    mr = None
    if rep == "R" and baseid is not None and len(baseid) == n:
        # row basis of the stored LP: vectors are rows of As / unit vectors; as a matrix with these vectors as COLUMNS
        vecsM = [[As[-1 - b][j] for j in range(n)] if b < 0 else [F(int(j == b)) for j in range(n)] for b in baseid]
        Mrows = [[vecsM[k][j] for k in range(n)] for j in range(n)]
        Mi = inverse(Mrows)
        if Mi is not None and norm_inf_rows(Mrows) * norm_inf_rows(Mi) <= COND_MAX:
            mr = Q.mat_rows(Mi)
            Q.q(dict(base, kind="oracle", sig="oracle", what="python inverse of the row basis rejected"), "INVR", ls, zi, mr)
    if rr["crash"] is not None:
        kind, idx, d = rr.get("crashin", ("?", 0, {}))
        u = d.get("u") == "1"
        flag = "scaled" if (u and scaled) else ("stored" if scaled else "plain")
        found("crash:%s:%s:%s" % (SIGNAME.get(kind, kind), "colrep" if rep == "C" else "rowrep", flag),
              "the implementation crashed (%s) in %s(%d, unscale=%s) bind=%s rep=%s" % (rr["crash"], kind, idx, u, bind, rep), case,
              {"bind": bind, "rep": rep, "rexp": rexp, "cexp": cexp, "baseid": baseid, "observations_before_crash": len(rr["obs"])})
    seen = {}
    for (kind, idx, d) in rr["obs"]:
        u = d.get("u") == "1"
        sc = u and scaled
        flag = "scaled" if sc else ("stored" if scaled else "plain")
        repn = "colrep" if rep == "C" else "rowrep"
        sig = "%s:%s:%s" % (SIGNAME[kind], repn, flag)
        ref = lu if (u or not scaled) else ls
        # expected answer (python-side exact arithmetic, for the replay file only)
        RB, RBi = (B, Bi) if (u or not scaled) else (Bs, Bsi)
        try:
            if kind == "COL":
                exp = [RBi[i][idx] for i in range(m)]
            elif kind == "ROW":
                exp = list(RBi[idx])
            elif kind in ("SOLVE", "SOLVEB"):
                rh = vec(d["rhs"])
                exp = [sum(RBi[i][k] * rh[k] for k in range(m)) for i in range(m)]
            elif kind == "MULT":
                vi_ = vec(d["in"])
                exp = [sum(RB[i][k] * vi_[k] for k in range(m)) for i in range(m)]
            else:
                vi_ = vec(d["in"])
                exp = [sum(RB[i][k] * vi_[i] for i in range(m)) for k in range(m)]
            exp = ",".join(fs(x) for x in exp)
        except Exception:
            exp = "?"
        ob = dict(base, kind=kind, idx=idx, unscale=u, obs=d, sig=sig, expected=exp)
        ck.count("query:%s:%s:%s" % (SIGNAME[kind], repn, flag))
        if d.get("ret") != "1":
            found("query-failed:" + sig, "%s(%d, unscale=%s) returned %s for a regular basis" % (kind, idx, u, d.get("ret")), case,
                  {"bind": bind, "rep": rep})
            continue
        allv = [x for f_ in ("coef", "sol", "out") if f_ in d for x in vec(d[f_])]
        if any(x is None for x in allv):
            found("nonfinite:" + sig, "%s(%d, unscale=%s) returned a non-finite entry: %s" % (kind, idx, u, d), case,
                  {"bind": bind, "rep": rep, "rexp": rexp, "cexp": cexp})
            continue
        if kind in ("ROW", "COL"):
            coef = vec(d["coef"])
            ninds = int(d["ninds"])
            sp = d.get("sp") == "1"
            if not sp:
                if ninds != -1:
                    found("dense-call-ninds:" + sig, "dense call (inds = NULL) returned ninds=%d instead of -1" % ninds, case, {})
                if any(x == SENT for x in coef):
                    found("dense-unwritten:" + sig, "dense call left entries of coef unwritten: %s" % d["coef"], case, {})
            key = (kind, idx, u, d["coef"])
            vid = seen.get(key)
            if vid is None:
                vid = Q.vec(coef)
                seen[key] = vid
                Q.q(dict(ob, what="%s %d of the basis inverse (unscale=%s) is wrong" % (kind, idx, u)), kind, ref, zb, vid, idx, EPS)
                # the glue model predicts the answer
                if rep == "C":
                    Q.q(dict(ob, sig="glue-model:" + sig, what="column-representation glue model does not predict the implementation"),
                        "CG", kind, int(sc), zr, zc, ls, zb, mbs, idx, vid, EPS)
                elif mr is not None:
                    if kind == "COL" and sc and (-1 - idx) in baseid and baseid.index(-1 - idx) >= m:
                        # the code reads getRowScaleExp(position in the row basis) beyond the exponent array: not predictable
                        ck.count("note:scale-exponent-read-out-of-bounds")
                    else:
                        t1 = Q.q(dict(ob, sig="glue-model:" + sig, what="row-representation glue model does not predict the implementation"),
                                 "RG", kind, int(sc), zr, zc, ls, zi, mr, idx, vid, EPS)
                        if kind == "COL" and sc:
                            # also the repaired model (proposed_fixes): either one may describe the tree under test
                            Q.alt(t1, Q.q(dict(ob, kind="alt", sig="alt"), "RG", "COLF", int(sc), zr, zc, ls, zi, mr, idx, vid, EPS))
            if sp and ninds >= 0:
                zi2 = Q.zv(ints(d["inds"])[:ninds])
                Q.q(dict(ob, sig="inds:" + sig, what="inds %s is not the set of non-zero positions of coef %s" % (d["inds"], d["coef"])),
                    "INDS", vid, zi2)
                ck.count("sparse-output")
            elif sp:
                ck.count("sparse-call-answered-dense")
        elif kind in ("SOLVE", "SOLVEB"):
            rhs, sol = vec(d["rhs"]), vec(d["sol"])
            if d.get("rhsout") != d.get("rhs"):
                ck.count("note:rhs-array-overwritten-with-scaled-rhs")
            vr, vs = Q.vec(rhs), Q.vec(sol)
            Q.q(dict(ob, what="getBasisInverseTimesVecReal(unscale=%s): B*sol != rhs" % u), "SOLVE", ref, zb, vr, vs, EPS)
            if kind == "SOLVEB":
                # rhs was B*v: the solution must be v itself (forward error, through the python-side condition bound)
                v = vec(d["v"])
                err = max([abs(a - b) for a, b in zip(sol, v)] or [F(0)])
                if err > F(1, 10 ** 8) * (1 + max([abs(x) for x in v] or [F(0)])) * max(1, int(max(cond, conds))):
                    found(sig, "solve(B v) != v: v=%s sol=%s" % (d["v"], d["sol"]), case, {"bind": bind, "rep": rep, "rexp": rexp, "cexp": cexp})
            if rep == "C":
                Q.q(dict(ob, sig="glue-model:" + sig, what="column-representation glue model does not predict the implementation"),
                    "CG", "SOLVE", int(sc), zr, zc, ls, zb, mbs, vr, vs, EPS)
            elif mr is not None:
                t1 = Q.q(dict(ob, sig="glue-model:" + sig, what="row-representation glue model does not predict the implementation"),
                         "RG", "SOLVE", int(sc), zr, zc, ls, zi, mr, vr, vs, EPS)
                if sc:
                    Q.alt(t1, Q.q(dict(ob, kind="alt", sig="alt"), "RG", "SOLVEF", int(sc), zr, zc, ls, zi, mr, vr, vs, EPS))
        else:
            vin, vout = vec(d["in"]), vec(d["out"])
            vi, vo = Q.vec(vin), Q.vec(vout)
            Q.q(dict(ob, what="%s(unscale=%s) is not the product with the basis matrix" % ("multBasis" if kind == "MULT" else "multBasisTranspose", u)),
                kind, ref, zb, vi, vo, EPS)
            if rep == "C":
                Q.q(dict(ob, sig="glue-model:" + sig, what="column-representation glue model does not predict the implementation"),
                    "CG", kind, int(sc), zr, zc, ls, zb, mbs, vi, vo, EPS)
            elif zi is not None:
                t1 = Q.q(dict(ob, sig="glue-model:" + sig, what="row-representation glue model does not predict the implementation"),
                         "RG", kind, int(sc), zr, zc, ls, zi, "-", vi, vo, EPS)
                if kind == "MULT":
                    Q.alt(t1, Q.q(dict(ob, kind="alt", sig="alt"), "RG", "MULTF", int(sc), zr, zc, ls, zi, "-", vi, vo, EPS))


def main():
    ck = vlib.Check("C05", "proof")
    ck.prove()
    try:
        exe = vlib.build_harness("C05")
    except vlib.BuildError as e:
        ck.violation("harness-build", "harness does not build against the current tree: %s" % str(e)[-800:], {"kind": "build"}, no_input=True)
        ck.finish()
    try:
        model = vlib.build_model("C05")
    except vlib.BuildError as e:
        ck.violation("model-build", "extracted checker does not build: %s" % str(e)[-800:], {"kind": "extraction"}, no_input=True)
        ck.finish()

    cases = []
    if ck.args.replay:
        rp = json.load(open(ck.args.replay))
        if "case" in rp:
            cases.append(rp["case"])
    else:
        cdir = os.path.join(vlib.ROOT, "corpus", "C05")
        if os.path.isdir(cdir):
            for f in sorted(os.listdir(cdir)):
                if f.endswith(".json"):
                    cases.append(json.load(open(os.path.join(cdir, f))))
        ncase, nmax = (60, 6) if ck.tier == "quick" else (6000, 10)
        for k in range(ncase):
            cases.append(gen_case(ck.rng, nmax if ck.rng.random() < 0.7 else 3))
        for k in range(8 if ck.tier == "quick" else 150):
            cases.append(gen_tall_case(ck.rng))

    text = "".join(case_text("c%d" % k, c) for k, c in enumerate(cases))
    rc, out, err = lpgen.run_harness(exe, text, "C05", timeout=3000)
    if rc != 0:
        ck.violation("harness-crash", "the harness process failed rc=%d: %s" % (rc, err[-500:]), {"kind": "crash"}, no_input=True)
    runs = parse_runs(out)

    best = {}       # signature -> (size, what, replay)

    def found(sig, what, case, extra):
        # a row added in column representation / a column added in row representation (no re-solve) changes the dimension of the basis
        # matrix: the scenario of the known finding C05-getbasisind-stale-after-dimension-change is named in the signature
        rl = (case.get("runs") or [""])[0]
        if "addr=" in rl:
            sig += ":after-addrow"
        elif "addc=" in rl:
            sig += ":after-addcol"
        rec = dict(extra)
        rec["case"] = {k: case[k] for k in ("lp", "vecs", "runs")}
        try:
            rec["lp_format"] = parse_lp(case["lp"]).lp_format()
        except Exception:
            pass
        if sig not in best or case["size"] < best[sig][0]:
            best[sig] = (case["size"], what, rec)

    Q = Queries()
    for k, c in enumerate(cases):
        lp = parse_lp(c["lp"])
        A = dense_A(lp)
        ck.count("family:" + c.get("family", "corpus"))
        for j, runline in enumerate(c["runs"]):
            rid = "c%d.%d" % (k, j)
            rr = runs.get(rid) or runs.get(rid + "!badparam")
            if rr is None:
                continue
            lpr = apply_changes(lp, runline)
            if lpr is not lp:
                ck.count("run:with-coefficient-changes")
            plan_run(ck, Q, "c%d" % k, c, lpr, A if lpr is lp else dense_A(lpr), rid, runline, rr, found)
            if k < 2 and j == 0:
                ck.sample({"lp": c["lp"], "run": runline, "status": rr["head"].get("status"), "bind": rr.get("BIND")})

    d = os.path.join(vlib.BUILD, "run")
    os.makedirs(d, exist_ok=True)
    qf = os.path.join(d, "C05.%d.q" % os.getpid())
    with open(qf, "w") as fh:
        fh.write("\n".join(Q.lines) + "\n")
    rc2, res, merr = vlib.sh([model, qf], timeout=3000)
    if not os.environ.get("VERIF_KEEP"):
        os.remove(qf)
    if rc2 != 0:
        ck.violation("checker-crash", "the extracted checker failed rc=%d: %s" % (rc2, merr[-400:]), {"kind": "model"}, no_input=True)
    verdict = {}
    for l in res.splitlines():
        t = l.split()
        if len(t) == 3 and t[0] == "R":
            verdict[t[1]] = t[2] == "true"
    bad_oracle = set()
    for tag, meta in Q.meta.items():
        if meta["kind"] == "oracle" and verdict.get(tag) is not True:
            bad_oracle.add(meta["rid"])
    for tag, meta in Q.meta.items():
        v = verdict.get(tag)
        if v is None:
            continue
        if meta["kind"] == "alt":
            continue
        ck.evaluated((meta["rid"], tag), nontrivial=meta["kind"] not in ("oracle",))
        if tag in Q.alts:
            a = verdict.get(Q.alts[tag])
            ck.count("glue-variant:%s:%s" % (meta["sig"].replace("glue-model:", ""),
                                           "shipped" if v else ("repaired" if a else "neither")))
            if a and not v:
                continue          # the tree behaves like the repaired model, which is proved right (C05_*_fixed_*)
        if v:
            continue
        if meta["kind"] == "oracle":
            ck.count("oracle-rejected")
            continue
        if meta["sig"].startswith("glue-model:") and meta["rid"] in bad_oracle:
            continue
        extra = {"bind": meta["bind"], "rep": meta["rep"], "scaled": meta["scaled"], "rexp": meta["rexp"], "cexp": meta["cexp"],
                 "theorem": "checker soundness (C05_check_*_sound); glue model theorems of Properties_C05.v"}
        if "obs" in meta:
            extra["query"] = {"kind": meta["kind"], "index": meta["idx"], "unscale": meta["unscale"]}
            extra["observed"] = meta["obs"]
            extra["expected"] = meta.get("expected")
            extra["reference_matrix"] = "user's basis matrix" if (meta["unscale"] or not meta["scaled"]) else "stored (scaled) basis matrix"
        found(meta["sig"], "%s [%s] bind=%s rep=%s" % (meta["what"], meta["sig"], meta["bind"], meta["rep"]), meta["case"], extra)
    if bad_oracle:
        ck.violation("oracle-rejected", "the exact inverse computed by the check was rejected by the extracted is_inverse (%d runs)" % len(bad_oracle),
                     {"kind": "check-internal"}, no_input=True)
    for sig in sorted(best):
        size, what, rec = best[sig]
        ck.violation(sig, what, rec)
    ck.cov["checker_queries"] = len(Q.meta)
    ck.cov["rule"] = ("one evaluation = one verdict of the extracted checker on one answer of the implementation (a row / column of the basis "
                      "inverse, a solve, a product, a sparse index list, getBasisInd, the stored matrix) or on one prediction of the extracted "
                      "glue model; LP families of checks/lpgen.py (vertex, infeasible, unbounded, random; 1..6 rows and columns, small integers); "
                      "bases after solve (all ending statuses incl. iteration-limit aborts) and after setBasis with a random regular basis; "
                      "representation column/row/auto x scaler 0..6 x persistent scaling x simplifier x unscale flag x every index x 2 dense "
                      "vectors (as right-hand side, as B*v, as multiplicand); distinct = distinct (run, query) pairs")
    ck.cov["trusted_base"] = ["Coq 8.16.1 kernel (coqc), no native_compute; vm_compute only for the refutation witnesses and Examples",
                              "axioms: none (Print Assumptions: closed under the global context)" if not ck.coq["axioms"] else "axioms: " + ", ".join(ck.coq["axioms"]),
                              "extraction: ExtrOcamlBasic only; OCaml 4.13.1; extract/zutil.ml + extract/C05/driver.ml (zarith for I/O only; sorts index lists)",
                              "harness/C05.cpp compiled with g++ -fno-access-control against /repo/src (reads scale exponents, the stored matrix and "
                              "the solver's basis order from private members)",
                              "checks/C05.py + checks/lpgen.py: generators, bookkeeping; its exact Gauss-Jordan inverse is NOT trusted (validated by the "
                              "extracted is_inverse before it serves as the oracle of the glue models; otherwise only used to skip bases with "
                              "condition number > 1e6)"]
    ck.assumptions = ["The LU factorisation and its solves are oracles of the model (Section variables solve / coSolve assumed exact for the matrix the "
                      "solver holds); each run's numerical answers are validated by the proved checkers instead (translation validation).",
                      "Tolerance: every entry of the residual within 1e-8 * (1 + |B| |x| + |b|) (infinity norms; one-norm of B on the transposed side), "
                      "evaluated exactly in Q on bases whose exact condition number is <= 1e6.",
                      "The epsilon tests of the code (isNotZero(x, 1e-16) before scaling an entry) are modelled as tests against exact zero.",
                      "In the scaled ROW branch of getBasisInverseColReal the code reads getRowScaleExp(position in the basis), which is beyond the exponent "
                      "array when the position is >= numRows; the model returns exponent 0 there."]
    ck.finish()


if __name__ == "__main__":
    main()
