#!/usr/bin/env python3
"""C03 - the exact (rational) solve returns exactly verifiable results and the true status.

(i)  kernel correspondence: the four violation functions, _rangeTypeRational (through the type arrays) and _isRefinementOver
     of the compiled tree are called on hand-written rational vectors / basis statuses and compared EXACTLY with the model
     extracted from coq/RatGateModel.v (theorems: Properties_C03.v);
(ii) end to end: exact solves of LPs entered through the rational interface over sampled settings of the 13 exact-solver
     options x simplifier x scaler x sync mode; every OPTIMAL / INFEASIBLE / UNBOUNDED answer must be accepted by the proved
     certificate checkers (coq/Cert.v, runner extracted for C01), the objective value must be c.x + offset exactly, the rational
     LP held by the object must be the LP that was entered, and the settings that must decide have to decide."""
import json
import os
import sys
from fractions import Fraction

sys.path.insert(0, os.path.dirname(os.path.abspath(__file__)))
sys.path.insert(0, os.path.dirname(os.path.dirname(os.path.abspath(__file__))))
import vlib
import lpgen
from lpgen import qs, vtxt

if hasattr(sys, "set_int_max_str_digits"):
    sys.set_int_max_str_digits(0)      # exact answers can have tens of thousands of digits

HARNESSES = ["C03"]
MODEL = True

BOOLS = ["lifting", "eqtrans", "testdualinf", "ratfac", "acceptcycling", "ratrec", "powerscaling", "ratfacjump", "forcebasic",
         "precision_boosting", "boosted_warm_start", "recovery_mechanism", "adapt_tols_to_multiprecision"]
DEFAULTS = {"lifting": 0, "eqtrans": 0, "testdualinf": 0, "ratfac": 1, "acceptcycling": 0, "ratrec": 1, "powerscaling": 1, "ratfacjump": 0,
            "forcebasic": 0, "precision_boosting": 1, "boosted_warm_start": 1, "recovery_mechanism": 0, "adapt_tols_to_multiprecision": 0}
SPACE = dict([(b, [0, 1]) for b in BOOLS] + [("simplifier", [0, 1, 3]), ("scaler", [0, 1, 2, 3, 4, 5, 6]), ("sync", ["auto", "manual"])])
SETFILES = {"exact": "settings/exact.set", "pure": "settings/exact-pure-boosting.set"}
REFLIMIT = 12          # for settings with rational reconstruction and factorization both off
TIMELIMIT = 8          # safety net (seconds) for a single tiny LP (they take milliseconds); a must-decide setting that hits it is reported


# --------------------------------------------------------------------------------------
# the verdict automaton of RatGateModel.v is a hand-written model of the control flow of these three functions; their
# oracles are internal procedures, so the model cannot be driven differentially.  What can be checked on every run is that
# the text the model was written for is still the text in the tree (comments and white space ignored).
# --------------------------------------------------------------------------------------
VERDICT_SOURCE = {"_optimizeRational": "3feade23f50fc4f6", "_performUnboundedIRStable": "6e3865d9b9b8d845",
                  "_performFeasIRStable": "0c875e674ca73b05"}


def verdict_source_hashes():
    import hashlib
    import re
    src = open(os.path.join(vlib.REPO, "src", "soplex", "solverational.hpp")).read()
    out = {}
    for name in VERDICT_SOURCE:
        m = re.search(r"void SoPlexBase<R>::%s\(" % name, src)
        if not m:
            out[name] = "missing"
            continue
        end = src.find("\ntemplate <class R>", m.start())
        t = src[m.start():end if end > 0 else len(src)]
        t = re.sub(r"/\*.*?\*/", "", t, flags=re.S)
        t = re.sub(r"//[^\n]*", "", t)
        t = re.sub(r"\s+", "", t)
        out[name] = hashlib.sha256(t.encode()).hexdigest()[:16]
    return out


# --------------------------------------------------------------------------------------
# LPs with rational data
# --------------------------------------------------------------------------------------
FRACS = [Fraction(1, 3), Fraction(1, 10), Fraction(2, 7), Fraction(10, 3), Fraction(7, 5), Fraction(3), Fraction(1, 6), Fraction(13, 11)]
WILD = [Fraction(10**6), Fraction(1, 10**6), Fraction(10**7, 3), Fraction(3, 10**5), Fraction(2**20), Fraction(1, 2**18), Fraction(5 * 10**4, 7)]


def rationalize(r, p, wild):
    """class-preserving transformations: positive row scaling, positive column scaling (x_j = t_j x_j'), shifts of variables"""
    n, m = p.n, p.m
    pool = FRACS + (WILD if wild else [])
    ct = [r.choice(pool) if r.random() < (0.5 if not wild else 0.35) else Fraction(1) for _ in range(n)]
    sh = [r.choice([Fraction(1, 3), Fraction(-1, 10), Fraction(2, 7), Fraction(5, 3)]) if r.random() < 0.3 else Fraction(0) for _ in range(n)]
    cols = []
    for j, (o, lo, up) in enumerate(p.cols):
        # x_j = t * z_j + s  <=>  z_j = (x_j - s) / t
        t, s = ct[j], sh[j]
        cols.append((o * t, None if lo is None else (lo - s) / t, None if up is None else (up - s) / t))
    rows = []
    for (lhs, co, rhs) in p.rows:
        k = r.choice(pool) if r.random() < 0.5 else Fraction(1)
        const = sum((v * sh[j] for j, v in co.items()), Fraction(0))
        rows.append((None if lhs is None else (lhs - const) * k, {j: v * ct[j] * k for j, v in co.items()}, None if rhs is None else (rhs - const) * k))
    q = lpgen.LP(p.maxi, p.offset, cols, rows, p.family + ("+wild" if wild else "+frac"))
    return q


def gen_rational_lp(r, nmax):
    k = r.randrange(10)
    if k < 4:
        p = lpgen.gen_around_point(r, nmax)
    elif k < 6:
        p = lpgen.gen_infeasible(r, nmax)
    elif k < 8:
        p = lpgen.gen_unbounded(r, nmax)
    else:
        p = lpgen.gen_random(r, nmax)
    w = r.random()
    if w < 0.12:
        return p                       # dyadic small integers
    return rationalize(r, p, wild=(w > 0.7))


def lp_dump(p):
    """the string harness/C03.cpp prints for the rational LP held by the object (dumpLPRational)"""
    out = "m=%d;n=%d;sense=%s;off=%s;" % (p.m, p.n, "max" if p.maxi else "min", qs(p.offset))
    for (o, lo, up) in p.cols:
        out += "C%s|%s|%s;" % (qs(o), "-inf" if lo is None else qs(lo), "inf" if up is None else qs(up))
    for (lhs, co, rhs) in p.rows:
        out += "R%s|%s|" % ("-inf" if lhs is None else qs(lhs), "inf" if rhs is None else qs(rhs))
        for j, v in sorted(co.items()):
            if v != 0:
                out += "%d:%s|" % (j, qs(v))
        out += ";"
    return out


def is_dyadic(p):
    def dy(x):
        if x is None:
            return True
        d = Fraction(x).denominator
        return d & (d - 1) == 0 and abs(x) < 2**50 and d < 2**50
    return all(dy(a) and dy(b) and dy(c) for (a, b, c) in p.cols) and all(dy(l) and dy(h) and all(dy(v) for v in co.values()) for (l, co, h) in p.rows)


# --------------------------------------------------------------------------------------
# settings: pairwise covering array + random draws
# --------------------------------------------------------------------------------------
def covering_array(r, space):
    keys = sorted(space)
    need = set()
    for a in range(len(keys)):
        for b in range(a + 1, len(keys)):
            for va in space[keys[a]]:
                for vb in space[keys[b]]:
                    need.add((keys[a], va, keys[b], vb))
    rows = []
    while need:
        best, bestc = None, -1
        for _ in range(30):
            cand = {k: r.choice(space[k]) for k in keys}
            # seed the candidate with one uncovered pair
            ka, va, kb, vb = r.choice(sorted(need, key=str)[:50])
            cand[ka], cand[kb] = va, vb
            c = sum(1 for (ka, va, kb, vb) in need if cand[ka] == va and cand[kb] == vb)
            if c > bestc:
                best, bestc = cand, c
        rows.append(best)
        need = {(ka, va, kb, vb) for (ka, va, kb, vb) in need if not (best[ka] == va and best[kb] == vb)}
    return rows


def cfg_line(cfg):
    """harness tokens of a configuration (only the non-default part)"""
    t = []
    for k, v in sorted(cfg.items()):
        if k == "_hist":
            continue
        if k == "setfile":
            t.append("setfile=%s" % os.path.join(vlib.REPO, SETFILES[v]))
        elif k in DEFAULTS and DEFAULTS[k] == v:
            continue
        else:
            t.append("%s=%s" % (k, v))
    return " ".join(t)


def must_decide(cfg):
    """default options, the shipped exact settings files, and settings that keep RATREC or RATFAC"""
    if cfg.get("realfirst"):
        return False
    return cfg.get("ratrec", 1) == 1 or cfg.get("ratfac", 1) == 1


def finish_cfg(cfg):
    cfg = dict(cfg)
    if cfg.get("ratrec", 1) == 0 and cfg.get("ratfac", 1) == 0:
        cfg["reflimit"] = REFLIMIT
    cfg["timelimit"] = TIMELIMIT
    return cfg


def cfg_tags(cfg):
    t = [k for k in ("lifting", "eqtrans", "testdualinf", "forcebasic", "ratfacjump", "recovery_mechanism") if cfg.get(k, 0) == 1]
    t += ["no-" + k for k in ("ratrec", "ratfac", "precision_boosting", "iterative_refinement") if cfg.get(k, 1) == 0]
    if "setfile" in cfg:
        t.append("set-" + cfg["setfile"])
    if cfg.get("sync", "auto") != "auto":
        t.append(cfg["sync"])
    if cfg.get("realfirst"):
        t.append("realfirst")
    if cfg.get("_hist"):
        # a later solve of a history on one object; which exact-solver options EARLIER solves of the history used matters
        h = cfg["_hist"]
        t.append("hist%s" % ("".join("-after-" + a for a in h["before"]) if h["step"] > 0 else "-first"))
        if h.get("tag"):
            t.append(h["tag"])
    return "+".join(t) or "default"


# --------------------------------------------------------------------------------------
# kernel-level correspondence
# --------------------------------------------------------------------------------------
def rq(r, small=False):
    k = r.randrange(8)
    if k == 0:
        return Fraction(0)
    if k == 1:
        return Fraction(r.randint(-3, 3))
    return Fraction(r.randint(-30, 30), r.choice([1, 2, 3, 7, 10, 12]))


def kernel_case(r, p, tag):
    n, m = p.n, p.m
    mode = r.randrange(6)
    x = []
    for j, (o, lo, up) in enumerate(p.cols):
        c = r.randrange(6)
        if c == 0 and lo is not None:
            x.append(lo)
        elif c == 1 and up is not None:
            x.append(up)
        elif c == 2 and lo is not None:
            x.append(lo - Fraction(r.randint(0, 2), r.choice([1, 3, 10**6])))
        elif c == 3 and up is not None:
            x.append(up + Fraction(r.randint(0, 2), r.choice([1, 3, 10**6])))
        elif c == 4:
            x.append(Fraction(0))
        else:
            x.append(rq(r))
    act = [p.activity(i, x) for i in range(m)]
    s = []
    for i, (lhs, co, rhs) in enumerate(p.rows):
        c = r.randrange(7)
        if mode >= 2 or c >= 3:
            s.append(act[i])
        elif c == 0 and lhs is not None:
            s.append(lhs)
        elif c == 1 and rhs is not None:
            s.append(rhs)
        else:
            s.append(act[i] + rq(r))
    y = [rq(r) if r.random() < 0.6 else Fraction(0) for _ in range(m)]
    d = []
    for j, (o, lo, up) in enumerate(p.cols):
        z = sum((p.rows[i][1].get(j, 0) * y[i] for i in range(m)), Fraction(0))
        d.append(o - z if (mode >= 1 or r.random() < 0.5) else rq(r))
    cst = "".join(r.choice("ULBBZF?" if mode < 4 else "ULB") for _ in range(n))
    rst = "".join(r.choice("ULBBZF?" if mode < 4 else "ULB") for _ in range(m))
    a = {"cst": cst, "rst": rst, "x": vtxt(x), "s": vtxt(s), "y": vtxt(y), "d": vtxt(d)}
    if r.random() < 0.3:
        a["ct"] = "".join(r.choice("01234") for _ in range(n)) or "-"
        a["rt"] = "".join(r.choice("01234") for _ in range(m)) or "-"
    a["ftol"] = qs(r.choice([Fraction(0), Fraction(0), Fraction(1, 10), Fraction(1), Fraction(1, 3), Fraction(100)]))
    a["otol"] = qs(r.choice([Fraction(0), Fraction(0), Fraction(1, 10), Fraction(1), Fraction(1, 3), Fraction(100)]))
    a["minir"] = str(r.choice([-2, -1, -1, 0, 1]))
    a["nfail"] = str(r.choice([0, 0, 1, 2, 3, 4]))
    a["st"] = str(r.randrange(2))
    a["si"] = str(r.randrange(2))
    if r.random() < 0.3:
        a["reflimit"] = str(r.choice([0, 2, 5]))
        a["refs"] = str(r.choice([0, 2, 4, 6]))
    if r.random() < 0.2:
        a["iterlimit"] = str(r.choice([0, 10]))
        a["iters"] = str(r.choice([0, 9, 10, 11]))
    if r.random() < 0.2:
        a["stallreflimit"] = str(r.choice([0, 3]))
        a["stalls"] = str(r.choice([0, 2, 3]))
    if r.random() < 0.15:
        a["timelimit"] = "0"
    # _checkRefinementProgress: best violation so far (inf at the start) and improvement factor
    a["best"] = r.choice(["inf", "inf", "0", "1", "1/3", "16", "1000", "1/1000000"])
    a["factor"] = r.choice(["16", "16", "2", "11/10"])
    return "KERN %s %s" % (tag, " ".join("%s=%s" % (k, v) for k, v in sorted(a.items())))


def run_model(model, text, tag, ck, nproc=8):
    """run an extracted model/checker runner on the case text; LP blocks are independent, so the text is split into chunks
    that run concurrently (the extracted arithmetic on inductive integers is slow on large rationals)"""
    from concurrent.futures import ThreadPoolExecutor
    d = os.path.join(vlib.BUILD, "run")
    os.makedirs(d, exist_ok=True)
    blocks, cur = [], []
    for l in text.splitlines():
        if l.startswith("LP ") and cur:
            blocks.append(cur)
            cur = []
        cur.append(l)
    if cur:
        blocks.append(cur)
    chunks = [[] for _ in range(nproc)]
    for i, b in enumerate(blocks):
        chunks[i % nproc].append("\n".join(b))
    chunks = [c for c in chunks if c]

    def one(ic):
        i, c = ic
        f = os.path.join(d, "%s-%s-%d.%d.q" % (ck.pid, tag, i, os.getpid()))
        with open(f, "w") as fh:
            fh.write("\n".join(c) + "\n")
        r = vlib.sh([model, f], timeout=6000)
        if not os.environ.get("VERIF_KEEP"):
            os.remove(f)
        return r
    with ThreadPoolExecutor(max_workers=nproc) as ex:
        res = list(ex.map(one, enumerate(chunks)))
    for rc, out, err in res:
        if rc != 0:
            ck.violation("model-runner-crash:" + tag, "extracted model runner failed: " + err[-300:], {"kind": "model"}, no_input=True)
    return lpgen.blocks("".join(r[1] for r in res))


def kernel_part(ck, exe, model, nlp, per_lp, nmax):
    r = ck.rng
    text = ""
    lps = []
    for k in range(nlp):
        p = gen_rational_lp(r, nmax)
        if r.random() < 0.3:
            # zero bounds and sides exercise the special case of the kernels
            p.cols = [(o, (Fraction(0) if (lo is not None and r.random() < 0.5) else lo), (Fraction(0) if (up is not None and lo is None and r.random() < 0.5) else up)) for (o, lo, up) in p.cols]
            p.cols = [(o, lo, (up if (up is None or lo is None or lo <= up) else lo)) for (o, lo, up) in p.cols]
            p.rows = [((Fraction(0) if (lhs is not None and rhs is None and r.random() < 0.6) else lhs), co, (Fraction(0) if (rhs is not None and lhs is None and r.random() < 0.6) else rhs)) for (lhs, co, rhs) in p.rows]
        lps.append(p)
        text += p.text("k%d" % k) + "\n"
        for c in range(per_lp):
            text += kernel_case(r, p, "k%d.%d" % (k, c)) + "\n"
    rc, out, err = lpgen.run_harness(exe, text, ck.pid + "-kern")
    H = lpgen.blocks(out)
    M = run_model(model, text, "kern", ck)
    cases = [l for l in text.splitlines() if l.startswith("KERN ")]
    byid = {}
    cur = None
    for l in text.splitlines():
        if l.startswith("LP "):
            cur = l.split()[1]
        elif l.startswith("KERN "):
            byid[l.split()[1]] = (cur, l)
    if rc != 0:
        ck.violation("kernel-harness-crash", "harness/C03 crashed (rc=%d) in the kernel correspondence: %s" % (rc, err[-300:]), {"kind": "crash"}, no_input=True)
    nz = 0
    for k, p in enumerate(lps):
        hid = "k%d" % k
        hl = {l.split()[1]: l for l in H.get(hid, []) if l.startswith("KERN ")}
        ml = {l.split()[1]: l for l in M.get(hid, []) if l.startswith("KERN ")}
        for c in range(per_lp):
            tag = "k%d.%d" % (k, c)
            ck.evaluated(("kern", byid[tag][1], p.key()), nontrivial=(p.n + p.m >= 2))
            ck.count("kernel-cases")
            a, b = hl.get(tag), ml.get(tag)
            if a is not None and ("bv=0 sv=0 rv=0 dv=0" in a):
                nz += 1
            if a != b:
                fa, fb = lpgen.parse_kv(a) if a else {}, lpgen.parse_kv(b) if b else {}
                diff = sorted(k2 for k2 in set(fa) | set(fb) if fa.get(k2) != fb.get(k2) and not k2.startswith("_"))
                ck.violation("kernel-mismatch:" + "+".join(diff)[:60],
                             "the compiled kernels and the model of RatGateModel.v disagree on %s for case %s" % (diff, tag),
                             {"lp": p.text("replay"), "case": byid[tag][1], "implementation": a, "model": b,
                              "correspondence": "harness/C03.cpp KERN vs extract/C03 (bounds/sides/redcost/dual violation, _rangeTypeRational, _isRefinementOver)"},
                             no_input=True)
        if k < 1:
            ck.sample({"kernel_case": byid["k0.0"][1], "implementation": hl.get("k0.0"), "model": ml.get("k0.0")})
    ck.count("kernel-cases-all-zero", nz)


def kernel_from_answers(ck, exe, model, answers, limit):
    """kernel cases built from answers the exact solver returned as OPTIMAL (all four violations are zero there) and from
    single-entry perturbations of them (one status, one vector entry): the cases next to the accept/reject boundary"""
    r = ck.rng
    text, meta = "", {}
    for k, (p, o) in enumerate(answers[:limit]):
        x, sl, y, d = vq(o["x"]), vq(o["s"]), vq(o["y"]), vq(o["d"])
        cst, rst = o["bcols"].strip(","), o["brows"].strip(",")
        text += p.text("a%d" % k) + "\n"
        variants = [("exact", cst, rst, x, sl, y, d)]
        for _ in range(5):
            c2, r2, x2, s2, y2, d2 = cst, rst, list(x), list(sl), list(y), list(d)
            w = r.randrange(6)
            if w == 0 and p.n:
                j = r.randrange(p.n)
                c2 = c2[:j] + r.choice("ULBZF") + c2[j + 1:]
            elif w == 1 and p.m:
                i = r.randrange(p.m)
                r2 = r2[:i] + r.choice("ULBZF") + r2[i + 1:]
            elif w == 2 and p.n:
                x2[r.randrange(p.n)] += r.choice([Fraction(1, 10**9), Fraction(-1, 3), Fraction(1)])
            elif w == 3 and p.m:
                s2[r.randrange(p.m)] += r.choice([Fraction(1, 10**9), Fraction(-1, 3), Fraction(-1, 10**9)])
            elif w == 4 and p.m:
                y2[r.randrange(p.m)] += r.choice([Fraction(1, 10**9), Fraction(-1, 3), Fraction(-1, 10**9)])
            elif p.n:
                d2[r.randrange(p.n)] += r.choice([Fraction(1, 10**9), Fraction(-1, 3), Fraction(-1, 10**9)])
            variants.append(("perturbed", c2, r2, x2, s2, y2, d2))
        for c, (kind, c2, r2, x2, s2, y2, d2) in enumerate(variants):
            tag = "a%d.%d" % (k, c)
            line = "KERN %s cst=%s rst=%s x=%s s=%s y=%s d=%s minir=-1 nfail=0 st=0 si=0" % (tag, c2, r2, vtxt(x2), vtxt(s2), vtxt(y2), vtxt(d2))
            meta[tag] = (kind, p, line)
            text += line + "\n"
    if not text:
        return
    rc, out, err = lpgen.run_harness(exe, text, ck.pid + "-kern2")
    H = lpgen.blocks(out)
    M = run_model(model, text, "kern2", ck)
    hl = {l.split()[1]: l for b in H.values() for l in b if l.startswith("KERN ")}
    ml = {l.split()[1]: l for b in M.values() for l in b if l.startswith("KERN ")}
    for tag, (kind, p, line) in meta.items():
        a, b = hl.get(tag), ml.get(tag)
        ck.evaluated(("kern", line, p.key()), nontrivial=True)
        ck.count("kernel-cases-from-answers:" + kind)
        if a is not None and "bv=0 sv=0 rv=0 dv=0 over=1 pf=1 df=1 " in a:
            ck.count("kernel-cases-from-answers:accepted:" + kind)
        if a != b:
            fa, fb = lpgen.parse_kv(a) if a else {}, lpgen.parse_kv(b) if b else {}
            diff = sorted(k2 for k2 in set(fa) | set(fb) if fa.get(k2) != fb.get(k2) and not k2.startswith("_"))
            ck.violation("kernel-mismatch:" + "+".join(diff)[:60],
                         "the compiled kernels and the model of RatGateModel.v disagree on %s for case %s (built from a returned OPTIMAL answer)" % (diff, tag),
                         {"lp": p.text("replay"), "case": line, "implementation": a, "model": b,
                          "correspondence": "harness/C03.cpp KERN vs extract/C03"}, no_input=True)


# --------------------------------------------------------------------------------------
# end to end
# --------------------------------------------------------------------------------------
def parse_solve(lines):
    res = {}
    for l in lines:
        t = l.split()
        if not t:
            continue
        if t[0] == "SOLVE":
            d = lpgen.parse_kv(l)
            res.setdefault(d["_id"].split("!")[0], {})["solve"] = d
        elif t[0] == "LPQ":
            tag, which = t[1].rsplit(".", 1)
            res.setdefault(tag, {})[which] = t[2] if len(t) > 2 else ""
        elif t[0] == "REALFIRST":
            res.setdefault(t[1], {})["realfirst"] = lpgen.parse_kv(l)
        elif t[0] == "TYPES":
            res.setdefault(t[1], {})["types"] = lpgen.parse_kv(l)
        elif t[0] == "REALSTEP":
            res.setdefault(t[1], {})["realstep"] = lpgen.parse_kv(l)
    return res


def vq(s):
    return [Fraction(t) for t in s.split(",") if t != ""]


def run_parallel(exe, text, tag, nproc=6):
    """split the case text at LP blocks into nproc chunks and run the harness on them concurrently"""
    from concurrent.futures import ThreadPoolExecutor
    blocks, cur = [], []
    for l in text.splitlines():
        if l.startswith("LP ") and cur:
            blocks.append(cur)
            cur = []
        cur.append(l)
    if cur:
        blocks.append(cur)
    chunks = [[] for _ in range(nproc)]
    for i, b in enumerate(blocks):
        chunks[i % nproc].append("\n".join(b))
    chunks = [c for c in chunks if c]
    with ThreadPoolExecutor(max_workers=nproc) as ex:
        res = list(ex.map(lambda ic: lpgen.run_harness(exe, "\n".join(ic[1]) + "\n", "%s-%d" % (tag, ic[0]), timeout=7000), enumerate(chunks)))
    rc = max([abs(r[0]) for r in res] + [0])
    return rc, "".join(r[1] for r in res), "".join(r[2][-300:] for r in res)


def e2e(ck, exe, cert, model, jobs):
    """jobs: list of (LP, [cfg, ...]); runs everything, asks the proved checkers, judges"""
    obs = e2e_run(ck, exe, jobs)
    e2e_judge(ck, cert, model, jobs, obs)


def e2e_run(ck, exe, jobs):
    obs = {k: {} for k in range(len(jobs))}
    skip = set()
    for attempt in range(8):
        text = ""
        for k, (p, cfgs) in enumerate(jobs):
            todo = [c for c in range(len(cfgs)) if (k, c) not in skip and "solve" not in obs[k].get("e%d.%d" % (k, c), {})]
            if not todo:
                continue
            text += p.text("e%d" % k) + "\n"
            for c in todo:
                f = finish_cfg(cfgs[c])
                sync = f.pop("sync", "auto")
                text += "SOLVE e%d.%d sync=%s %s\n" % (k, c, sync, cfg_line(f))
        if not text:
            break
        rc, out, err = run_parallel(exe, text, ck.pid + "-e2e")
        B = lpgen.blocks(out)
        for k in range(len(jobs)):
            for tag, rec in parse_solve(B.get("e%d" % k, [])).items():
                obs[k].setdefault(tag, {}).update(rec)
        if rc == 0:
            break
        # the first run without an observation crashed (or hung): report it, then go on with the remaining runs
        found = False
        for k, (p, cfgs) in enumerate(jobs):
            miss = [c for c in range(len(cfgs)) if (k, c) not in skip and "solve" not in obs[k].get("e%d.%d" % (k, c), {})]
            if miss:
                cfg = cfgs[miss[0]]
                skip.add((k, miss[0]))
                ck.count("crashed-runs")
                ck.violation("crash:" + cfg_tags(cfg), "the exact solve crashed or timed out (rc=%d) under %s" % (rc, cfg),
                             {"lp": p.text("replay"), "config": cfg, "kind": "crash", "stderr": err[-400:],
                              "harness_line": "SOLVE x sync=%s %s" % (cfg.get("sync", "auto"), cfg_line({a: b for a, b in finish_cfg(cfg).items() if a != "sync"}))})
                found = True
                break
        if not found:
            break
    return obs


def e2e_judge(ck, cert, model, jobs, obs):
    """obs[k]["e<k>.<c>"] = {"solve": parsed SOLVE line, "in"/"out": LP dumps, "types": parsed TYPES line}"""
    # ---- questions to the proved certificate checker
    q, g = "", ""
    for k, (p, cfgs) in enumerate(jobs):
        q += p.text("e%d" % k) + "\n"
        g += p.text("e%d" % k) + "\n"
        for c, cfg in enumerate(cfgs):
            if "types" in obs[k].get("e%d.%d" % (k, c), {}):
                g += "TYPES %d\n" % c
            o = obs[k].get("e%d.%d" % (k, c), {}).get("solve")
            if not o:
                continue
            st = o["status"]
            if st == "OPTIMAL" and all(t in o for t in ("x", "s", "y", "d")):
                x, s, y, d = vq(o["x"]), vq(o["s"]), vq(o["y"]), vq(o["d"])
                val = sum((cc[0] * x[j] for j, cc in enumerate(p.cols)), Fraction(0)) + p.offset if len(x) == p.n else Fraction(0)
                q += "Q %d.opt optexact %s %s\n" % (c, vtxt(x), vtxt(y))
                q += "Q %d.val objective %s\n" % (c, vtxt(x))
                q += "Q %d.all opttol 0 0 0 0 %s %s %s %s %s\n" % (c, vtxt(x), vtxt(s), vtxt(y), vtxt(d), qs(val))
                if "brows" in o:
                    g += "GATE %d cst=%s rst=%s x=%s s=%s y=%s d=%s\n" % (c, o["bcols"].strip(","), o["brows"].strip(","), vtxt(x), vtxt(s), vtxt(y), vtxt(d))
                g += "OBJ %d x=%s\n" % (c, vtxt(x))
            if "farkas" in o:
                f = vq(o["farkas"])
                q += "Q %d.far farkas %s\nQ %d.farneg farkas %s\n" % (c, vtxt(f), c, vtxt([-t for t in f]))
            if "ray" in o:
                q += "Q %d.ray ray %s\n" % (c, vtxt(vq(o["ray"])))
                if "x" in o:
                    q += "Q %d.feas feasible %s\n" % (c, vtxt(vq(o["x"])))
    A = run_model(cert, q, "cert", ck)
    G = run_model(model, g, "gate", ck)
    # ---- judgement
    for k, (p, cfgs) in enumerate(jobs):
        ans = {l.split()[1]: l.split()[3] for l in A.get("e%d" % k, []) if l.startswith("A ")}
        gate = {}
        for l in G.get("e%d" % k, []):
            d = lpgen.parse_kv(l)
            gate[(d["_tag"], d["_id"])] = d
        want = lp_dump(p)
        certified = {}
        for c, cfg in enumerate(cfgs):
            rec = obs[k].get("e%d.%d" % (k, c), {})
            tags = cfg_tags(cfg)
            hist = cfg.get("_hist")
            # (0) bookkeeping invariant between solves: the private range-type arrays are the types of the LP held
            if "types" in rec:
                mt = gate.get(("TYPES", str(c)))
                ht = rec["types"]
                if mt is None or (ht.get("ctypes"), ht.get("rtypes")) != (mt.get("ctypes"), mt.get("rtypes")):
                    ck.count("stale-range-types")
                    ck.violation("range-types-stale:%s" % tags,
                                 "after solve %d of a history on one SoPlex object the private range types are not those of the rational LP held: _colTypes=%s _rowTypes=%s, "
                                 "_rangeTypeRational of the bounds/sides gives %s / %s (0 free, 1 lower, 2 upper, 3 boxed, 4 fixed); the violation kernels of later solves "
                                 "skip or invent sides (theorem C03_gate_needs_matching_types); history: %s" % (
                                     hist["step"], ht.get("ctypes"), ht.get("rtypes"), mt and mt.get("ctypes"), mt and mt.get("rtypes"), hist["line"]),
                                 {"lp": hist["lp0"], "history": hist["line"], "step": hist["step"], "lp_at_step": p.text("replay"), "hist_spec": hist["spec"], "implementation": ht, "model": mt,
                                  "theorem": "C03_gate_needs_matching_types / hypothesis types_match of C03_gate_zero_is_optimal"})
            o = rec.get("solve")
            if not o:
                continue
            st = o["status"]
            ck.count("status:" + st)
            ck.count("family:" + p.family)
            ck.evaluated(("e2e", p.key(), cfg_line(cfg), cfg.get("sync", "auto"), hist and (hist["line"], hist["step"])), nontrivial=(p.n + p.m >= 3 or bool(hist)))

            def rep(extra=None):
                d = {"lp": p.text("replay"), "config": {a: b for a, b in cfg.items() if a != "_hist"},
                     "harness_line": "SOLVE x sync=%s %s" % (cfg.get("sync", "auto"), cfg_line({a: b for a, b in finish_cfg(cfg).items() if a != "sync"})),
                     "observed": {a: b for a, b in o.items() if not a.startswith("_")}, "family": p.family}
                if hist:
                    d.update({"lp": hist["lp0"], "history": hist["line"], "step": hist["step"], "lp_at_step": p.text("replay"), "hist_spec": hist["spec"],
                              "note": "the violation concerns solve number 'step' (from 0) of the history run on ONE SoPlex object; 'lp' is the LP entered first, "
                                      "'lp_at_step' the LP after the rational edits of the history up to that solve"})
                if extra:
                    d.update(extra)
                return d
            if "!badparam" in o["_id"]:
                ck.violation("bad-parameter", "a parameter of %s was rejected" % cfg, rep(), no_input=True)
            # (1) the rational LP is the LP that was entered, before and after the solve
            sync = cfg.get("sync", "auto")
            for which in ("in", "out"):
                got = rec.get(which)
                if got is None or (sync == "onlyreal" and which == "in"):
                    continue
                if got != want:
                    ck.violation("rational-lp-altered:%s:%s" % (which, "onlyreal-after-real-solve" if (sync == "onlyreal" and cfg.get("realfirst")) else tags),
                                 "the rational LP held by the object (%s the exact solve) is not the LP that was entered (sync mode %s%s): e.g. entered %s, held %s" % (
                                     "before" if which == "in" else "after", sync, ", after a floating-point solve of the same object" if cfg.get("realfirst") else "",
                                     first_diff(want, got)[0], first_diff(want, got)[1]),
                                 rep({"entered": want, "held": got}))
            altered = rec.get("out") is not None and rec.get("out") != want
            suffix = ":onlyreal-after-real-solve" if (altered and sync == "onlyreal" and cfg.get("realfirst")) else ""
            # (2) every verdict comes with a certificate the proved checker accepts
            if st == "OPTIMAL":
                ok = ans.get("%d.opt" % c) == "true"
                if not ok:
                    ck.violation("exact-optimal-rejected:%s%s" % (tags, suffix), "OPTIMAL from the exact solve, but (x, y) is rejected by check_opt_exact on the LP entered, under %s" % cfg,
                                 rep({"theorem": "Cert_Proofs.opt_cert_sound / RatGate_Proofs.gate_zero_is_optimal"}))
                else:
                    certified.setdefault("optimal", []).append(c)
                    if "brows" in o and not altered:
                        ck.opt_answers.append((p, o))
                    if ans.get("%d.all" % c) != "true":
                        ck.violation("exact-optimal-slack-redcost:%s%s" % (tags, suffix), "OPTIMAL: (x, y) is an exact certificate but slacks != A x or reduced costs != c - A^T y or a sign "
                                     "condition fails on the returned s, d (check_opt_tol with zero tolerances rejects) under %s" % cfg, rep())
                    if "objq" in o and "%d.val" % c in ans:
                        v, vv = Fraction(o["objq"]), Fraction(ans["%d.val" % c])
                        if v != vv:
                            mo = gate.get(("OBJ", str(c)), {}).get("model")
                            if mo is not None and Fraction(mo) == v and p.offset != 0:
                                ck.violation("objective-offset-omitted", "objValueRational() = %s but c.x + offset = %s: the objective offset %s is missing (the model of "
                                             "'sol._objVal = sol._primal * maxObj' gives %s; theorem C03_objective_offset_refuted)" % (v, vv, p.offset, mo), rep({"model_objval": mo}))
                            elif cfg.get("iterative_refinement", 1) == 0 or cfg.get("setfile") == "pure":
                                ck.violation("objective-value-not-computed:pure-boosting", "objValueRational() = %s (zero or a stale value of an earlier, inexact iterate) but c.x + offset "
                                             "= %s with iterative refinement off (%s): _solveRealForRationalStable / ...BoostedStable return from inside their loop when the "
                                             "tolerances are reached, before sol._objVal is set" % (v, vv, cfg), rep())
                            else:
                                ck.violation("objective-value-wrong:%s%s" % (tags, suffix), "objValueRational() = %s but c.x + offset = %s under %s" % (v, vv, cfg), rep())
                    gt = gate.get(("GATE", str(c)))
                    if gt:
                        ck.count("final-answer:gate-consistent=%s,zero=%s" % (gt.get("consistent"), gt.get("zero")))
                        if gt.get("consistent") == "1" and gt.get("zero") == "1" and gt.get("optexact") != "1":
                            ck.violation("gate-theorem-instance", "extracted model contradicts theorem gate_zero_is_optimal on a returned answer", rep(), no_input=True)
            elif st == "INFEASIBLE":
                far, neg = ans.get("%d.far" % c) == "true", ans.get("%d.farneg" % c) == "true"
                ck.count("farkas-sign:%s:%s" % ("max" if p.maxi else "min", "as-is" if far else ("negated" if neg else "invalid")))
                if not (far or neg):
                    ck.violation("exact-farkas-rejected:%s%s" % (tags, suffix), "INFEASIBLE from the exact solve, but neither getDualFarkasRational nor its negative is accepted by check_farkas "
                                 "(%s) under %s" % ("no vector" if "farkas" not in o else "rejected", cfg), rep({"theorem": "Cert_Proofs.farkas_sound"}))
                else:
                    certified.setdefault("infeasible", []).append(c)
                    # sign convention: y for minimisation, -y for maximisation (dual sign convention of the objective sense)
                    if (far and not neg and p.maxi) or (neg and not far and not p.maxi):
                        ck.violation("exact-farkas-sign-convention:%s" % ("max" if p.maxi else "min"),
                                     "the exact Farkas vector has the opposite sign of the documented convention for a %s problem under %s" % ("max" if p.maxi else "min", cfg), rep())
            elif st == "UNBOUNDED":
                okr, okf = ans.get("%d.ray" % c) == "true", ans.get("%d.feas" % c) == "true"
                if not (okr and okf):
                    ck.violation("exact-ray-rejected:%s:%s%s" % ("ray" if not okr else "point", tags, suffix), "UNBOUNDED from the exact solve, but %s under %s" % (
                        "getPrimalRayRational is rejected by check_ray" if not okr else "the primal vector offered with it is not feasible", cfg), rep({"theorem": "Cert_Proofs.ray_unbounded"}))
                else:
                    certified.setdefault("unbounded", []).append(c)
            elif st == "CRASH" and o.get("signal") == "14":
                # killed by the harness' alarm: the solve ran 40 s although its time limit is 8 s
                ck.count("hung-runs")
                if must_decide(cfg) or True:
                    ck.violation("undecided:HANG:%s" % tags, "the exact solve of a tiny LP did not return within 40 s although timelimit = 8 s, under %s" % cfg, rep({"kind": "hang"}))
            elif st == "CRASH":
                ck.count("crashed-runs")
                ck.violation("crash:%s" % tags, "the exact solve crashed (%s) under %s" % (" ".join("%s=%s" % (a, b) for a, b in o.items() if a in ("signal", "exit")), cfg), rep({"kind": "crash"}))
            elif st == "EXCEPTION":
                ck.violation("exception:%s" % tags, "the exact solve threw an exception under %s" % cfg, rep())
            else:
                if must_decide(cfg):
                    ck.violation("undecided:%s:%s" % (st, tags), "the exact solve ended with status %s under %s, a setting for which every LP has to be decided" % (st, cfg), rep())
                else:
                    ck.count("undecided-allowed:" + st)
        # (3) all certified verdicts of one LP agree (theorem verdicts_exclusive: anything else means a checker/extraction fault)
        if len(certified) > 1:
            ck.violation("verdict-conflict", "two different verdicts were certified for one LP: %s" % certified, {"lp": p.text("replay"), "configs": cfgs}, no_input=True)
        for cl in certified:
            ck.count("certified-class:" + cl)
        if not certified:
            ck.count("certified-class:none")
        if k < 3:
            ck.sample({"lp": p.text("e%d" % k), "configs": [cfg_line(c) for c in cfgs][:3],
                       "statuses": [obs[k].get("e%d.%d" % (k, c), {}).get("solve", {}).get("status") for c in range(len(cfgs))][:3]})


# --------------------------------------------------------------------------------------
# histories: several exact solves on ONE SoPlex object with option changes and rational edits in between
# --------------------------------------------------------------------------------------
H_EXTRA = {"forcebasic": [1], "ratfacjump": [1], "powerscaling": [0], "recovery_mechanism": [1], "acceptcycling": [1], "boosted_warm_start": [0],
           "simplifier": [0, 1], "scaler": [0, 1, 3, 5]}
H_DEFAULT = {"forcebasic": 0, "ratfacjump": 0, "powerscaling": 1, "recovery_mechanism": 0, "acceptcycling": 0, "boosted_warm_start": 1, "simplifier": 3, "scaler": 2}
H_DEN = [3, 7, 3, 7, 9, 21, 6, 11]


def gen_hist_lp(r, nmax):
    """LP with one-sided inequality rows and non-dyadic data (thirds, sevenths, ...) built around a positive rational point, so that
    the optimal vertex is not representable in double; mostly feasible and bounded"""
    def fr(lo=1, hi=9):
        return Fraction(r.randint(lo, hi), r.choice(H_DEN))
    n, m = r.randint(1, nmax), r.randint(1, nmax)
    x0 = [fr() for _ in range(n)]
    maxi = r.random() < 0.4
    cols = []
    for j in range(n):
        t = r.randrange(6)
        lo, up = Fraction(0), None
        if t == 0:
            up = x0[j] + fr()
        elif t == 1:
            lo = x0[j] * Fraction(r.randint(0, 2), 3)
        elif t == 2 and maxi:
            up = x0[j] * Fraction(r.randint(3, 6), 3)
        cols.append((fr(), lo, up))
    rows = []
    for i in range(m):
        co = {j: fr() for j in range(n) if r.random() < 0.7}
        if not co:
            co = {r.randrange(n): fr()}
        if r.random() < 0.15:
            j = r.choice(sorted(co))
            co[j] = -co[j]
        a = sum((v * x0[j] for j, v in co.items()), Fraction(0))
        t = r.randrange(20)
        if t < 9:
            lhs, rhs = a * Fraction(r.randint(1, 3), 3), None            # '>=' row
        elif t < 16:
            lhs, rhs = None, a * Fraction(r.randint(3, 6), 3)            # '<=' row
        elif t < 18:
            lhs = rhs = a
        else:
            lhs, rhs = a - fr(), a + fr()
        if lhs is not None and rhs is not None and lhs > rhs:
            lhs, rhs = rhs, lhs
        rows.append((lhs, co, rhs))
    return lpgen.LP(maxi, Fraction(r.choice([0, 0, 3, -5])) / r.choice([1, 2]), cols, rows, "hist")


def gen_history(r, p):
    """2-4 solves; per solve: eqtrans 0/1 and sometimes another exact-solver / presolve option, rational edits before the solve"""
    nsteps = r.randint(2, 4)
    steps = []
    q = lpgen.LP(p.maxi, p.offset, list(p.cols), [(l, dict(c), h) for (l, c, h) in p.rows], p.family)
    for k in range(nsteps):
        st = {"set": {"eqtrans": r.randrange(2)}, "edits": [], "real": False}
        for a, d in H_DEFAULT.items():
            st["set"][a] = d
        if r.random() < 0.35:
            a = r.choice(sorted(H_EXTRA))
            st["set"][a] = r.choice(H_EXTRA[a])
        if k > 0 and r.random() < 0.5:
            for _ in range(r.randint(1, 2)):
                w = r.randrange(10)
                if w < 5:
                    st["edits"].append(("obj", r.randrange(q.n), Fraction(r.randint(1, 9), r.choice(H_DEN))))
                elif w < 6:
                    st["edits"].append(("sense", None, None))
                elif w < 8:
                    i = r.randrange(q.m)
                    lhs, co, rhs = q.rows[i]
                    if lhs is not None and (rhs is None or r.random() < 0.5):
                        st["edits"].append(("lhs", i, lhs * Fraction(r.randint(1, 3), 3) if lhs > 0 else lhs - Fraction(1, 3)))
                    elif rhs is not None:
                        st["edits"].append(("rhs", i, rhs * Fraction(r.randint(3, 5), 3) if rhs > 0 else rhs + Fraction(1, 7)))
                else:
                    j = r.randrange(q.n)
                    o, lo, up = q.cols[j]
                    if up is not None:
                        st["edits"].append(("up", j, up + Fraction(1, 7)))
                    elif lo is not None:
                        st["edits"].append(("lo", j, lo * Fraction(1, 3)))
            apply_edits(q, st["edits"])
        if k > 0 and r.random() < 0.08:
            st["real"] = True
        steps.append(st)
    return {"sync": r.choice(["auto", "auto", "auto", "manual"]), "steps": steps}


def gen_tiny_cost_history(r):
    """two columns that are duplicates of each other up to a cost difference of 2^-k (far below double precision) in a covering row,
    solved exactly; then the bound at which the dearer column sits non-basic is REMOVED (the column becomes free, non-basic at
    zero) and the LP is solved again from the stored basis: the floating-point solver sees a zero reduced cost, only the exact
    optimality test of the rational factorization can tell that the basis is no longer optimal.  Mirrored over min / max, which
    bound is removed, the sign of the row, k, a common scale factor; sometimes with extra columns."""
    k = r.choice([60, 100, 160, 220, 400])
    eps = Fraction(1, 2 ** k)
    sc = Fraction(r.choice([1, 1, 2, 3]), r.choice([1, 1, 3, 7]))
    mirror = r.random() < 0.5            # x1 in (-inf, 0] with the upper bound removed instead of [0, inf) with the lower
    maxi = r.random() < 0.4
    U = Fraction(r.randint(4, 12))
    b = Fraction(r.randint(1, 3))
    sg = -1 if maxi else 1               # costs in the sense of the objective
    if not mirror:
        cols = [(sg * sc, Fraction(0), U), (sg * sc * (1 + eps), Fraction(0), None)]
        rows = [(b, {0: Fraction(1), 1: Fraction(1)}, None)]
        edit = ("lo", 1, "-inf")
    else:
        cols = [(-sg * sc, -U, Fraction(0)), (-sg * sc * (1 + eps), None, Fraction(0))]
        rows = [(None, {0: Fraction(1), 1: Fraction(1)}, -b)]
        edit = ("up", 1, "inf")
    if r.random() < 0.5:
        cols.append((sg * Fraction(r.randint(2, 5)), Fraction(0), Fraction(r.randint(1, 4))))
        rows[0][1][2] = Fraction(r.choice([1, 2]))
    if r.random() < 0.3:
        cols.append((Fraction(0), Fraction(0), None))
        rows.append((None, {0: Fraction(1), len(cols) - 1: Fraction(1)}, U + 3) if not mirror else (-U - 3, {0: Fraction(1), len(cols) - 1: Fraction(-1)}, None))
    p = lpgen.LP(maxi, Fraction(0), cols, rows, "hist-tiny-cost")
    opts = dict(H_DEFAULT, eqtrans=0)
    if r.random() < 0.3:
        opts["simplifier"] = 0
    steps = [{"set": dict(opts), "edits": [], "real": False}, {"set": dict(opts), "edits": [edit], "real": False}]
    if r.random() < 0.4:
        steps.append({"set": dict(opts, eqtrans=r.randrange(2)), "edits": [("obj", 0, cols[0][0] * (1 + 3 * eps))], "real": False})
    return p, {"sync": "auto", "steps": steps, "tag": "tinycost2^-%d" % k}


def apply_edits(q, edits):
    for (kind, idx, v) in edits:
        if kind == "obj":
            o, lo, up = q.cols[idx]
            q.cols[idx] = (Fraction(v), lo, up)
        elif kind == "lo":
            o, lo, up = q.cols[idx]
            q.cols[idx] = (o, None if v in ("-inf", None) else Fraction(v), up)
        elif kind == "up":
            o, lo, up = q.cols[idx]
            q.cols[idx] = (o, lo, None if v in ("inf", None) else Fraction(v))
        elif kind == "lhs":
            lhs, co, rhs = q.rows[idx]
            q.rows[idx] = (Fraction(v), co, rhs)
        elif kind == "rhs":
            lhs, co, rhs = q.rows[idx]
            q.rows[idx] = (lhs, co, Fraction(v))
        elif kind == "sense":
            q.maxi = not q.maxi
        elif kind == "rmcol":
            # removeCol: the last column moves into the hole
            last = len(q.cols) - 1
            q.cols[idx] = q.cols[last]
            q.cols.pop()
            for r_ in range(len(q.rows)):
                lhs, co, rhs = q.rows[r_]
                co = dict(co)
                co.pop(idx, None)
                if last != idx and last in co:
                    co[idx] = co.pop(last)
                q.rows[r_] = (lhs, co, rhs)
        elif kind == "qbind":
            pass


def gen_cache_histories(r):
    """exact solve with forced basic solutions, then an edit that leaves the optimal basis optimal (a non-binding bound relaxed,
    the objective scaled, a NON-LAST column removed - the last column then takes its number), optionally a query of the rational
    basis inverse, and a second exact solve that needs no pivot: the rational factorization cached between the two solves
    must be the one of the basis in the order the solve expects, or be recomputed.  One history per removable column."""
    p = gen_hist_lp(r, r.randint(2, 4))
    opts = dict(H_DEFAULT, eqtrans=0, forcebasic=1)
    if r.random() < 0.5:
        opts["ratrec"] = 0
    if r.random() < 0.4:
        opts["simplifier"] = 0
    out = []
    variants = [("rmcol", j) for j in range(p.n - 1)] + [("relax", None)]
    for (kind, j) in variants:
        steps = [{"set": dict(opts), "edits": [], "real": False}]
        q = lpgen.LP(p.maxi, p.offset, list(p.cols), [(l, dict(c), h) for (l, c, h) in p.rows], p.family)
        eds = []
        if kind == "rmcol":
            eds.append(("rmcol", j, 0))
        elif r.random() < 0.5:
            jj = r.randrange(q.n)
            o, lo, up = q.cols[jj]
            eds.append(("up", jj, up + Fraction(1, 7)) if up is not None else ("obj", jj, o * Fraction(r.randint(4, 9), 3)))
        else:
            eds += [("obj", jj, q.cols[jj][0] * 2) for jj in range(q.n)]
        if r.random() < 0.8:
            eds.append(("qbind", 0, 0))
        apply_edits(q, eds)
        steps.append({"set": dict(opts), "edits": eds, "real": False})
        if r.random() < 0.3:
            steps.append({"set": dict(opts), "edits": [("qbind", 0, 0)], "real": False})
        out.append((p, {"sync": "auto", "steps": steps, "tag": "cache"}))
    return out


def hist_line(tag, spec):
    out = ["HIST", tag, "sync=%s" % spec["sync"], "timelimit=%d" % TIMELIMIT]
    for st in spec["steps"]:
        out.append("|")
        out += ["%s=%s" % (a, b) for a, b in sorted(st["set"].items())]
        for (kind, idx, v) in st["edits"]:
            out.append("sense:%s" % v if kind == "sense" else "%s:%d:%s" % (kind, idx, v if v in ("inf", "-inf") else qs(v)))
        if st["real"]:
            out.append("mode:real")
    return " ".join(out)


def run_histories(ck, exe, cert, model, items):
    """items: [(LP, spec)]; every exact solve of every history is judged exactly like a single solve (e2e_judge), against the LP as
    it stands after the edits made so far; in addition the private range types and the LP held are compared after every step"""
    text = ""
    plan = []
    for h, (p0, spec) in enumerate(items):
        q = lpgen.LP(p0.maxi, p0.offset, list(p0.cols), [(l, dict(c), hh) for (l, c, hh) in p0.rows], p0.family)
        # the 'sense' edit carries the new sense in the harness line
        steps = []
        for st in spec["steps"]:
            eds = []
            for (kind, idx, v) in st["edits"]:
                if kind == "sense":
                    eds.append(("sense", None, "min" if q.maxi else "max"))
                    q.maxi = not q.maxi
                else:
                    eds.append((kind, idx, v if v in ("inf", "-inf") else Fraction(v)))
                    apply_edits(q, [(kind, idx, v)])
            steps.append({"set": st["set"], "edits": eds, "real": st["real"],
                          "lp": lpgen.LP(q.maxi, q.offset, list(q.cols), [(l, dict(c), hh) for (l, c, hh) in q.rows], q.family)})
        line = hist_line("h%d" % h, {"sync": spec["sync"], "steps": steps})
        text += p0.text("h%d" % h) + "\n" + line + "\n"
        plan.append((p0, spec, steps, line))
    rc, out, err = run_parallel(exe, text, ck.pid + "-hist")
    B = lpgen.blocks(out)
    jobs, obs = [], {}
    for h, (p0, spec, steps, line) in enumerate(plan):
        lines = B.get("h%d" % h, [])
        recs = parse_solve(lines)
        crash = [l for l in lines if l.startswith("HISTCRASH ")]
        before = set()
        crashed_reported = False
        ck.count("histories")
        for k, st in enumerate(steps):
            cfg = {a: b for a, b in st["set"].items() if DEFAULTS.get(a, H_DEFAULT.get(a)) != b}
            cfg["sync"] = spec["sync"]
            cfg["_hist"] = {"step": k, "before": sorted(before) or ["plain"], "line": line, "lp0": p0.text("replay"), "tag": spec.get("tag"),
                            "spec": {"sync": spec["sync"], "tag": spec.get("tag"), "steps": [{"set": s2["set"], "edits": [(a, b, None if c is None else str(c)) for (a, b, c) in s2["edits"]], "real": s2["real"]} for s2 in spec["steps"]]}}
            rec = dict(recs.get("h%d.%d" % (h, k), {}))
            J = len(jobs)
            ck.count("history-steps:%s" % ("real" if st["real"] else "exact"))
            if not rec and crash and not crashed_reported:
                crashed_reported = True
                sig = lpgen.parse_kv(crash[0])
                rec = {"solve": {"_tag": "SOLVE", "_id": "h%d.%d" % (h, k), "status": "CRASH", "signal": sig.get("signal", ""), "exit": sig.get("exit", "")}}
            if "in" in rec:
                del rec["in"]
            jobs.append((st["lp"], [cfg]))
            obs[J] = {"e%d.0" % J: rec}
            if st["set"].get("eqtrans") == 1:
                before.add("eqtrans")
            if st["real"]:
                before.add("real")
    # block ids must be those of the jobs: e2e_judge addresses LP k as "e<k>"
    e2e_judge(ck, cert, model, jobs, obs)


def first_diff(a, b):
    ta, tb = a.split(";"), b.split(";")
    for u, v in zip(ta, tb):
        if u != v:
            return u, v
    return (ta[len(tb):] or ["-"])[0], (tb[len(ta):] or ["-"])[0]


def load_corpus():
    """corpus/C03/*.lp: LP block (harness format) + lines 'CFG k=v ...' (one configuration each)"""
    d = os.path.join(vlib.ROOT, "corpus", "C03")
    out = []
    if not os.path.isdir(d):
        return out
    for f in sorted(os.listdir(d)):
        if not f.endswith(".lp"):
            continue
        cols, rows, cfgs, head = [], [], [], None
        for l in open(os.path.join(d, f)):
            t = l.split()
            if not t or t[0].startswith("#"):
                continue
            if t[0] == "LP":
                head = t
            elif t[0] == "C":
                cols.append((Fraction(t[1]), lpgen.fr(t[2]), lpgen.fr(t[3])))
            elif t[0] == "R":
                rows.append((lpgen.fr(t[1]), {int(e.split(":")[0]): Fraction(e.split(":")[1]) for e in t[3:]}, lpgen.fr(t[2])))
            elif t[0] == "CFG":
                cfg = {}
                for kv in t[1:]:
                    k, v = kv.split("=")
                    cfg[k] = int(v) if v.lstrip("-").isdigit() else v
                cfgs.append(cfg)
        if head:
            out.append((lpgen.LP(head[2] == "max", Fraction(head[3]), cols, rows, "corpus:" + f[:-3]), cfgs))
    return out


def main():
    ck = vlib.Check("C03", "proof")
    ck.opt_answers = []
    ck.prove()
    exe = vlib.build_harness("C03")
    model = vlib.build_model("C03")
    cert = vlib.build_model("C01")
    r = ck.rng
    quick = ck.tier == "quick"
    if ck.args.replay:
        rp = json.load(open(ck.args.replay))
        if "lp" in rp and "config" in rp:
            d = os.path.join(vlib.BUILD, "run")
            os.makedirs(d, exist_ok=True)
            f = os.path.join(d, "C03-replay.%d.lp" % os.getpid())
            open(f, "w").write(rp["lp"] + "\n")
            # reuse the corpus reader
            cols, rows, head = [], [], None
            for l in open(f):
                t = l.split()
                if not t:
                    continue
                if t[0] == "LP":
                    head = t
                elif t[0] == "C":
                    cols.append((Fraction(t[1]), lpgen.fr(t[2]), lpgen.fr(t[3])))
                elif t[0] == "R":
                    rows.append((lpgen.fr(t[1]), {int(e.split(":")[0]): Fraction(e.split(":")[1]) for e in t[3:]}, lpgen.fr(t[2])))
            os.remove(f)
            p = lpgen.LP(head[2] == "max", Fraction(head[3]), cols, rows, "replay")
            if "hist_spec" in rp:
                spec = {"sync": rp["hist_spec"]["sync"],
                        "steps": [{"set": st["set"], "real": st["real"], "edits": [(a, b, None if a == "sense" else (c if c in ("inf", "-inf") else Fraction(c))) for (a, b, c) in st["edits"]]}
                                  for st in rp["hist_spec"]["steps"]], "tag": rp["hist_spec"].get("tag")}
                run_histories(ck, exe, cert, model, [(p, spec)])
            else:
                e2e(ck, exe, cert, model, [(p, [rp["config"]])])
        ck.finish()
    # ---- (o) the source the verdict automaton models
    hs = verdict_source_hashes()
    ck.cov["verdict_logic_source"] = hs
    for name, h in hs.items():
        if h != VERDICT_SOURCE[name]:
            ck.violation("verdict-logic-source-changed:" + name,
                         "the code of %s differs from the text the verdict automaton of coq/RatGateModel.v was written for (hash %s, expected %s): theorem "
                         "C03_verdict_automaton_sound no longer speaks about this tree until the model is re-read against it" % (name, h, VERDICT_SOURCE[name]),
                         {"kind": "correspondence", "function": name, "theorem": "C03_verdict_automaton_sound"}, no_input=True)
    # ---- (i) kernels
    if quick:
        kernel_part(ck, exe, model, nlp=60, per_lp=8, nmax=7)
    else:
        kernel_part(ck, exe, model, nlp=500, per_lp=12, nmax=12)
    # ---- (ii) end to end
    nmax = 10 if quick else 25
    nlp = 70 if quick else 400
    corpus = load_corpus()
    lps = [c[0] for c in corpus] + [gen_rational_lp(r, nmax) for _ in range(nlp)]
    # the refutation witness of Properties_C03.v (objective offset) goes first
    witness = lpgen.LP(False, Fraction(100), [(Fraction(1), Fraction(0), None), (Fraction(2), Fraction(0), None)],
                       [(Fraction(2), {0: Fraction(1), 1: Fraction(1)}, None)], "offset-witness")
    arr = covering_array(r, SPACE)
    ck.count("covering-array-rows", len(arr))
    jobs = []
    ai = 0
    per = 2 if quick else 6
    nrand = 3 if quick else 8
    lps.insert(0, witness)
    for k, p in enumerate(lps):
        cfgs = [{}]                                           # default options, SYNCMODE_AUTO
        if 0 < k <= len(corpus):
            cfgs += corpus[k - 1][1]
        if k % 3 == 0:
            cfgs.append({"setfile": "exact"})
        if k % 3 == 1:
            cfgs.append({"setfile": "pure"})
        for _ in range(per):
            cfgs.append({a: b for a, b in arr[ai % len(arr)].items() if DEFAULTS.get(a) != b})
            ai += 1
        for _ in range(nrand):
            cfg = {b: r.randrange(2) for b in BOOLS if r.random() < 0.5}
            cfg.update({"simplifier": r.choice([0, 1, 3]), "scaler": r.randrange(7), "sync": r.choice(["auto", "manual"])})
            if r.random() < 0.15:
                cfg["iterative_refinement"] = 0
                cfg["precision_boosting"] = 1
            cfgs.append({a: b for a, b in cfg.items() if DEFAULTS.get(a) != b})
        if is_dyadic(p):
            cfgs.append({"sync": "onlyreal"})
            if k % 2 == 0:
                # a floating-point solve of the same object first (DESIGN section 9 #8)
                cfgs.append({"sync": "onlyreal", "realfirst": 1})
                cfgs.append({"sync": "auto", "realfirst": 1})
        jobs.append((p, cfgs))
    # every row of the covering array is used at least once
    k = 0
    while ai < len(arr):
        jobs[k % len(jobs)][1].append({a: b for a, b in arr[ai].items() if DEFAULTS.get(a) != b})
        ai += 1
        k += 1
    ck.count("e2e-solves-planned", sum(len(c) for _, c in jobs))
    e2e(ck, exe, cert, model, jobs)
    if not quick:
        # all 2^13 settings of the exact-solver booleans on three tiny LPs (optimal / infeasible / unbounded, data 1/3, 1/10)
        F = Fraction
        tiny = [lpgen.LP(False, F(1, 2), [(F(1, 3), F(0), None), (F(2), F(0), F(7, 3))], [(F(2), {0: F(1), 1: F(1, 10)}, None), (None, {0: F(1, 3), 1: F(-1)}, F(5))], "tiny-optimal"),
                lpgen.LP(True, F(0), [(F(1), F(0), F(1, 3)), (F(1), None, F(1, 10))], [(F(1), {0: F(1), 1: F(1)}, None)], "tiny-infeasible"),
                lpgen.LP(True, F(0), [(F(1, 3), F(0), None), (F(-1), F(0), F(4))], [(None, {0: F(-1, 10), 1: F(1)}, F(7, 3))], "tiny-unbounded")]
        alljobs = []
        for p in tiny:
            cfgs = []
            for mask in range(1 << len(BOOLS)):
                cfg = {b: (mask >> i) & 1 for i, b in enumerate(BOOLS)}
                cfgs.append({a: b for a, b in cfg.items() if DEFAULTS.get(a) != b})
            alljobs.append((p, cfgs))
        ck.count("e2e-solves-planned", sum(len(c) for _, c in alljobs))
        e2e(ck, exe, cert, model, alljobs)
    # ---- (iii) histories on one object
    nh = 90 if quick else 1500
    items = []
    for _ in range(nh):
        p0 = gen_hist_lp(r, 4 if quick else 8)
        items.append((p0, gen_history(r, p0)))
    # the shape of the smallest LP on which a stale row type shows: min x s.t. 1/3 x >= 1/7, eqtrans on, then off
    items.insert(0, (lpgen.LP(False, Fraction(0), [(Fraction(1), Fraction(0), None)], [(Fraction(1, 7), {0: Fraction(1, 3)}, None)], "hist"),
                     {"sync": "auto", "steps": [{"set": dict(H_DEFAULT, eqtrans=1), "edits": [], "real": False}, {"set": dict(H_DEFAULT, eqtrans=0), "edits": [], "real": False},
                                                {"set": dict(H_DEFAULT, eqtrans=1), "edits": [("obj", 0, Fraction(2, 7))], "real": False}]}))
    # more inequality rows than columns, equality transformation on, then off: the slack columns of the first solve must be forgotten
    # (witness of the defect repaired in /repo 'fix: _untransformEquality forgets the slack columns': 1 column, 7 rows)
    F = Fraction
    tall = lpgen.LP(False, F(0), [(F(1, 3), F(0), F(11, 21))],
                    [(F(25, 189), {0: F(5, 3)}, None), (None, {0: F(1, 7)}, F(20, 441)), (F(10, 77), {0: F(6, 11)}, None), (F(10, 441), {0: F(2, 7)}, None),
                     (None, {0: F(1, 9)}, F(5, 189)), (None, {0: F(-8, 7)}, F(-160, 441)), (F(10, 1323), {0: F(2, 21)}, None)], "hist")
    items.insert(1, (tall, {"sync": "auto", "steps": [{"set": dict(H_DEFAULT, eqtrans=1), "edits": [], "real": False},
                                                      {"set": dict(H_DEFAULT, eqtrans=0, boosted_warm_start=0), "edits": [], "real": False},
                                                      {"set": dict(H_DEFAULT, eqtrans=1), "edits": [], "real": False}]}))
    for k in range(6 if quick else 60):
        n = r.randrange(1, 3)
        m = r.randrange(n + 2, n + 7)
        cols = [(F(r.randrange(-3, 4), r.choice([1, 3, 7])), F(0), (F(r.randrange(1, 20), r.choice([1, 3, 21])) if r.random() < 0.5 else None)) for _ in range(n)]
        rows = []
        for _ in range(m):
            co = {j: F(r.choice([-8, -3, -1, 1, 2, 5, 6]), r.choice([1, 3, 7, 9, 11])) for j in range(n) if r.random() < 0.8}
            if not co:
                co = {0: F(1, 3)}
            b = F(r.randrange(-20, 40), r.choice([1, 7, 9, 21]))
            rows.append((b, co, None) if r.random() < 0.5 else (None, co, b))
        p0 = lpgen.LP(r.random() < 0.5, F(0), cols, rows, "hist")
        items.append((p0, {"sync": "auto", "steps": [{"set": dict(H_DEFAULT, eqtrans=1), "edits": [], "real": False},
                                                     {"set": dict(H_DEFAULT, eqtrans=0, boosted_warm_start=r.randrange(2)), "edits": [], "real": False},
                                                     {"set": dict(H_DEFAULT, eqtrans=r.randrange(2)), "edits": [], "real": False}]}))
    for _ in range(14 if quick else 200):
        items.append(gen_tiny_cost_history(r))
    for _ in range(24 if quick else 400):
        items += gen_cache_histories(r)
    run_histories(ck, exe, cert, model, items)
    kernel_from_answers(ck, exe, model, ck.opt_answers, 60 if quick else 600)
    ck.cov["rule"] = ("(i) kernel cases: an LP with rational data (fractions 1/3, 1/10, ..., zero bounds, all range types) + rational vectors x, s, y, d (on/off bounds, "
                      "consistent or perturbed) + basis status arrays (all six statuses) + optional overridden range-type arrays + tolerances / minIRRoundsRemaining / "
                      "numFailedRefinements / limits, compared exactly with the extracted model; (ii) end-to-end cases: (LP, setting) with LPs <= %dx%d from the "
                      "vertex / infeasible / unbounded / random families made rational by positive row and column scalings and variable shifts (fractions, and "
                      "ratios up to 1e6..1e-6 that trigger lifting), settings = default, the two shipped exact settings files, a pairwise covering array over the 13 "
                      "exact-solver booleans x simplifier x scaler x sync mode (%d rows), random settings, SYNCMODE_ONLYREAL on dyadic LPs, and a floating-point solve "
                      "before the exact solve; non-trivial when rows+columns >= 3 (>= 2 for kernel cases)" % (nmax, nmax, len(arr)))
    ck.cov["trusted_base"] = ["Coq 8.16.1 kernel; theorems of Properties_C03.v closed under the global context",
                              "extraction (ExtrOcamlBasic) + extract/C03/driver.ml and extract/C01/driver.ml (zarith for parsing/printing rationals)",
                              "harness/C03.cpp (rational interface of SoPlexBase<double>; private kernels and members reached with -fno-access-control)",
                              "checks/C03.py, checks/lpgen.py (generation, orchestration, naming of violations; the value c.x + offset handed to check_opt_tol is "
                              "recomputed by the extracted 'objective')",
                              "SoPlex itself is the UNTRUSTED producer of all certificates: a verdict counts only if check_opt_exact / check_farkas / feasible_b + check_ray accept"]
    ck.assumptions = ["the floating-point inner solves, rational reconstruction, rational LU and the LP reformulations (lifting, equality form, feasibility and "
                      "unboundedness problems) are witness producers and are not modelled; their results are validated per run",
                      "Farkas convention: for a minimisation problem y itself, for a maximisation problem -y is the certificate (y_i > 0 weights the left-hand side)",
                      "'always decides' is checked for default options, the shipped exact settings files and settings that keep RATREC or RATFAC; settings with both off "
                      "run under reflimit=%d and only their verdicts are judged" % REFLIMIT,
                      "an 'inf' bound is +-1e100 (the default INFTY parameter)"]
    ck.finish()


if __name__ == "__main__":
    main()
