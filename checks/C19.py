#!/usr/bin/env python3
"""C19 - containers and sparse vectors behave as their abstract data types.

prove (Properties_C19: invariants / refinement of the DataSet representation, sparse-vector algebra) + correspondence of
the extracted models with the real classes on operation sequences: bounded-exhaustive short sequences and random long
ones, every observable compared after every step."""
import itertools
import json
import os
import sys

sys.path.insert(0, os.path.dirname(os.path.dirname(os.path.abspath(__file__))))
import vlib

HARNESSES = ["C19"]
MODEL = True


# ----------------------------------------------------------------------------------------------------------
# running cases
# ----------------------------------------------------------------------------------------------------------

def write_cases(path, cases, first=0):
    with open(path, "w") as f:
        for k, c in enumerate(cases):
            f.write("CASE %d %s\n" % (first + k, c["kind"]))
            for op in c["ops"]:
                f.write(op + "\n")


def blocks(out):
    res, cur = [], None
    for l in out.splitlines():
        if l.startswith("CASE "):
            cur = []
            res.append(cur)
        elif cur is not None:
            cur.append(l)
    return res


def run_harness(exe, cases, tag, timeout=600):
    """returns list (one per case) of (lines, status) with status in ok / crash:<rc> / hang; a crash or hang ends that
    case only: the run is restarted after it."""
    res = []
    start = 0
    rundir = os.path.join(vlib.BUILD, "run")
    os.makedirs(rundir, exist_ok=True)
    while start < len(cases):
        path = os.path.join(rundir, "C19.%d.%s.cases" % (os.getpid(), tag))
        write_cases(path, cases[start:], start)
        rc, out, err = vlib.sh([exe, "run", path], timeout=timeout)
        os.remove(path)
        bl = blocks(out)
        if rc == 0 and len(bl) == len(cases) - start:
            res += [(b, "ok") for b in bl]
            break
        # the last block started is the one that died
        if not bl:
            res.append(([], "crash:%d" % rc))
            start += 1
            continue
        for b in bl[:-1]:
            res.append((b, "ok"))
        last = bl[-1]
        st = "hang" if (last and last[-1] == "HANG") or rc == 124 else "crash:%d" % rc
        res.append(([l for l in last if l != "HANG"], st))
        start += len(bl)
    return res


def run_model(model, cases, tag, timeout=900):
    rundir = os.path.join(vlib.BUILD, "run")
    os.makedirs(rundir, exist_ok=True)
    path = os.path.join(rundir, "C19.%d.%s.mcases" % (os.getpid(), tag))
    write_cases(path, cases)
    rc, out, err = vlib.sh([model, path], timeout=timeout)
    os.remove(path)
    return rc, blocks(out), err


def fields(line):
    """'op ret=.. a=.. b=..' -> (op, dict)"""
    t = line.split(" ")
    d = {}
    for x in t[1:]:
        if "=" in x:
            k, v = x.split("=", 1)
            d[k] = v
    return t[0], d


def lst(s):
    return [x for x in s.split(",") if x != ""]


# ----------------------------------------------------------------------------------------------------------
# DataSet / ClassSet: the property itself, evaluated on the observations of the implementation alone
# (independent of the model's choice of keys and of the free-list order)
# ----------------------------------------------------------------------------------------------------------

def set_state(d):
    return {"num": int(d["num"]), "max": int(d["max"]), "size": int(d["size"]), "keys": [int(x) for x in lst(d["keys"])],
            "elems": [int(x) for x in lst(d["elems"])], "slots": lst(d["slots"]), "bykey": lst(d["bykey"])}


def a_remove(a, n):
    if 0 <= n < len(a):
        a = list(a)
        last = a.pop()
        if n < len(a):
            a[n] = last
    return a


def set_oracle(prev, op, ret, new):
    """prev/new: parsed states of the implementation before/after op (strings of the case file).  Returns a list of
    violated clauses of the property (empty = the step behaves as the abstract data type)."""
    bad = []
    a = list(zip(prev["keys"], prev["elems"]))
    b = list(zip(new["keys"], new["elems"]))
    t = op.split()
    c, args = t[0], [int(x) for x in t[1:]]
    # structural clauses: dense numbering, key <-> number bijection, lookup by key
    if len(new["keys"]) != new["num"] or len(new["elems"]) != new["num"]:
        bad.append("dense-numbering")
    if len(set(new["keys"])) != len(new["keys"]):
        bad.append("duplicate-key")
    for n, k in enumerate(new["keys"]):
        if not (0 <= k < len(new["slots"])) or new["slots"][k] != str(n):
            bad.append("number(key(n))!=n")
            break
        if new["bykey"][k] != str(new["elems"][n]):
            bad.append("element-by-key!=element-by-number")
            break
    if sum(1 for x in new["slots"] if x != "x") != new["num"]:
        bad.append("has(key)-for-a-removed-key")
    if bad:
        return bad
    exp = a
    if ret == "skip":
        exp = a
    elif c == "add":
        k = int(ret.split(":")[1])
        if k in prev["keys"]:
            bad.append("key-handed-out-twice")
        exp = a + [(k, args[0])]
    elif c == "addn":
        ks = [int(x) for x in lst(ret.split(":")[1])]
        if len(set(ks)) != len(ks) or set(ks) & set(prev["keys"]):
            bad.append("key-handed-out-twice")
        exp = a + list(zip(ks, args))
    elif c == "rm":
        exp = a_remove(a, args[0])
    elif c == "rmk":
        if args[0] in prev["keys"]:
            if ret == "exc":
                bad.append("exception-for-a-valid-key")
            exp = a_remove(a, prev["keys"].index(args[0]))
    elif c in ("rmp", "rmn", "rmkn"):
        if c == "rmp":
            perm = [(args[k] if k < len(args) else 0) for k in range(len(a))]
        elif c == "rmn":
            perm = [(-1 if k in args else k) for k in range(len(a))]
        else:
            perm = [(-1 if a[k][0] in args else k) for k in range(len(a))]
        exp = [e for p, e in zip(perm, a) if p >= 0]
        want, j = [], 0
        for p in perm:
            if p >= 0:
                want.append(j)
                j += 1
            else:
                want.append(p)
        got = [int(x) for x in lst(ret.split(":")[1])] if ret.startswith("perm:") else None
        if got != want:
            bad.append("perm-does-not-report-the-moves")
    elif c == "clear":
        exp = []
    elif c == "set":
        if 0 <= args[0] < len(a):
            exp = list(a)
            exp[args[0]] = (a[args[0]][0], args[1])
    elif c in ("remax", "copy", "assign"):
        exp = a
        if c == "remax" and new["max"] != max(args[0], prev["size"]):
            bad.append("max()-after-reMax")
    if exp != b:
        bad.append({"add": "insertion", "addn": "insertion", "rm": "single-removal", "rmk": "removal-by-key",
                    "rmp": "removal-by-permutation", "rmn": "removal-by-list", "rmkn": "removal-by-key-list",
                    "clear": "clear", "set": "element-write", "remax": "reMax-loses-elements", "copy": "copy-differs",
                    "assign": "assignment-differs"}.get(c, c))
    return bad


ORACLES = {"ds": (set_state, set_oracle), "cs": (set_state, set_oracle)}


# ----------------------------------------------------------------------------------------------------------
# generators
# ----------------------------------------------------------------------------------------------------------

def set_alphabet(m):
    """operation alphabet for the bounded-exhaustive family over a universe of m elements"""
    al = ["add", "rm 0", "rm 1", "rm %d" % (m - 1), "rmk 0", "rmk 1", "rmk %d" % (m - 1), "clear", "remax %d" % (m + 2), "remax 0",
          "copy", "assign 1", "assign %d" % (m + 1), "rmp -1", "rmp 0 -1", "rmp -1 5 -1", "rmp 3 -1 -1", "rmn 0", "rmn 1 0",
          "rmkn 0", "rmkn 2 1", "addn V V", "set 0 V"]
    return al


def fill_values(ops):
    """replace the placeholder V / bare add by distinct element values"""
    out, v = [], 10
    for op in ops:
        if op == "add":
            op = "add %d" % v
            v += 1
        while "V" in op:
            op = op.replace("V", str(v), 1)
            v += 1
        out.append(op)
    return out


def set_exhaustive(kind, m, length, prefixes, alphabet):
    for pre in prefixes:
        for seq in itertools.product(alphabet, repeat=length):
            yield {"kind": "%s %d" % (kind, m), "ops": fill_values(list(pre) + list(seq)), "family": "exhaustive"}


def set_random(rng, kind, nops, nocopy=False):
    m = rng.choice([1, 2, 3, 4, 8])
    ops = []
    v = 100
    for _ in range(nops):
        r = rng.random()
        n = rng.randrange(0, 12)
        if r < 0.38:
            ops.append("add %d" % v)
            v += 1
        elif r < 0.43:
            k = rng.randrange(1, 5)
            ops.append("addn " + " ".join(str(v + i) for i in range(k)))
            v += k
        elif r < 0.55:
            ops.append("rm %d" % rng.choice([n, 0, rng.randrange(-1, 30)]))
        elif r < 0.63:
            ops.append("rmk %d" % rng.choice([n, rng.randrange(-1, 30)]))
        elif r < 0.71:
            ops.append("rmp " + " ".join(str(rng.choice([-1, -1, 0, 1, 7, -3])) for _ in range(rng.randrange(0, 30))))
        elif r < 0.76:
            ops.append("rmn " + " ".join(str(rng.randrange(0, 10)) for _ in range(rng.randrange(0, 4))))
        elif r < 0.80:
            ops.append("rmkn " + " ".join(str(rng.randrange(0, 12)) for _ in range(rng.randrange(0, 4))))
        elif r < 0.82:
            ops.append("clear")
        elif r < 0.91:
            ops.append("remax %d" % rng.choice([0, n, rng.randrange(0, 40), rng.randrange(0, 40)]))
        elif r < 0.95:
            ops.append("set %d %d" % (n, v))
            v += 1
        elif r < 0.975:
            ops.append("remax 0" if nocopy else "copy")
        else:
            ops.append("assign %d" % rng.randrange(0, 20))
    return {"kind": "%s %d" % (kind, m), "ops": ops, "family": "random"}


def generate(ck):
    rng = ck.rng
    quick = ck.tier == "quick"
    cases = []
    # corpus first
    cdir = os.path.join(vlib.ROOT, "corpus", "C19")
    if os.path.isdir(cdir):
        for f in sorted(os.listdir(cdir)):
            ls = [l.rstrip("\n") for l in open(os.path.join(cdir, f)) if l.strip() and not l.startswith("#")]
            if ls:
                cases.append({"kind": ls[0], "ops": ls[1:], "family": "corpus"})
    # bounded-exhaustive DataSet / ClassSet: universe of 3 elements
    al = set_alphabet(3)
    pre3 = [[], ["add", "add", "add"], ["add", "add", "add", "rm 0"], ["add", "add", "add", "rmp 0 -1 0"]]
    for kind in ("ds", "cs"):
        if quick:
            sub = [a for a in al if a not in ("remax 0", "assign 1", "rmkn 0", "rmn 0", "rm 2")]
            if kind == "cs":
                sub = rng.sample(sub, 9)
            cases += list(set_exhaustive(kind, 3, 3, pre3, sub))
            cases += list(set_exhaustive(kind, 3, 2, pre3, al))
        else:
            cases += list(set_exhaustive(kind, 3, 4, pre3, [a for a in al if a not in ("remax 0", "assign 1", "rmkn 0")]))
            cases += list(set_exhaustive(kind, 3, 3, pre3, al))
    nr = 150 if quick else 4000
    for i in range(nr):
        kind = "ds" if i % 2 == 0 else "cs"
        cases.append(set_random(rng, kind, rng.randrange(5, 300), nocopy=(kind == "cs" and i % 4 == 1)))
    return cases


# ----------------------------------------------------------------------------------------------------------
# comparison, classification, shrinking
# ----------------------------------------------------------------------------------------------------------

def first_mismatch(case, hl, hstat, ml):
    """index j of the first line (0 = init) on which implementation and model differ, or None.  A crash / hang of the
    implementation counts as a mismatch at the first missing line."""
    n = len(case["ops"]) + 1
    for j in range(n):
        if j >= len(ml):
            return None            # model did not run that far (should not happen)
        if j >= len(hl):
            return j if hstat != "ok" else None
        if hl[j] != ml[j]:
            return j
    return None


def diff_fields(h, m):
    _, hd = fields(h)
    _, md = fields(m)
    return [k for k in md if hd.get(k) != md.get(k)]


def judge(case, hl, hstat, ml, j):
    """classify the mismatch at line j: (signature, text, property_clauses)"""
    kind = case["kind"].split()[0]
    op = case["ops"][j - 1] if j > 0 else "init"
    opn = op.split()[0]
    if j >= len(hl):
        return "%s:%s:%s" % (kind, opn, hstat.split(":")[0]), "the implementation %s in %r" % (hstat, op), [hstat]
    df = diff_fields(hl[j], ml[j])
    clauses = None
    if kind in ORACLES and j > 0:
        parse, oracle = ORACLES[kind]
        try:
            prev = parse(fields(hl[j - 1])[1])
            new = parse(fields(hl[j])[1])
            clauses = oracle(prev, op, fields(hl[j])[1].get("ret", ""), new)
        except (KeyError, ValueError, IndexError) as e:
            clauses = ["unparsable-observation"]
    sig = "%s:%s:%s" % (kind, opn, ",".join(df[:3]))
    return sig, "implementation and model disagree after %r in fields %s" % (op, df), clauses


class Runner:
    def __init__(self, exe, model):
        self.exe, self.model = exe, model
        self.n = 0

    def both(self, cases, tag):
        self.n += 1
        h = run_harness(self.exe, cases, tag + str(self.n))
        rc, m, err = run_model(self.model, cases, tag + str(self.n))
        return h, rc, m, err

    def fails(self, case, sigkind):
        """does this (candidate, shrunk) case still show a mismatch of the same operation kind?"""
        h, rc, m, err = self.both([case], "s")
        if rc != 0 or not m:
            return None
        hl, hstat = h[0]
        j = first_mismatch(case, hl, hstat, m[0])
        if j is None:
            return None
        sig, what, clauses = judge(case, hl, hstat, m[0], j)
        if sig.split(":")[:2] != sigkind.split(":")[:2]:
            return None
        return (j, hl, hstat, m[0])

    def shrink(self, case, j, sig, budget=120):
        """delta debugging on the operation list (operations after the failing one are dropped first)"""
        cur = {"kind": case["kind"], "ops": case["ops"][:j], "family": case.get("family")}
        n = 2
        while len(cur["ops"]) >= 2 and budget > 0:
            ops = cur["ops"]
            chunk = max(1, len(ops) // n)
            reduced = False
            for s in range(0, len(ops) - 1, chunk):      # never drop the last (failing) operation
                cand = ops[:s] + ops[min(s + chunk, len(ops) - 1):]
                if len(cand) == len(ops):
                    continue
                budget -= 1
                r = self.fails({"kind": cur["kind"], "ops": cand}, sig)
                if r is not None and r[0] == len(cand):
                    cur = {"kind": cur["kind"], "ops": cand, "family": cur.get("family")}
                    n = max(n - 1, 2)
                    reduced = True
                    break
                if budget <= 0:
                    break
            if not reduced:
                if chunk == 1:
                    break
                n = min(n * 2, len(ops))
        return cur


def main():
    ck = vlib.Check("C19", "proof")
    proved = ck.prove() if not os.environ.get("C19_DEV_NOPROVE") else True
    try:
        exe = vlib.build_harness("C19")
    except vlib.BuildError as e:
        ck.violation("harness-build", "harness does not compile against the current tree: %s" % str(e)[-1500:],
                     {"kind": "build"}, no_input=True)
        ck.finish()
    try:
        model = vlib.build_model("C19")
    except vlib.BuildError as e:
        ck.violation("model-build", "extracted model does not build: %s" % str(e)[-800:], {"kind": "extraction"}, no_input=True)
        ck.finish()

    if ck.args.replay:
        rp = json.load(open(ck.args.replay))
        cases = [rp["case"]] if "case" in rp else []
    else:
        cases = generate(ck)

    rn = Runner(exe, model)
    h, rc, m, err = rn.both(cases, "r")
    if rc != 0:
        ck.violation("model-crash", "model runner failed rc=%d: %s" % (rc, err[-400:]), {"kind": "model"}, no_input=True)
    shrunk = set()
    for k, case in enumerate(cases):
        if k >= len(m) or k >= len(h):
            break
        hl, hstat = h[k]
        ml = m[k]
        kind = case["kind"].split()[0]
        ck.count("family:%s:%s" % (kind, case.get("family", "?")))
        j = first_mismatch(case, hl, hstat, ml)
        upto = len(case["ops"]) if j is None else j
        for i in range(upto):
            op = case["ops"][i]
            ck.count("op:%s:%s" % (kind, op.split()[0]))
            ck.evaluated((kind, ml[i], op))
        if k % 997 == 0:
            ck.sample({"kind": case["kind"], "ops": case["ops"][:10], "last_observation": ml[min(len(ml) - 1, 10)][:300]})
        if j is None:
            continue
        sig, what, clauses = judge(case, hl, hstat, ml, j)
        small = case
        if sig not in shrunk and len(shrunk) < 12:
            shrunk.add(sig)
            small = rn.shrink(case, j, sig)
            r = rn.fails(small, sig)
            if r is not None:
                j2, hl2, hstat2, ml2 = r
                sig2, what, clauses = judge(small, hl2, hstat2, ml2, j2)
                hl, ml, j = hl2, ml2, j2
            else:
                small = {"kind": case["kind"], "ops": case["ops"][:j]}
        else:
            small = {"kind": case["kind"], "ops": case["ops"][:j]}
        replay = {"case": {"kind": small["kind"], "ops": small["ops"]},
                  "implementation": hl[j] if j < len(hl) else hstat,
                  "model": ml[j] if j < len(ml) else None,
                  "before": hl[j - 1] if 0 < j <= len(hl) else None,
                  "correspondence": "extracted Coq model (extract/C19) vs the SoPlex class driven by harness/C19.cpp"}
        if clauses is not None and not clauses:
            # the implementation differs from the model but the step still satisfies the property
            ck.violation(sig, what + " (the observed step still behaves as the abstract data type; the representation "
                         "differs from the model)\n impl : %s\n model: %s" % (replay["implementation"], replay["model"]),
                         replay, no_input=True)
        else:
            if clauses:
                replay["violated_clauses"] = clauses
                what += "; violated: " + ", ".join(str(c) for c in clauses)
            ck.violation(sig, what + "\n impl : %s\n model: %s" % (replay["implementation"], replay["model"]), replay)

    ck.cov["rule"] = ("a case is an operation sequence on one container; an evaluation is one executed operation whose complete "
                      "observation (all public lookups + internal free list) equals the model's; distinct = distinct "
                      "(kind, state before, operation) triples")
    ck.cov["trusted_base"] = [
        "Coq 8.16.1 kernel (coqc), no native_compute",
        ("axioms: none (Print Assumptions: closed under the global context)" if proved and not ck.coq["axioms"] else
         "axioms: " + ", ".join(getattr(ck, "coq", {}).get("axioms", []))) if hasattr(ck, "coq") else "proofs skipped (dev)",
        "extraction: ExtrOcamlBasic only; OCaml 4.13.1; extract/zutil.ml + extract/C19/driver.ml (parsing and printing only)",
        "harness/C19.cpp compiled with g++ -fno-access-control against /repo/src (prints public lookups and, for DataSet/ClassSet, the free list)",
        "checks/C19.py (generators, comparison, the independent property oracle used to classify mismatches)"]
    ck.assumptions = ["operations are issued only when their documented preconditions hold (the harness and the model apply the same guard "
                      "and report 'skip' otherwise)"]
    ck.finish()


if __name__ == "__main__":
    main()
