#!/usr/bin/env python3
"""C19 - containers and sparse vectors behave as their abstract data types.

prove (Properties_C19: invariants / refinement of the DataSet representation, sparse-vector algebra) + correspondence of
the extracted models with the real classes on operation sequences: bounded-exhaustive short sequences and random long
ones, every observable compared after every step."""
import itertools
import json
import os
import sys

sys.path.insert(0, os.path.dirname(os.path.dirname(os.path.abspath(__file__))))
import vlib

HARNESSES = ["C19"]
MODEL = True


# ----------------------------------------------------------------------------------------------------------
# running cases
# ----------------------------------------------------------------------------------------------------------

def write_cases(path, cases, first=0):
    with open(path, "w") as f:
        for k, c in enumerate(cases):
            f.write("CASE %d %s\n" % (first + k, c["kind"]))
            for op in c["ops"]:
                f.write(op + "\n")


def blocks(out):
    res, cur = [], None
    for l in out.splitlines():
        if l.startswith("CASE "):
            cur = []
            res.append(cur)
        elif cur is not None:
            cur.append(l)
    return res


def run_harness(exe, cases, tag, timeout=600):
    """returns list (one per case) of (lines, status) with status in ok / crash:<rc> / hang; a crash or hang ends that
    case only: the run is restarted after it."""
    res = []
    start = 0
    rundir = os.path.join(vlib.BUILD, "run")
    os.makedirs(rundir, exist_ok=True)
    while start < len(cases):
        path = os.path.join(rundir, "C19.%d.%s.cases" % (os.getpid(), tag))
        write_cases(path, cases[start:], start)
        if not os.path.exists(exe):
            # the build cache is shared and garbage-collected by concurrent checks of other tree states
            exe = vlib.build_harness("C19")
        rc, out, err = vlib.sh([exe, "run", path], timeout=timeout)
        os.remove(path)
        bl = blocks(out)
        if rc == 0 and len(bl) == len(cases) - start:
            res += [(b, "ok") for b in bl]
            break
        # the last block started is the one that died
        if not bl:
            res.append(([], "crash:%d" % rc))
            start += 1
            continue
        for b in bl[:-1]:
            res.append((b, "ok"))
        last = bl[-1]
        st = "hang" if (last and last[-1] == "HANG") or rc == 124 else "crash:%d" % rc
        res.append(([l for l in last if l != "HANG"], st))
        start += len(bl)
    return res


def run_model(model, cases, tag, timeout=900):
    rundir = os.path.join(vlib.BUILD, "run")
    os.makedirs(rundir, exist_ok=True)
    path = os.path.join(rundir, "C19.%d.%s.mcases" % (os.getpid(), tag))
    write_cases(path, cases)
    rc, out, err = vlib.sh([model, path], timeout=timeout)
    os.remove(path)
    return rc, blocks(out), err


def fields(line):
    """'op ret=.. a=.. b=..' -> (op, dict)"""
    t = line.split(" ")
    d = {}
    for x in t[1:]:
        if "=" in x:
            k, v = x.split("=", 1)
            d[k] = v
    return t[0], d


def lst(s):
    return [x for x in s.split(",") if x != ""]


# ----------------------------------------------------------------------------------------------------------
# DataSet / ClassSet: the property itself, evaluated on the observations of the implementation alone
# (independent of the model's choice of keys and of the free-list order)
# ----------------------------------------------------------------------------------------------------------

def set_state(d):
    return {"num": int(d["num"]), "max": int(d["max"]), "size": int(d["size"]), "keys": [int(x) for x in lst(d["keys"])],
            "elems": [int(x) for x in lst(d["elems"])], "slots": lst(d["slots"]), "bykey": lst(d["bykey"])}


def a_remove(a, n):
    if 0 <= n < len(a):
        a = list(a)
        last = a.pop()
        if n < len(a):
            a[n] = last
    return a


def set_oracle(prev, op, ret, new):
    """prev/new: parsed states of the implementation before/after op (strings of the case file).  Returns a list of
    violated clauses of the property (empty = the step behaves as the abstract data type)."""
    bad = []
    a = list(zip(prev["keys"], prev["elems"]))
    b = list(zip(new["keys"], new["elems"]))
    t = op.split()
    c, args = t[0], [int(x) for x in t[1:]]
    # structural clauses: dense numbering, key <-> number bijection, lookup by key
    if len(new["keys"]) != new["num"] or len(new["elems"]) != new["num"]:
        bad.append("dense-numbering")
    if len(set(new["keys"])) != len(new["keys"]):
        bad.append("duplicate-key")
    for n, k in enumerate(new["keys"]):
        if not (0 <= k < len(new["slots"])) or new["slots"][k] != str(n):
            bad.append("number(key(n))!=n")
            break
        if new["bykey"][k] != str(new["elems"][n]):
            bad.append("element-by-key!=element-by-number")
            break
    if sum(1 for x in new["slots"] if x != "x") != new["num"]:
        bad.append("has(key)-for-a-removed-key")
    if bad:
        return bad
    exp = a
    if ret == "skip":
        exp = a
    elif c == "add":
        k = int(ret.split(":")[1])
        if k in prev["keys"]:
            bad.append("key-handed-out-twice")
        exp = a + [(k, args[0])]
    elif c == "addn":
        ks = [int(x) for x in lst(ret.split(":")[1])]
        if len(set(ks)) != len(ks) or set(ks) & set(prev["keys"]):
            bad.append("key-handed-out-twice")
        exp = a + list(zip(ks, args))
    elif c == "rm":
        exp = a_remove(a, args[0])
    elif c == "rmk":
        if args[0] in prev["keys"]:
            if ret == "exc":
                bad.append("exception-for-a-valid-key")
            exp = a_remove(a, prev["keys"].index(args[0]))
    elif c in ("rmp", "rmn", "rmkn"):
        if c == "rmp":
            perm = [(args[k] if k < len(args) else 0) for k in range(len(a))]
        elif c == "rmn":
            perm = [(-1 if k in args else k) for k in range(len(a))]
        else:
            perm = [(-1 if a[k][0] in args else k) for k in range(len(a))]
        exp = [e for p, e in zip(perm, a) if p >= 0]
        want, j = [], 0
        for p in perm:
            if p >= 0:
                want.append(j)
                j += 1
            else:
                want.append(p)
        got = [int(x) for x in lst(ret.split(":")[1])] if ret.startswith("perm:") else None
        if got != want:
            bad.append("perm-does-not-report-the-moves")
    elif c == "clear":
        exp = []
    elif c == "set":
        if 0 <= args[0] < len(a):
            exp = list(a)
            exp[args[0]] = (a[args[0]][0], args[1])
    elif c in ("remax", "copy", "assign"):
        exp = a
        if c == "remax" and new["max"] != max(args[0], prev["size"]):
            bad.append("max()-after-reMax")
    if exp != b:
        bad.append({"add": "insertion", "addn": "insertion", "rm": "single-removal", "rmk": "removal-by-key",
                    "rmp": "removal-by-permutation", "rmn": "removal-by-list", "rmkn": "removal-by-key-list",
                    "clear": "clear", "set": "element-write", "remax": "reMax-loses-elements", "copy": "copy-differs",
                    "assign": "assignment-differs"}.get(c, c))
    return bad


ORACLES = {"ds": (set_state, set_oracle), "cs": (set_state, set_oracle)}


# ----------------------------------------------------------------------------------------------------------
# generators
# ----------------------------------------------------------------------------------------------------------

def set_alphabet(m):
    """operation alphabet for the bounded-exhaustive family over a universe of m elements"""
    al = ["add", "rm 0", "rm 1", "rm %d" % (m - 1), "rmk 0", "rmk 1", "rmk %d" % (m - 1), "clear", "remax %d" % (m + 2), "remax 0",
          "copy", "assign 1", "assign %d" % (m + 1), "rmp -1", "rmp 0 -1", "rmp -1 5 -1", "rmp 3 -1 -1", "rmn 0", "rmn 1 0",
          "rmkn 0", "rmkn 2 1", "addn V V", "set 0 V"]
    return al


def fill_values(ops):
    """replace the placeholder V / bare add by distinct element values"""
    out, v = [], 10
    for op in ops:
        if op == "add":
            op = "add %d" % v
            v += 1
        while "V" in op:
            op = op.replace("V", str(v), 1)
            v += 1
        out.append(op)
    return out


def set_exhaustive(kind, m, length, prefixes, alphabet):
    for pre in prefixes:
        for seq in itertools.product(alphabet, repeat=length):
            yield {"kind": "%s %d" % (kind, m), "ops": fill_values(list(pre) + list(seq)), "family": "exhaustive"}


def set_random(rng, kind, nops, nocopy=False):
    m = rng.choice([1, 2, 3, 4, 8])
    ops = []
    v = 100
    for _ in range(nops):
        r = rng.random()
        n = rng.randrange(0, 12)
        if r < 0.38:
            ops.append("add %d" % v)
            v += 1
        elif r < 0.43:
            k = rng.randrange(1, 5)
            ops.append("addn " + " ".join(str(v + i) for i in range(k)))
            v += k
        elif r < 0.55:
            ops.append("rm %d" % rng.choice([n, 0, rng.randrange(-1, 30)]))
        elif r < 0.63:
            ops.append("rmk %d" % rng.choice([n, rng.randrange(-1, 30)]))
        elif r < 0.71:
            ops.append("rmp " + " ".join(str(rng.choice([-1, -1, 0, 1, 7, -3])) for _ in range(rng.randrange(0, 30))))
        elif r < 0.76:
            ops.append("rmn " + " ".join(str(rng.randrange(0, 10)) for _ in range(rng.randrange(0, 4))))
        elif r < 0.80:
            ops.append("rmkn " + " ".join(str(rng.randrange(0, 12)) for _ in range(rng.randrange(0, 4))))
        elif r < 0.82:
            ops.append("clear")
        elif r < 0.91:
            ops.append("remax %d" % rng.choice([0, n, rng.randrange(0, 40), rng.randrange(0, 40)]))
        elif r < 0.95:
            ops.append("set %d %d" % (n, v))
            v += 1
        elif r < 0.975:
            ops.append("remax 0" if nocopy else "copy")
        else:
            ops.append("assign %d" % rng.randrange(0, 20))
    return {"kind": "%s %d" % (kind, m), "ops": ops, "family": "random"}


# ---- values
def dy(rng, zero=0.12):
    """small dyadic value k/8 (exact in double arithmetic)"""
    if rng.random() < zero:
        return "0/1"
    k = rng.choice([-16, -12, -8, -5, -4, -3, -2, -1, 1, 2, 3, 4, 5, 8, 12, 16, 24])
    d = rng.choice([1, 1, 2, 4, 8])
    from fractions import Fraction
    f = Fraction(k, d)
    return "%d/%d" % (f.numerator, f.denominator)


def rat(rng, zero=0.12):
    if rng.random() < zero:
        return "0/1"
    from fractions import Fraction
    f = Fraction(rng.randint(-9, 9) or 1, rng.choice([1, 1, 2, 3, 5, 7]))
    return "%d/%d" % (f.numerator, f.denominator)


TINY = "1/1152921504606846976"       # 2^-60 < epsilon = 1e-16


def vec_random(rng, kind, nops):
    n = rng.choice([1, 3, 4, 6])
    val = (lambda z=0.12: dy(rng, z)) if kind == "vecd" else (lambda z=0.12: rat(rng, z))
    scal = lambda: rng.choice(["2/1", "1/2", "-1/1", "-2/1", "4/1", "1/4", "1/1"] + (["3/1"] if rng.random() < 0.1 else []) +
                              ([] if kind == "vecd" else ["3/1", "-5/3", "2/7"]))
    D = lambda: "D%d" % rng.randrange(2)
    S = lambda: "S%d" % rng.randrange(2)
    X = lambda: "X%d" % rng.randrange(2)
    ix = lambda: rng.randrange(-1 if rng.random() < 0.03 else 0, n + (1 if rng.random() < 0.05 else 0))
    fresh = [0] * 2
    ops = []
    table = [
        (6, lambda: "dset %s %d %s" % (D(), ix(), val())), (1, lambda: "dclear " + D()), (2, lambda: "dadd %s %s" % (D(), D())),
        (2, lambda: "dsub %s %s" % (D(), D())), (2, lambda: "ddot %s %s" % (D(), D())), (2, lambda: "dmadd %s %s %s" % (D(), scal(), D())),
        (1, lambda: "dscale %s %s" % (D(), scal())), (1, lambda: "dmaxabs " + D()), (1, lambda: "dlen2 " + D()),
        (0.5, lambda: "dredim %s %d" % (D(), rng.randrange(0, 8))),
        (3, lambda: "daddsv %s %s" % (D(), S())), (2, lambda: "dsubsv %s %s" % (D(), S())), (2, lambda: "dassignsv %s %s" % (D(), S())),
        (2, lambda: "dsetsv %s %s" % (D(), S())), (2, lambda: "ddotsv %s %s" % (D(), S())), (2, lambda: "sdotd %s %s" % (S(), D())),
        (3, lambda: "dmaddsv %s %s %s" % (D(), scal(), S())), (2, lambda: "dmsubsv %s %s %s" % (D(), scal(), S())),
        (2, lambda: "daddss %s %s" % (D(), X())), (1, lambda: "dsubss %s %s" % (D(), X())), (2, lambda: "ddotss %s %s" % (D(), X())),
        (1, lambda: "dsetss %s %s" % (D(), X())), (1, lambda: "dassignss %s %s" % (D(), X())), (2, lambda: "dmaddss %s %s %s" % (D(), scal(), X())),
        (8, lambda: "sadd %s %d %s" % (S(), ix(), val())),
        (2, lambda: "saddn %s %s" % (S(), " ".join("%d %s" % (rng.randrange(n), val()) for _ in range(rng.randrange(0, 4))))),
        (2, lambda: "srm %s %d" % (S(), rng.randrange(-1, 5))), (0.3, lambda: "srmrs %s %d %d" % (S(), rng.randrange(0, 3), rng.randrange(0, 4))),
        (1, lambda: "sclear " + S()), (2, lambda: "sscale %s %s" % (S(), scal())), (3, lambda: "ssort " + S()),
        (2, lambda: "sassign %s %s" % (S(), S())), (2, lambda: "sfromd %s %s" % (S(), D())),
        (3, lambda: "sdot %s %s" % (S(), S())), (1, lambda: "smaxabs " + S()), (1, lambda: "sminabs " + S()), (1, lambda: "slen2 " + S()),
        (1, lambda: "sdim " + S()), (1, lambda: "spos %s %d" % (S(), ix())), (1, lambda: "sget %s %d" % (S(), ix())),
        (1, lambda: "stimes %s %s %s" % (S(), S(), scal() if rng.random() < 0.9 else "0/1")), (1, lambda: "sunit %s %d" % (S(), rng.randrange(n))),
        (5, lambda: "xset %s %d %s" % (X(), ix(), val() if (kind == "vecd" or rng.random() < 0.93) else TINY)), (2, lambda: "xadd %s %d %s" % (X(), ix(), val(0.0))),
        (2, lambda: "xclearidx %s %d" % (X(), ix())), (1, lambda: "xclearnum %s %d" % (X(), rng.randrange(0, 4))), (1, lambda: "xclear " + X()),
        (3, lambda: "xsetup " + X()), (2, lambda: "xunsetup " + X()), (1, lambda: "xscale %s %s" % (X(), scal())),
        (2, lambda: "xadddv %s %s" % (X(), D())), (1, lambda: "xsubdv %s %s" % (X(), D())), (1, lambda: "xmadddv %s %s %s" % (X(), scal(), D())),
        (3, lambda: "xaddsv %s %s" % (X(), S())), (2, lambda: "xsubsv %s %s" % (X(), S())), (3, lambda: "xsetsv %s %s" % (X(), S())),
        (4, lambda: "xmaddsv %s %s %s" % (X(), scal(), S())), (2, lambda: "xaddss %s %s" % (X(), X())), (2, lambda: "xsubss %s %s" % (X(), X())),
        (1, lambda: "xassign %s %s" % (X(), X())), (0.5, lambda: "xredim %s %d" % (X(), rng.randrange(1, 8))),
    ]
    w = [t[0] for t in table]
    for _ in range(nops):
        ops.append(rng.choices(table, weights=w)[0][1]())
    return {"kind": "%s %d" % (kind, n), "ops": ops, "family": "random"}


def vset_random(rng, kind, nops):
    nsc = 0 if kind == "svs" else 3
    ops = []
    ent = lambda: " ".join("%d %s" % (rng.randrange(0, 6), dy(rng)) for _ in range(rng.randrange(0, 4)))
    for _ in range(nops):
        r = rng.random()
        n = rng.randrange(0, 8)
        if r < 0.29:
            ops.append(("add " + " ".join(dy(rng) for _ in range(nsc)) + " " + ent()).strip())
        elif r < 0.32:
            ops.append("addself")
        elif r < 0.40:
            ops.append("add2 %d %s" % (n, ent()))
        elif r < 0.45:
            ops.append("xtend %d %d" % (n, rng.randrange(0, 12)))
        elif r < 0.50 and nsc:
            ops.append("setscal %d %d %s" % (n, rng.randrange(3), dy(rng)))
        elif r < 0.60:
            ops.append("rm %d" % n)
        elif r < 0.66:
            ops.append("rmk %d" % n)
        elif r < 0.75:
            ops.append("rmp " + " ".join(str(rng.choice([-1, -1, 0, 3])) for _ in range(rng.randrange(0, 12))))
        elif r < 0.78:
            ops.append("rmn " + " ".join(str(rng.randrange(0, 6)) for _ in range(rng.randrange(0, 3))))
        elif r < 0.80:
            ops.append("clear")
        elif r < 0.86:
            ops.append("remax %d" % rng.randrange(0, 30))
        elif r < 0.91:
            ops.append("memremax %d" % rng.randrange(0, 60))
        elif r < 0.95:
            ops.append("mempack")
        elif r < 0.975:
            ops.append("copy")
        else:
            ops.append("assign %d" % rng.randrange(0, 12))
    return {"kind": "%s %d %d" % (kind, rng.choice([1, 2, 3, 8]), rng.choice([1, 4, 16])), "ops": ops, "family": "random"}


def idx_random(rng, kind, nops):
    ops = []
    for _ in range(nops):
        r = rng.random()
        if r < 0.40:
            ops.append("addidx %d" % rng.randrange(0, 8))
        elif r < 0.50:
            ops.append("addn " + " ".join(str(rng.randrange(0, 8)) for _ in range(rng.randrange(0, 4))))
        elif r < 0.68:
            ops.append("rm %d" % rng.randrange(-1, 7))
        elif r < 0.80:
            a = rng.randrange(0, 5)
            ops.append("rmr %d %d" % (a, a + rng.randrange(0, 3)))
        elif r < 0.84:
            ops.append("clear")
        elif r < 0.92:
            ops.append("setmax %d" % rng.randrange(0, 12))
        elif r < 0.96:
            ops.append("copy")
        else:
            ops.append("assign %d" % rng.randrange(0, 6))
    return {"kind": "%s %d" % (kind, rng.choice([1, 3, 5, 9])), "ops": ops, "family": "random"}


def ns_random(rng, nops):
    """names have 1..12 characters (identifier + 1); non-last names are removed, the string memory is small so that add()
    packs / grows it by itself, and memPack / memRemax / reMax are called explicitly"""
    ops = []
    ids = list(range(12))
    for _ in range(nops):
        r = rng.random()
        if r < 0.36:
            ops.append("add %d" % rng.choice(ids))
        elif r < 0.46:
            ops.append("rmname %d" % rng.choice(ids))
        elif r < 0.56:
            ops.append("rmnum %d" % rng.choice([0, 0, 1, 2, rng.randrange(0, 12)]))
        elif r < 0.61:
            ops.append("rmkey %d" % rng.randrange(0, 12))
        elif r < 0.67:
            ops.append("rmnums " + " ".join(str(x) for x in rng.sample(range(0, 9), rng.randrange(0, 4))))
        elif r < 0.71:
            ops.append("rmkeys " + " ".join(str(x) for x in rng.sample(range(0, 9), rng.randrange(0, 4))))
        elif r < 0.76:
            ops.append("rmp " + " ".join(str(rng.choice([-1, 0, 2])) for _ in range(rng.randrange(0, 13))))
        elif r < 0.77:
            ops.append("clear")
        elif r < 0.81:
            ops.append("remax %d" % rng.randrange(0, 30))
        elif r < 0.87:
            ops.append("memremax %d" % rng.choice([0, 0, rng.randrange(0, 120)]))
        else:
            ops.append("mempack")
    return {"kind": "ns %d %d" % (rng.choice([1, 2, 3, 10]), rng.choice([1, 2, 4, 8, 16, 64])), "ops": ops, "family": "random"}


def ht_random(rng, nops):
    ops = []
    for _ in range(nops):
        r = rng.random()
        if r < 0.45:
            ops.append("add %d %d" % (rng.randrange(-2, 8), rng.randrange(100)))
        elif r < 0.80:
            ops.append("rm %d" % rng.randrange(-2, 8))
        elif r < 0.84:
            ops.append("clear")
        elif r < 0.92:
            ops.append("remax %d" % rng.randrange(-1, 30))
        elif r < 0.96:
            ops.append("copy")
        else:
            ops.append("assign")
    return {"kind": "ht %d" % rng.choice([1, 2, 3, 7, 16]), "ops": ops, "family": "random"}


def arr_random(rng, kind, nops):
    ops = []
    v = [100]

    def nv():
        v[0] += 1
        return v[0]
    for _ in range(nops):
        r = rng.random()
        if r < 0.25:
            ops.append("append %d" % nv())
        elif r < 0.35:
            ops.append("appendn " + " ".join(str(nv()) for _ in range(rng.randrange(0, 4))))
        elif r < 0.50:
            # Array::insert is a recorded finding: rarely, so that the other operations are reached
            if kind != "ar" or rng.random() < 0.15:
                ops.append("insert %d %s" % (rng.randrange(0, 8), " ".join(str(nv()) for _ in range(rng.randrange(0, 3)))))
        elif r < 0.68:
            ops.append("remove %d %d" % (rng.randrange(0, 8), rng.randrange(0, 4)))
        elif r < 0.76:
            ops.append("removelast %d" % rng.randrange(0, 4))
        elif r < 0.79:
            ops.append("clear")
        elif r < 0.88:
            ops.append("resize %d" % rng.randrange(0, 12))
        elif r < 0.93:
            ops.append("remaxs %d" % rng.randrange(0, 30))
        elif r < 0.97:
            ops.append("copy")
        else:
            ops.append("assign %d" % rng.randrange(0, 6))
    return {"kind": kind, "ops": ops, "family": "random"}


def list_random(rng, kind, nops):
    ops = []
    for _ in range(nops):
        r = rng.random()
        x, y = rng.randrange(8), rng.randrange(8)
        if r < 0.25:
            ops.append("append %d" % x)
        elif r < 0.40:
            ops.append("prepend %d" % x)
        elif r < 0.60:
            ops.append("insert %d %d" % (x, y))
        elif r < 0.85:
            ops.append("remove %d" % x)
        elif r < 0.97:
            ops.append("removenext %d" % x)
        else:
            ops.append("clear")
    return {"kind": kind, "ops": ops, "family": "random"}


def exhaustive(kind, alphabet, length, prefixes=([],)):
    for pre in prefixes:
        for seq in itertools.product(alphabet, repeat=length):
            yield {"kind": kind, "ops": list(pre) + list(seq), "family": "exhaustive"}


# directed cases: every recorded finding once, in isolation (the random families draw these operations rarely or not at
# all, because the first disagreement ends the comparison of a case)
PROBES = [
    ("csp 3", ["add 1", "remax 5", "add 2", "add 3", "remax 3"]),
    ("csp 3", ["add 1", "add 2", "rm 0", "copy"]),
    ("csp 2", ["add 1", "add 2", "assign 1"]),
    ("vecd 4", ["xset X0 1 3/1", "xset X0 3 1/2", "sfromss S0 X0"]),
    ("vecr 4", ["xset X0 1 3/1", "xset X0 3 1/2", "sfromss S0 X0"]),
    ("vecd 4", ["sadd S0 0 1/1", "sadd S0 1 2/1", "sadd S0 2 3/1", "sadd S0 3 4/1", "srmr S0 1 2"]),
    ("vecd 4", ["sadd S0 0 1/1", "sadd S0 1 2/1", "sadd S0 2 3/1", "sadd S0 3 4/1", "sadd S0 1 5/1", "srmr S0 1 3"]),
    ("vecd 4", ["sadd S0 0 1/1", "sadd S0 1 2/1", "sadd S0 2 3/1", "srmr S0 1 2"]),
    ("vecd 4", ["xset X0 3 1/1", "xset X0 1 1/1", "xset X1 1 1/1", "xset X1 3 1/1", "xdot X0 X1"]),
    ("vecd 4", ["sadd S0 0 1/1", "sadd S1 2 3/1", "sappend S0 S1"]),
    ("vecr 4", ["sadd S0 0 1/1", "sadd S1 2 3/1", "sappend S0 S1"]),
    ("lprs 2 4", ["add 0/1 1/1 2/1 0 1/1", "add 3/1 4/1 5/1 1 1/1", "add 6/1 7/1 8/1 2 1/1", "rmn 0"]),
    ("lpcs 2 4", ["add 0/1 1/1 2/1 0 1/1", "add 3/1 4/1 5/1 1 1/1", "add 6/1 7/1 8/1 2 1/1", "rmn 0"]),
    ("svs 2 4", ["add", "add", "mempack", "copy"]),
    ("svs 2 4", ["add", "add", "mempack", "assign 3"]),
    ("lprs 2 4", ["add 1/1 2/1 3/1", "add 4/1 5/1 6/1", "mempack", "copy"]),
    ("lpcs 2 4", ["add 1/1 2/1 3/1", "mempack", "assign 1"]),
    ("idx 5", ["addidx 3", "addidx 1", "addidx 4", "rmr 1 2"]),
    ("idx 5", ["addidx 3", "addidx 1", "addidx 4", "rmr 0 2"]),
    ("didx 2", ["addidx 3", "addidx 1", "addidx 4", "rmr 1 2"]),
    ("ar", ["append 1", "append 2", "append 3", "insert 1 9 8"]),
    ("ar", ["append 1", "append 2", "insert 2 9"]),
    ("da", ["appendn 1 2 3 4 5 6 7 8", "remax 2"]),
    ("vecr 4", ["sadd S0 0 1/1", "sadd S0 1 2/1", "sadd S0 2 3/1", "sadd S0 3 4/1", "srmrs S0 0 1"]),
    ("vecr 4", ["sadd S0 0 1/1", "sadd S0 1 2/1", "sadd S0 2 3/1", "srmrs S0 0 1"]),
    ("ns 2 64", ["add 0", "add 1", "add 2", "add 9", "rmname 0", "mempack"]),
    ("ns 2 4", ["add 0", "add 1", "add 2", "add 9", "rmname 0", "add 5", "add 6", "add 7", "add 8"]),
    ("ns 2 8", ["add 1", "add 2", "add 3", "add 4", "add 5", "rmnums 0 1 4"]),
    ("ns 2 8", ["add 1", "add 2", "add 3", "add 4", "rmnums 2 3"]),
    ("ns 2 8", ["add 1", "add 2", "add 3", "add 4", "rmnums 3 0 1"]),
]


def generate(ck):
    rng = ck.rng
    quick = ck.tier == "quick"
    cases = []
    # corpus first
    cdir = os.path.join(vlib.ROOT, "corpus", "C19")
    if os.path.isdir(cdir):
        for f in sorted(os.listdir(cdir)):
            ls = [l.rstrip("\n") for l in open(os.path.join(cdir, f)) if l.strip() and not l.startswith("#")]
            if ls:
                cases.append({"kind": ls[0], "ops": ls[1:], "family": "corpus"})
    for kind, ops in PROBES:
        cases.append({"kind": kind, "ops": list(ops), "family": "probe"})
    # bounded-exhaustive DataSet / ClassSet: universe of 3 elements
    al = set_alphabet(3)
    pre3 = [[], ["add", "add", "add"], ["add", "add", "add", "rm 0"], ["add", "add", "add", "rmp 0 -1 0"]]
    for kind in ("ds", "cs"):
        if quick:
            sub = [a for a in al if a not in ("remax 0", "assign 1", "rmkn 0", "rmn 0", "rm 2")]
            if kind == "cs":
                sub = [a for a in rng.sample(sub, 9) if a != "copy"] + ["add"]
            cases += list(set_exhaustive(kind, 3, 3, pre3, sub))
            cases += list(set_exhaustive(kind, 3, 2, pre3, al))
        else:
            sub = [a for a in al if a not in ("remax 0", "assign 1", "rmkn 0")]
            cases += list(set_exhaustive(kind, 3, 4, pre3, sub if kind == "ds" else [a for a in sub if a != "copy"]))
            cases += list(set_exhaustive(kind, 3, 3, pre3, al))
    # bounded-exhaustive short sequences for the small containers
    L = 3 if quick else 4
    idx_al = ["addidx 0", "addidx 1", "addidx 2", "rm 0", "rm 1", "rmr 0 0", "rmr 0 1", "rmr 1 1", "clear", "addn 3 4"]
    cases += list(exhaustive("idx 3", idx_al, L, ([], ["addidx 5", "addidx 6", "addidx 7"])))
    cases += list(exhaustive("didx 1", idx_al + ["setmax 1", "copy"], L, ([], ["addidx 5", "addidx 6", "addidx 7"])))
    ns_al = ["add 0", "add 1", "add 9", "rmname 0", "rmname 1", "rmnum 0", "rmnum 1", "rmkey 0", "rmkey 2", "rmnums 0 1", "rmnums 1 2",
             "rmkeys 0 1", "rmp -1 0", "rmp 0 -1 -1", "clear", "mempack", "memremax 0", "remax 0"]
    cases += list(exhaustive("ns 1 2", ns_al, L, ([], ["add 0", "add 1", "add 2"], ["add 3", "add 4", "rmname 3", "add 5"])))
    # the string memory: names of different lengths, removal of a name that is not the last one, then packing
    ns_mem = ["add 0", "add 5", "add 11", "rmname 0", "rmname 2", "rmnum 0", "rmnum 1", "mempack", "memremax 0", "add 3"]
    cases += list(exhaustive("ns 2 1", ns_mem, L, (["add 0", "add 1", "add 2", "add 9"], ["add 7", "add 2", "add 4", "rmnum 0"])))
    ht_al = ["add 0 1", "add 1 2", "add 4 3", "add 7 4", "rm 0", "rm 1", "rm 4", "clear", "remax 2", "remax -1", "copy"]
    cases += list(exhaustive("ht 1", ht_al, L, ([], ["add 0 9", "add 1 8", "add 4 7"])))
    cases += list(exhaustive("ht 3", ht_al, L - 1, ([], ["add 0 9", "add 1 8", "add 4 7", "rm 1"])))
    ls_al = ["append 0", "append 1", "prepend 2", "insert 3 0", "insert 4 1", "remove 0", "remove 1", "remove 2", "removenext 0", "removenext 2", "clear"]
    for kind in ("isl", "idl"):
        cases += list(exhaustive(kind, ls_al, L, ([], ["append 5", "append 6", "append 7"])))
    ar_al = ["append 1", "appendn 2 3", "insert 0 4", "insert 1 5 6", "remove 0 1", "remove 1 2", "removelast 1", "resize 1", "resize 4", "clear", "copy", "remaxs 1", "remaxs 3"]
    for kind in ("da", "ca"):
        cases += list(exhaustive(kind, ar_al, L, ([], ["appendn 7 8 9"])))
    cases += list(exhaustive("ar", [a for a in ar_al if not a.startswith("insert")], L, ([], ["appendn 7 8 9"])))
    # random long sequences
    nr = 150 if quick else 4000
    for i in range(nr):
        kind = "ds" if i % 2 == 0 else "cs"
        cases.append(set_random(rng, kind, rng.randrange(5, 300), nocopy=(kind == "cs" and i % 4 != 3)))
    nv = 500 if quick else 15000
    for i in range(nv):
        kind = "vecd" if i % 2 == 0 else "vecr"
        cases.append(vec_random(rng, kind, rng.randrange(3, 40 if kind == "vecd" else 80)))
    nm = 120 if quick else 3000
    for i in range(nm):
        cases.append(vset_random(rng, ["svs", "lprs", "lpcs"][i % 3], rng.randrange(5, 200)))
        cases.append(idx_random(rng, "idx" if i % 2 else "didx", rng.randrange(5, 120)))
        cases.append(ns_random(rng, rng.randrange(5, 300)))
        cases.append(ht_random(rng, rng.randrange(5, 300)))
        cases.append(arr_random(rng, ["da", "ar", "ca"][i % 3], rng.randrange(5, 150)))
        cases.append(list_random(rng, "isl" if i % 2 else "idl", rng.randrange(5, 150)))
    return cases


# ----------------------------------------------------------------------------------------------------------
# comparison, classification, shrinking
# ----------------------------------------------------------------------------------------------------------

def first_mismatch(case, hl, hstat, ml):
    """index j of the first line (0 = init) on which implementation and model differ, or None.  A crash / hang of the
    implementation counts as a mismatch at the first missing line."""
    n = len(case["ops"]) + 1
    for j in range(n):
        if j >= len(ml):
            return None            # model did not run that far (should not happen)
        if j >= len(hl):
            return j if hstat != "ok" else None
        if hl[j] != ml[j]:
            return j
    return None


def diff_fields(h, m):
    _, hd = fields(h)
    _, md = fields(m)
    return [k for k in md if hd.get(k) != md.get(k)]


def judge(case, hl, hstat, ml, j):
    """classify the mismatch at line j: (signature, text, property_clauses)"""
    kind = case["kind"].split()[0]
    op = case["ops"][j - 1] if j > 0 else "init"
    opn = op.split()[0]
    if j >= len(hl):
        return "%s:%s:%s" % (kind, opn, hstat.split(":")[0]), "the implementation %s in %r" % (hstat, op), [hstat]
    df = diff_fields(hl[j], ml[j])
    clauses = None
    if kind in ORACLES and j > 0:
        parse, oracle = ORACLES[kind]
        try:
            prev = parse(fields(hl[j - 1])[1])
            new = parse(fields(hl[j])[1])
            clauses = oracle(prev, op, fields(hl[j])[1].get("ret", ""), new)
        except (KeyError, ValueError, IndexError) as e:
            clauses = ["unparsable-observation"]
    sig = "%s:%s:%s" % (kind, opn, ",".join(df[:3]))
    return sig, "implementation and model disagree after %r in fields %s" % (op, df), clauses


# recorded findings: every mismatch signature kind:operation:fields is mapped to the name of the defect it exhibits
CANON = [
    (r"cs:copy:.*|csp:copy:.*", "classset-copy-constructor"),
    (r"csp:(remax|assign):raw", "classset-remax-assigns-to-raw-memory"),
    (r"vec[dr]:sfromss:.*", "svector-assign-from-ssvector-is-empty"),
    (r"vec[dr]:srmrs?:.*", "svector-remove-range"),
    (r"vec[dr]:xdot:ret", "ssvector-dot-needs-sorted-indices"),
    (r"lp[rc]s:rmn:vecs", "lprowset-lpcolset-remove-nums-scalars"),
    (r"(svs|lprs|lpcs):(copy|assign):.*", "svset-assign-all-vectors-empty"),
    (r"d?idx:rmr:.*", "idxset-remove-range-at-end"),
    (r"ar:insert:.*", "array-insert-off-by-one"),
    (r"da:remax:.*", "dataarray-remax-below-size"),
    (r"vec[dr]:sappend:.*", "dsvector-add-svector-clears"),
]


def canonical(sig):
    import re
    for rx, name in CANON:
        if re.fullmatch(rx, sig):
            return name
    return sig


def probe_minabs(result):
    """VectorBase<R>::minAbs() is never instantiated by the library; compile the branch of the harness that calls it"""
    import hashlib
    src = os.path.join(vlib.ROOT, "harness", "C19.cpp")
    key = hashlib.sha256(open(src, "rb").read()).hexdigest()[:12]
    stamp = os.path.join(vlib.tree_dir(), "minabs-%s.txt" % key)
    if os.path.exists(stamp):
        result.append(open(stamp).read())
        return
    rc, out, err = vlib.sh(["g++"] + vlib.base_flags("-O0") + ["-DC19_PROBE_MINABS", "-fsyntax-only", src], timeout=900)
    msg = "ok" if rc == 0 else "error: " + "\n".join(l for l in (out + err).splitlines() if "error" in l)[:600]
    with open(stamp, "w") as f:
        f.write(msg)
    result.append(msg)


class Runner:
    def __init__(self, exe, model):
        self.exe, self.model = exe, model
        self.n = 0

    def both(self, cases, tag):
        self.n += 1
        h = run_harness(self.exe, cases, tag + str(self.n))
        rc, m, err = run_model(self.model, cases, tag + str(self.n))
        return h, rc, m, err

    def fails(self, case, sigkind0):
        """does this (candidate, shrunk) case still show a mismatch of the same operation kind?"""
        h, rc, m, err = self.both([case], "s")
        if rc != 0 or not m:
            return None
        hl, hstat = h[0]
        j = first_mismatch(case, hl, hstat, m[0])
        if j is None:
            return None
        sig, what, clauses = judge(case, hl, hstat, m[0], j)
        if canonical(sig) != sigkind0 and sig.split(":")[:2] != sigkind0.split(":")[:2]:
            return None
        return (j, hl, hstat, m[0])

    def shrink(self, case, j, sig, budget=400):
        """delta debugging on the operation list (operations after the failing one are dropped first)"""
        cur = {"kind": case["kind"], "ops": case["ops"][:j], "family": case.get("family")}
        n = 2
        while len(cur["ops"]) >= 2 and budget > 0:
            ops = cur["ops"]
            chunk = max(1, len(ops) // n)
            reduced = False
            for s in range(0, len(ops) - 1, chunk):      # never drop the last (failing) operation
                cand = ops[:s] + ops[min(s + chunk, len(ops) - 1):]
                if len(cand) == len(ops):
                    continue
                budget -= 1
                r = self.fails({"kind": cur["kind"], "ops": cand}, sig)
                if r is not None and r[0] == len(cand):
                    cur = {"kind": cur["kind"], "ops": cand, "family": cur.get("family")}
                    n = max(n - 1, 2)
                    reduced = True
                    break
                if budget <= 0:
                    break
            if not reduced:
                if chunk == 1:
                    break
                n = min(n * 2, len(ops))
        return cur


def main():
    ck = vlib.Check("C19", "proof")
    rdir = os.path.join(vlib.ROOT, "replays", "C19")
    if os.path.isdir(rdir) and not ck.args.replay:
        for f in os.listdir(rdir):          # replays of earlier runs of this property
            if f.endswith(".json"):
                os.remove(os.path.join(rdir, f))
    proved = ck.prove() if not os.environ.get("C19_DEV_NOPROVE") else True
    try:
        exe = vlib.build_harness("C19")
    except vlib.BuildError as e:
        ck.violation("harness-build", "harness does not compile against the current tree: %s" % str(e)[-1500:],
                     {"kind": "build"}, no_input=True)
        ck.finish()
    try:
        model = vlib.build_model("C19")
    except vlib.BuildError as e:
        ck.violation("model-build", "extracted model does not build: %s" % str(e)[-800:], {"kind": "extraction"}, no_input=True)
        ck.finish()

    if ck.args.replay:
        rp = json.load(open(ck.args.replay))
        cases = [rp["case"]] if "case" in rp else []
    else:
        cases = generate(ck)

    if not ck.args.replay:
        # the hash table at the sizes its own prime table names: probing must end (a step that is a multiple of the table size never does)
        rc0, out0, err0 = vlib.sh([exe, "hashprimes"], timeout=600)
        seen_hp = 0
        for l in out0.splitlines():
            t = l.split()
            if t and t[0] == "HASHPRIME":
                seen_hp += 1
                ck.evaluated(("hashprime", t[1]), nontrivial=True)
                if t[-1] != "ok":
                    ck.violation("hashtable-at-prime-size:" + t[-1],
                                 "DataHashTable with maxsize %s: %s (keys that collide modulo the table size are added, looked up and removed; "
                                 "'hang' = add/has did not return within 20 s)" % (t[1], " ".join(t[2:])),
                                 {"kind": "hashprime", "size": t[1], "line": l, "replay_note": "harness/C19.cpp hashPrimes(): run `C19 hashprimes`"})
        if seen_hp < 9 or rc0 != 0:
            ck.violation("hashtable-at-prime-size:incomplete", "the hash-table probe at prime sizes answered %d sizes (rc=%d)" % (seen_hp, rc0), {"kind": "crash"}, no_input=True)
        ck.cov["hash_table_prime_sizes_probed"] = seen_hp
        # assign2productShort with a full index array
        env2 = dict(os.environ, MALLOC_CHECK_="3", MALLOC_PERTURB_="165")
        import subprocess as _sp
        pr = _sp.run([exe, "a2pshort"], capture_output=True, text=True, env=env2, timeout=120)
        got2 = [l.split()[1] for l in pr.stdout.splitlines() if l.startswith("A2PSHORT ")]
        ck.evaluated(("a2pshort",), nontrivial=True)
        if got2 != ["ok"]:
            ck.violation("ssvector-assign2productshort:%s" % (got2[0] if got2 else "no-answer"),
                         "SSVectorBase::assign2productShort into a result that fills every position: %s (a write behind the index array is reported by the "
                         "allocator when the vector is freed)" % (got2 or pr.stderr[-200:]),
                         {"kind": "a2pshort", "replay_note": "harness/C19.cpp a2pShort(): run `MALLOC_CHECK_=3 C19 a2pshort`"})
        # LPColBase / LPRowBase as values
        rc1, out1, err1 = vlib.sh([exe, "lpassign"], timeout=120)
        got = [l.split()[1] for l in out1.splitlines() if l.startswith("LPASSIGN ")]
        ck.evaluated(("lpassign",), nontrivial=True)
        if got != ["ok"]:
            ck.violation("lpcol-lprow-assignment:%s" % (got[0] if got else "no-answer"),
                         "assigning LPColBase / LPRowBase objects (plain, chained, self) does not give equal objects or does not return: %s" % (got or err1[-200:]),
                         {"kind": "lpassign", "replay_note": "harness/C19.cpp lpAssign(): run `C19 lpassign`"})

    import threading
    minabs = []
    th = threading.Thread(target=probe_minabs, args=(minabs,))
    if not ck.args.replay:
        th.start()
    rn = Runner(exe, model)
    h, rc, m, err = rn.both(cases, "r")
    if rc != 0:
        ck.violation("model-crash", "model runner failed rc=%d: %s" % (rc, err[-400:]), {"kind": "model"}, no_input=True)
    shrunk = set()
    for k, case in enumerate(cases):
        if k >= len(m) or k >= len(h):
            break
        hl, hstat = h[k]
        ml = m[k]
        kind = case["kind"].split()[0]
        ck.count("family:%s:%s" % (kind, case.get("family", "?")))
        j = first_mismatch(case, hl, hstat, ml)
        upto = len(case["ops"]) if j is None else j
        for i in range(upto):
            op = case["ops"][i]
            ck.count("op:%s:%s" % (kind, op.split()[0]))
            ck.evaluated((kind, ml[i], op))
        if k % 997 == 0:
            ck.sample({"kind": case["kind"], "ops": case["ops"][:10], "last_observation": ml[min(len(ml) - 1, 10)][:300]})
        if j is None:
            continue
        sig, what, clauses = judge(case, hl, hstat, ml, j)
        sig = canonical(sig)
        small = case
        import re as _re
        is_known = any(_re.fullmatch(k["signature"], sig) for k in ck.known)
        if sig not in shrunk and len(shrunk) < 12 and not is_known:
            shrunk.add(sig)
            small = rn.shrink(case, j, sig)
            r = rn.fails(small, sig)
            if r is not None:
                j2, hl2, hstat2, ml2 = r
                sig2, what, clauses = judge(small, hl2, hstat2, ml2, j2)
                hl, ml, j, hstat = hl2, ml2, j2, hstat2
            else:
                small = {"kind": case["kind"], "ops": case["ops"][:j]}
        else:
            small = {"kind": case["kind"], "ops": case["ops"][:j]}
        replay = {"case": {"kind": small["kind"], "ops": small["ops"]},
                  "implementation": hl[j] if j < len(hl) else hstat,
                  "model": ml[j] if j < len(ml) else None,
                  "before": hl[j - 1] if 0 < j <= len(hl) else None,
                  "correspondence": "extracted Coq model (extract/C19) vs the SoPlex class driven by harness/C19.cpp"}
        if clauses is not None and not clauses:
            # the implementation differs from the model but the step still satisfies the property
            ck.violation(sig, what + " (the observed step still behaves as the abstract data type; the representation "
                         "differs from the model)\n impl : %s\n model: %s" % (replay["implementation"], replay["model"]),
                         replay, no_input=True)
        else:
            if clauses:
                replay["violated_clauses"] = clauses
                what += "; violated: " + ", ".join(str(c) for c in clauses)
            ck.violation(sig, what + "\n impl : %s\n model: %s" % (replay["implementation"], replay["model"]), replay)

    if not ck.args.replay:
        th.join()
        ck.cov["minabs_compile_probe"] = minabs[0] if minabs else "not run"
        if minabs and minabs[0] != "ok":
            ck.violation("vectorbase-minabs-does-not-compile",
                         "VectorBase<R>::minAbs() does not compile when instantiated: %s" % minabs[0],
                         {"case": {"kind": "compile", "ops": ["g++ -DC19_PROBE_MINABS -fsyntax-only harness/C19.cpp"]},
                          "implementation": minabs[0], "model": "dv_minabs is defined for every non-empty vector"})
    ck.cov["rule"] = ("a case is an operation sequence on one container; an evaluation is one executed operation whose complete "
                      "observation (all public lookups + internal free list) equals the model's; distinct = distinct "
                      "(kind, state before, operation) triples")
    ck.cov["trusted_base"] = [
        "Coq 8.16.1 kernel (coqc), no native_compute",
        ("axioms: none (Print Assumptions: closed under the global context)" if proved and not ck.coq["axioms"] else
         "axioms: " + ", ".join(getattr(ck, "coq", {}).get("axioms", []))) if hasattr(ck, "coq") else "proofs skipped (dev)",
        "extraction: ExtrOcamlBasic only; OCaml 4.13.1; extract/zutil.ml + extract/C19/driver.ml (parsing, printing, register "
        "bookkeeping of the vector machine and the precondition guards; every state transformation is an extracted function)",
        "harness/C19.cpp compiled with g++ -fno-access-control against /repo/src (prints public lookups and, for DataSet/ClassSet, the free list)",
        "checks/C19.py (generators, comparison, the independent property oracle used to classify mismatches)"]
    ck.assumptions = ["operations are issued only when their documented preconditions hold (the harness and the model apply the same guard "
                      "and report 'skip' otherwise); sparse operands of SSVector assignment / multAdd have no repeated index, and multAdd is applied "
                      "to set-up vectors in which every non-zero is indexed (setValue(i, x) with 0 < |x| <= epsilon stores x without indexing i; "
                      "multAdd then leaves values of the order of epsilon / the marker 1e-100 un-indexed)",
                      "double entries are small dyadic numbers (k/8, scaled by powers of two, at most a few multiplications by 3) so that the "
                      "floating-point operations are exact; Rational entries are arbitrary small fractions; epsilon = 1e-16 (Tolerances default)",
                      "NameSet growth test size()+1 > 0.7*max() is modelled exactly (10*(size+1) > 7*max); the double product differs from it only "
                      "for max() in {90, 170, 180, ...}; the capacities reachable with the generated sequences (at most 12 names, reMax < 30) stay below 90",
                      "SVSet / LPRowSet / LPColSet: the nonzero arena is not modelled (memRemax, memPack, xtend are checked to leave every "
                      "vector unchanged); copying a set without vectors is not compared",
                      "hash functions return non-negative values (DataHashTable indexes with hash % size)"]
    ck.finish()


if __name__ == "__main__":
    main()
