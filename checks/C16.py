#!/usr/bin/env python3
"""C16 - Limits and interrupts stop the solve honestly and resumably.

Leg A: coq/LimitsModel.v + Limits_Proofs.v + Properties_C16.v (stop logic of solve()/terminate(), budget arithmetic, status
mapping; theorems for all event lists and limits).
Leg B: for every LP x configuration the unlimited solve is traced through the solver's own log (a std::streambuf hooked as
its log stream; no source hook); the trace is fed to the extracted model which predicts status and iteration count for
every iteration limit k = 0..N+1, for an interrupt raised at every display line, and for TIMELIMIT 0; the harness runs all
of them on fresh solver objects and the predictions are compared exactly.
Leg C (property oracle, independent of the model): honest status judged against the class certified by the proved checker
of Cert.v, numIterations <= k, valid basis, lift the limit and re-solve on the same object -> certified status and value;
objective limits on both sides of the certified optimum; exact solves under refinement limits."""
import json
import os
import re
import sys
from fractions import Fraction

sys.path.insert(0, os.path.dirname(os.path.abspath(__file__)))
sys.path.insert(0, os.path.dirname(os.path.dirname(os.path.abspath(__file__))))
import vlib
import lpgen
import solvecommon as sc

HARNESSES = ["C01", "C16"]
MODEL = True
OBJ_AGREE = Fraction(1, 10**6)          # |v - v*| <= 1e-6 (1 + |v*|)
VERDICTS = ("OPTIMAL", "INFEASIBLE", "UNBOUNDED", "INForUNBD")
ABORTS = ("ABORT_ITER", "ABORT_TIME", "ABORT_VALUE")
CLASS_STATUS = {"optimal": "OPTIMAL", "infeasible": "INFEASIBLE", "unbounded": "UNBOUNDED"}
SPX = {1: "OPTIMAL", 2: "UNBOUNDED", 3: "INFEASIBLE", -5: "ABORT_VALUE", -6: "ABORT_ITER", -7: "ABORT_TIME"}
SIMP = {0: "K", 1: "N", 2: "D", 3: "U", 4: "V"}
TRACE = "verbosity=5 displayfreq=1"
DTOK = re.compile(r"^([LE])(\d+)(s?)$")


# --------------------------------------------------------------------------------------------------------------------
# trace of the unlimited solve -> event lists of the inner solves (see coq/LimitsModel.v for the event kinds)
# --------------------------------------------------------------------------------------------------------------------
def parse_log(log, simp):
    """returns (solves, line_event) or None.  solves: list of strings 'K:SPF...'; line_event[d] = index of the first event
    of the FIRST inner solve that reads an interrupt flag raised while display line d (0-based) is printed."""
    toks = [("e" if (t[0] == "e" and not DTOK.match(t)) else t) for t in log.split(",") if t]
    segs, cur = [], []
    k = 0
    while k < len(toks):
        t = toks[k]
        if t.startswith("."):
            st, it = t[1:].split("/")
            fin = toks[k + 1] if k + 1 < len(toks) and DTOK.match(toks[k + 1]) else None
            segs.append((cur, int(st), int(it), fin))
            cur = []
            k += 2 if fin else 1
        else:
            cur.append(t)
            k += 1
    if cur:
        return None                       # output after the last inner solve that is not understood
    solves, line_event = [], []
    for si, (seg, st, itfin, fin) in enumerate(segs):
        if any(m in seg for m in ("c", "g", "w", "e", "d", "p")):
            return None                   # cycling / singular / exception / polishing: outside the trace grammar
        ev = "S"
        le = []
        d = [(i, DTOK.match(t)) for i, t in enumerate(seg)]
        dpos = [i for i, m in d if m]
        if not dpos:
            if st in (1, 2, 3):
                return None
            solves.append("K:" + ev)
            if si == 0:
                line_event = [len(ev)] if fin else []
            continue
        typ = lambda i: DTOK.match(seg[i]).group(1)
        itr = lambda i: int(DTOK.match(seg[i]).group(2))
        le.append(1)                      # forced line at the start of the first phase: the first pass reads the flag
        p = 1
        while p < len(dpos):
            i = dpos[p]
            nxt = dpos[p + 1] if p + 1 < len(dpos) else None
            marks = seg[i + 1:(nxt if nxt is not None else len(seg))]
            le.append(len(ev))
            if nxt is not None:
                dd = itr(nxt) - itr(i)
                if typ(nxt) != typ(i):
                    if "u" in marks and dd == 0:
                        ev += "FW"
                    elif "z" in marks and dd in (0, 1):
                        ev += ("P" if dd == 1 else "F") + "W"
                    elif dd == 0 and not marks:
                        ev += "W"
                    elif dd == 0 and all(m in ("n",) for m in marks):
                        ev += "W"
                    else:
                        return None
                    le.append(len(ev))    # forced line of the new phase
                    p += 2
                    continue
                if dd == 1:
                    ev += "P"
                elif dd == 0:
                    ev += "F"
                else:
                    return None
                p += 1
            else:
                dd = itfin - itr(i)
                if st == 1 and dd == 0:
                    ev += "O"
                elif st == 2 and dd == 0:
                    ev += "U"
                elif st == 3 and dd == 0:
                    ev += "I"
                elif st in (-6, -7) and ("i" in marks or "x" in marks) and dd == 0:
                    pass                  # stopped in front of the step: the pass was not executed
                elif st in (-7, -5) and ("t" in marks or "v" in marks) and dd in (0, 1):
                    ev += "P" if dd == 1 else "F"
                else:
                    return None
                p += 1
        if fin:
            le.append(len(ev))
        solves.append("K:" + ev)
        if si == 0:
            line_event = le
    letter = SIMP.get(simp)
    if letter is None:
        return None
    if letter != "K":
        solves = [letter + ":"] + solves
        line_event = []
    return solves, line_event


# --------------------------------------------------------------------------------------------------------------------
def basis_defect(p, o):
    """isBasisValid of the public interface: no UNDEFINED, FIXED only with equal bounds, ON_LOWER/ON_UPPER only at a finite
    bound, exactly numRows basic."""
    br, bc = o.get("brows", "").strip(","), o.get("bcols", "").strip(",")
    if len(br) != p.m or len(bc) != p.n:
        return "dimension"
    nb = br.count("B") + bc.count("B")
    if nb != p.m:
        return "basic-count-%d-of-%d" % (nb, p.m)
    for s, (lo, up) in list(zip(bc, [(c[1], c[2]) for c in p.cols])) + list(zip(br, [(r[0], r[2]) for r in p.rows])):
        if s == "?":
            return "undefined"
        if s == "L" and lo is None:
            return "on-lower-at-infinite-bound"
        if s == "U" and up is None:
            return "on-upper-at-infinite-bound"
        if s == "F" and (lo is None or up is None or lo != up):
            return "fixed-with-unequal-bounds"
    return None


def objlimit_path(cfg):
    """the configuration whose unlimited solve takes the path of a solve with an objective limit"""
    c = dict(cfg)
    c["simplifier"] = 0
    if c.get("persistentscaling", 1) == 0:
        c["scaler"] = 0
    return c


def caught_exception(o):
    """text of an exception the solver caught during this solve (from its own log), or None"""
    for tok in o.get("log", "").split(","):
        if tok.startswith("e") and len(tok) > 1 and not DTOK.match(tok):
            try:
                return bytes.fromhex(tok[1:]).decode(errors="replace")
            except ValueError:
                return "?"
    return None


def cfg_key(cfg):
    return lpgen.cfg_text({k: v for k, v in cfg.items() if k in ("algorithm", "representation", "simplifier")}) or "default"


class Judge:
    def __init__(self, ck):
        self.ck = ck
        self.worst_obj = 0.0

    def viol(self, sig, what, p, cfg, fam, do, obs, extra=None, no_input=False):
        rp = {"lp": p.text("replay"), "lp_format": p.lp_format(), "config": cfg, "family": fam, "do": do,
              "observed": [{k: v for k, v in o.items() if k not in ("log",)} for o in obs], "lp_family": p.family}
        if extra:
            rp.update(extra)
        return self.ck.violation(sig, what, rp, no_input=no_input)

    def verdict_ok(self, cl, st):
        """is a verdict status consistent with the certified class?"""
        if cl is None:
            return True
        if st == "INForUNBD":
            return cl[0] in ("infeasible", "unbounded")
        return CLASS_STATUS[cl[0]] == st

    def obj_ok(self, cl, o):
        if cl is None or cl[0] != "optimal" or "obj" not in o:
            return True
        v = lpgen.dy2fr(o["obj"])
        if v is None:
            return False
        e = abs(v - cl[1]) / (1 + abs(cl[1]))
        self.worst_obj = max(self.worst_obj, float(e)) if e <= OBJ_AGREE else self.worst_obj
        return e <= OBJ_AGREE

    def limited(self, p, cfg, cl, fam, par, do, o1, o2, unl, expect_abort):
        """one limited solve o1 followed by the re-solve o2 on the same object with the limit lifted"""
        ck = self.ck
        tag = cfg_key(cfg)
        ok = True
        st = o1["status"]
        ck.count("limited:%s:%s" % (fam, st))
        if st in VERDICTS:
            # a verdict under a limit must be the true one
            if not self.verdict_ok(cl, st):
                ok = False
                self.viol("wrong-verdict-under-limit:%s:%s-for-%s" % (fam, st, cl[0]),
                          "%s (%s) returned %s for an LP certified %s under %s" % (fam, par, st, cl[0], cfg), p, cfg, fam, do, [o1, o2],
                          {"certified_class": cl[0]})
            elif st == "OPTIMAL" and not self.obj_ok(cl, o1):
                ok = False
                self.viol("wrong-optimum-under-limit:%s" % fam, "%s (%s): OPTIMAL with objective %s, certified optimum %s under %s" % (
                    fam, par, float(lpgen.dy2fr(o1["obj"])) if "obj" in o1 else None, float(cl[1]), cfg), p, cfg, fam, do, [o1, o2],
                    {"certified_optimum": lpgen.qs(cl[1])})
        elif st in ABORTS:
            if st != expect_abort:
                ok = False
                self.viol("wrong-abort-status:%s:%s" % (fam, st), "%s (%s) stopped with %s instead of %s under %s" % (fam, par, st, expect_abort, cfg),
                          p, cfg, fam, do, [o1, o2])
        elif st in ("RUNNING", "ERROR") and caught_exception(o1):
            # not a limit defect: the simplex threw, optimize() caught it and reports the stale solver status (the same happens without
            # any limit on this path; cf. C01-sum-starter-running).  Specific signature so that it can be recorded.
            ok = False
            simp_off = (cfg.get("simplifier", 1) == 0 or fam == "obj")
            self.viol("status-running:first-solve:starter=%s:simplifier=%s" % (cfg.get("starter", 0), "off" if simp_off else "on"),
                      "%s (%s): the solver caught <%s> and optimize() returned %s under %s" % (fam, par, caught_exception(o1), st, cfg),
                      p, cfg, fam, do, [o1, o2], {"exception": caught_exception(o1)})
        elif st in ("UNKNOWN", "RUNNING", "REGULAR", "NOT_INIT", "NO_PROBLEM", "ERROR", "EXCEPTION"):
            ok = False
            self.viol("no-status-under-limit:%s:%s" % (fam, st), "%s (%s) returned status %s (neither the abort status nor a verdict) under %s" % (
                fam, par, st, cfg), p, cfg, fam, do, [o1, o2])
        else:
            ck.count("other-status:%s:%s" % (fam, st))      # ABORT_CYCLING, SINGULAR, OPTIMAL_UNSCALED_VIOLATIONS: counted only
        if fam == "iter" and int(o1.get("iters", 0)) > par:
            ok = False
            self.viol("iterations-exceed-limit:%s" % tag, "ITERLIMIT %d but numIterations() = %s under %s" % (par, o1.get("iters"), cfg),
                      p, cfg, fam, do, [o1, o2])
        if st in ABORTS:
            if o1.get("hasBasis") != "1":
                ok = False
                self.viol("no-basis-after-abort:%s:%s" % (fam, tag), "%s (%s) stopped with %s but hasBasis() is false under %s" % (fam, par, st, cfg),
                          p, cfg, fam, do, [o1, o2])
            else:
                bd = basis_defect(p, o1)
                if bd:
                    ok = False
                    # context that keeps a recorded finding specific: internal (non-persistent) scaling without simplifier means
                    # the solver worked on a scaled copy of the LP
                    ctx = "scaled-copy" if (cfg.get("persistentscaling", 1) == 0 and cfg.get("scaler", 2) != 0 and cfg.get("simplifier", 1) == 0) else tag
                    self.viol("invalid-basis-after-abort:%s" % ctx, "%s (%s) stopped with %s and getBasis() returns an invalid basis (%s: rows %s columns %s) under %s" % (
                        fam, par, st, bd, o1.get("brows"), o1.get("bcols"), cfg), p, cfg, fam, do, [o1, o2], {"basis_defect": bd})
        # resumption
        if o2 is not None:
            st2 = o2["status"]
            ck.count("resumed:%s:%s" % (fam, st2))
            want = unl["status"] if unl is not None else None
            same = (want is None or st2 == want or (want == "INForUNBD" and st2 in ("INFEASIBLE", "UNBOUNDED"))
                    or (st2 == "INForUNBD" and want in ("INFEASIBLE", "UNBOUNDED")))
            if st2 in VERDICTS:
                if not self.verdict_ok(cl, st2) or not same:
                    ok = False
                    self.viol("resume-wrong-status:%s:%s-after-%s" % (fam, st2, st),
                              "after %s (%s) stopped with %s, lifting the limit and re-solving gives %s; uninterrupted solve: %s, certified class: %s, under %s" % (
                                  fam, par, st, st2, want, cl[0] if cl else None, cfg), p, cfg, fam, do, [o1, o2], {"unlimited": unl})
                elif st2 == "OPTIMAL":
                    good = self.obj_ok(cl, o2)
                    if good and unl is not None and "obj" in unl and "obj" in o2:
                        a, b = lpgen.dy2fr(o2["obj"]), lpgen.dy2fr(unl["obj"])
                        good = a is not None and b is not None and abs(a - b) <= OBJ_AGREE * (1 + abs(b))
                    if not good:
                        ok = False
                        self.viol("resume-wrong-optimum:%s" % fam, "after %s (%s) stopped with %s the re-solve is OPTIMAL with objective %s; uninterrupted %s, certified %s, under %s" % (
                            fam, par, st, float(lpgen.dy2fr(o2["obj"])) if "obj" in o2 else None,
                            float(lpgen.dy2fr(unl["obj"])) if unl and "obj" in unl else None, float(cl[1]) if cl and cl[0] == "optimal" else None, cfg),
                            p, cfg, fam, do, [o1, o2], {"unlimited": unl})
            elif st2 in ("RUNNING", "ERROR") and caught_exception(o2):
                if not (st in ("RUNNING", "ERROR") and caught_exception(o1)):      # otherwise already reported for the first solve
                    ok = False
                    self.viol("status-running:re-solve:starter=%s:simplifier=off" % cfg.get("starter", 0),
                              "after %s (%s) stopped with %s, the re-solve caught <%s> and optimize() returned %s under %s" % (
                                  fam, par, st, caught_exception(o2), st2, cfg), p, cfg, fam, do, [o1, o2], {"exception": caught_exception(o2), "unlimited": unl})
            elif unl is not None and want in VERDICTS:
                if st2 in ABORTS or st2 in ("UNKNOWN", "RUNNING", "ERROR", "EXCEPTION", "NO_PROBLEM"):
                    ok = False
                    self.viol("resume-not-solved:%s:%s-after-%s" % (fam, st2, st), "after %s (%s) stopped with %s, the re-solve without limit ends with %s (uninterrupted: %s) under %s" % (
                        fam, par, st, st2, want, cfg), p, cfg, fam, do, [o1, o2], {"unlimited": unl})
                else:
                    # the re-solve failed for a reason that is not a limit (singular basis, cycling): counted, with samples in the evidence
                    ck.count("other-status:resume:%s:%s-after-%s:%s" % (fam, st2, st, tag))
                    ck.cov.setdefault("resume_without_verdict_samples", [])
                    if len(ck.cov["resume_without_verdict_samples"]) < 8:
                        ck.cov["resume_without_verdict_samples"].append({"lp": p.text("s"), "config": cfg, "do": do, "first": st, "resumed": st2,
                                                                          "first_basis": (o1.get("brows"), o1.get("bcols")), "log2": o2.get("log", "")[:200]})
        return ok


def parse_obs(out):
    """{case id: {run id: [obs dict by step]}}"""
    res = {}
    for cid, lines in lpgen.blocks(out).items():
        runs = {}
        for l in lines:
            if not l.startswith("OBS "):
                continue
            t = l.split()
            d = {"_run": t[1], "_step": int(t[2])}
            for w in t[3:]:
                if "=" in w:
                    a, b = w.split("=", 1)
                    d[a] = b
            runs.setdefault(t[1].split("!")[0], []).append(d)
        res[cid] = runs
    return res


def run_recover(exe, lps, todo, tag, nobs=2, maxcrash=40, skip_lp_after_crash=False):
    """todo: list of (k, runid, do-line) in execution order.  Runs them; when the harness dies, the first run without a complete
    observation is recorded as crashed and the rest is run again.  Returns (observations, crashes)."""
    O, crashes, skipped = {}, [], set()
    rest = list(todo)
    while rest:
        parts, last = [], None
        for (k, rid, do) in rest:
            if k != last:
                parts.append(lps[k].text(str(k)) + "\n")
                last = k
            parts.append(do + "\n")
        rc, out, err = lpgen.run_harness(exe, "".join(parts), tag)
        for cid, runs in parse_obs(out).items():
            O.setdefault(cid, {}).update(runs)
        if rc == 0:
            break
        idx = None
        for i, (k, rid, do) in enumerate(rest):
            if len(O.get(str(k), {}).get(rid, [])) < nobs:
                idx = i
                break
        if idx is None:
            crashes.append((None, None, None, rc, []))
            break
        k, rid, do = rest[idx]
        crashes.append((k, rid, do, rc, O.get(str(k), {}).get(rid, [])))
        rest = rest[idx + 1:]
        if skip_lp_after_crash:
            skipped.update((k2, rid2) for (k2, rid2, _) in rest if k2 == k)
            rest = [x for x in rest if x[0] != k]
        if len(crashes) >= maxcrash:
            skipped.update((k2, rid2) for (k2, rid2, _) in rest)
            break
    return O, crashes, skipped


def configs_for(r, tier, nrand):
    base = []
    for alg in (0, 1):
        for rep in (1, 2):
            for simp in (0, 1):
                base.append({"algorithm": alg, "representation": rep, "simplifier": simp})
    cfgs = [{}] + base
    for _ in range(nrand):
        c = lpgen.rand_config(r)
        c["solution_polishing"] = 0          # known defects with polishing (KNOWN_FINDINGS.json: C01/C02)
        cfgs.append(c)
    return cfgs


def gen_refine_blocks(r):
    """K independent blocks  opt c x + (c/2)(1 + 2^-40) y  s.t.  x + y/2 <= 1, y <= U, x, y >= 0  (maximisation; mirrored for
    minimisation): in floating point the vertex x = 1, y = 0 looks optimal (reduced cost of y is c 2^-41), exactly it is x = 0, y = 2"""
    K = r.randint(2, 4)
    eps = Fraction(1, 2 ** 40)
    maxi = r.random() < 0.6
    sg = 1 if maxi else -1
    cols, rows = [], []
    for k in range(K):
        c = Fraction(r.choice([1, 2, 2, 4]))
        cols.append((sg * c, Fraction(0), None))
        cols.append((sg * (c / 2) * (1 + eps), Fraction(0), None))
        rows.append((None, {2 * k: Fraction(1), 2 * k + 1: Fraction(1, 2)}, Fraction(1)))
        rows.append((None, {2 * k + 1: Fraction(1)}, Fraction(r.choice([4, 10]))))
    return lpgen.LP(maxi, Fraction(0), cols, rows, "refine-blocks")


def main():
    ck = vlib.Check("C16", "proof")
    ck.prove()
    exe1 = vlib.build_harness("C01")
    exe = vlib.build_harness("C16")
    model1 = vlib.build_model("C01")
    model = vlib.build_model("C16")
    S = sc.Session(ck, exe1, model1)
    J = Judge(ck)
    r = ck.rng
    nlp, nmax, nrand, nexact = (60, 15, 1, 60) if ck.tier == "quick" else (1000, 25, 2, 500)
    if os.environ.get("VERIF_C16_NLP"):
        nlp = nexact = int(os.environ["VERIF_C16_NLP"])          # development: size override
    lps = []
    if ck.args.replay:
        rp = json.load(open(ck.args.replay))
        cols, rows, head = [], [], None
        for l in rp["lp"].splitlines():
            t = l.split()
            if t and t[0] == "LP":
                head = t
            elif t and t[0] == "C":
                cols.append((Fraction(t[1]), lpgen.fr(t[2]), lpgen.fr(t[3])))
            elif t and t[0] == "R":
                rows.append((lpgen.fr(t[1]), {int(e.split(":")[0]): Fraction(e.split(":")[1]) for e in t[3:]}, lpgen.fr(t[2])))
        lps = [lpgen.LP(head[2] == "max", Fraction(head[3]), cols, rows, "replay")]
        fixed_cfgs = [rp.get("config", {})]
        nexact = 1
    else:
        corpus = lpgen.load_corpus("C16")
        for _ in range(nlp):
            k = r.randrange(10)
            if k < 5:
                lps.append(lpgen.gen_around_point(r, nmax))
            elif k < 7:
                lps.append(lpgen.gen_random(r, nmax))
            else:
                lps.append(lpgen.gen_lp(r, nmax))
        lps = [c[0] for c in corpus] + lps
        # LPs on which the exact solve has to PIVOT inside a refinement round (the floating-point optimal vertex is not the exact
        # optimum: cost difference 2^-40), so that an iteration limit can fall strictly inside a refinement round
        nref = 4 if ck.tier == "quick" else 24
        lps = [gen_refine_blocks(r) for _ in range(nref)] + lps
        fixed_cfgs = None
    classes, exs = S.classify(lps)
    cfgs = {}
    for k in range(len(lps)):
        cfgs[k] = fixed_cfgs if fixed_cfgs is not None else configs_for(r, ck.tier, nrand)
        if fixed_cfgs is None and k < len(lpgen.load_corpus("C16")):
            cfgs[k] = lpgen.load_corpus("C16")[k][1] + cfgs[k][:2]

    # ---- phase 1: unlimited solves with the trace
    todo_u = []
    for k, p in enumerate(lps):
        for c, cfg in enumerate(cfgs[k]):
            todo_u.append((k, "c%d.u" % c, "DO c%d.u new %s %s ; opt" % (c, TRACE, lpgen.cfg_text(cfg))))
            # with an objective limit set optimize() calls _preprocessAndSolveReal(false): no simplifier, and no scaler either unless the
            # LP was scaled persistently (_disableSimplifierAndScaler): the reference for that family is the solve on that path
            todo_u.append((k, "c%d.v" % c, "DO c%d.v new %s %s ; opt" % (c, TRACE, lpgen.cfg_text(objlimit_path(cfg)))))
    U, crashes_u, _ = run_recover(exe, lps, todo_u, "C16-unl", nobs=1)
    for (k, rid, do, crc, got) in crashes_u:
        # a crash of the solve without any limit is not a limit defect, but it must not go unnoticed
        if k is None:
            ck.violation("crash:harness", "the harness crashed (rc=%d) and the crashing run could not be identified" % crc, {"kind": "crash"}, no_input=True)
        else:
            c = int(rid.split(".")[0][1:])
            J.viol("crash:unlimited", "the solver crashed (rc=%d) in a solve without any limit: %s" % (crc, do), lps[k], cfgs[k][c], "unlimited", do, [], {"kind": "crash", "rc": crc})

    # ---- phase 2: all limited solves
    plan = {}          # (k, c, runid) -> (family, parameter, do text)
    todo, todo_exact = [], []
    mq = []
    pred_ids = {}
    for k, p in enumerate(lps):
        cl = classes[k]
        for c, cfg in enumerate(cfgs[k]):
            u = (U.get(str(k), {}).get("c%d.u" % c) or [None])[0]
            if u is None or u["status"] not in VERDICTS:
                # no verdict without any limit (cycling, singular basis, an exception inside the solve): not a limit defect - it belongs to
                # C01/C02 - recorded in the evidence, the pair is left out
                ck.count("unlimited-not-solved:%s" % (u["status"] if u else "missing"))
                ck.cov.setdefault("reference_solves_without_verdict", [])
                if u is not None and len(ck.cov["reference_solves_without_verdict"]) < 5:
                    ck.cov["reference_solves_without_verdict"].append({"lp": p.text("ref"), "config": cfg, "status": u["status"], "log": u.get("log", "")[:300]})
                continue
            if not J.verdict_ok(cl, u["status"]):
                # a wrong verdict of the solve WITHOUT any limit is the subject of C01/C02 (e.g. the simplifier reports UNBOUNDED for an
                # LP that is primal infeasible with an improving ray); it is recorded in the evidence and the pair is left out here
                ck.count("reference-verdict-contradicts-class:%s-for-%s" % (u["status"], cl[0]))
                ck.cov.setdefault("reference_verdicts_contradicting_class", [])
                if len(ck.cov["reference_verdicts_contradicting_class"]) < 5:
                    ck.cov["reference_verdicts_contradicting_class"].append({"lp": p.text("ref"), "config": cfg, "status": u["status"], "class": cl[0]})
                continue
            ct = lpgen.cfg_text(cfg)
            N = int(u["iters"])
            L = int(u["lines"])
            tr = parse_log(u.get("log", ""), int(u.get("simp", "0")))
            ck.count("trace:%s" % ("parsed" if tr else "not-parsed"))

            def add(rid, fam, par, steps, pred=None):
                do = "DO c%d.%s %s" % (c, rid, steps)
                todo.append((k, "c%d.%s" % (c, rid), do))
                plan[(k, c, rid)] = (fam, par, do)
                if pred is not None and tr is not None:
                    pid = "%d.%d.%s" % (k, c, rid)
                    mq.append("T %s %s solves=%s\n" % (pid, pred, "/".join(tr[0])))
                    pred_ids[(k, c, rid)] = pid
            ks = list(range(0, N + 2))
            if len(ks) > 40:
                ks = sorted(set(ks[:12] + ks[-12:] + r.sample(ks[12:-12], 12)))
            for kk in ks:
                add("k%d" % kk, "iter", kk, "new %s %s iterlimit=%d ; opt ; set iterlimit=-1 ; opt" % (TRACE, ct, kk),
                    "iterlimit=%d intr=-1 time0=0" % kk)
            js = list(range(0, L + 1))
            if len(js) > 40:
                js = sorted(set(js[:12] + js[-12:] + r.sample(js[12:-12], 12)))
            for j in js:
                ie = 0 if j == 0 else (tr[1][j - 1] if tr and j - 1 < len(tr[1]) else (len(tr[0][0]) if tr else 0))
                add("j%d" % j, "intr", j, "new %s %s ; optint %d ; opt" % (TRACE, ct, j), "iterlimit=-1 intr=%d time0=0" % ie)
            add("t0", "time", 0.0, "new %s %s timelimit=0 ; opt ; set timelimit=1e100 ; opt" % (TRACE, ct), "iterlimit=-1 intr=-1 time0=1")
            for ti, tl in enumerate((1e-9, 2e-5, 1e-4)):
                add("t%d" % (ti + 1), "time", tl, "new %s %s timer=2 timelimit=%g ; opt ; set timelimit=1e100 ; opt" % (TRACE, ct, tl))
            # objective limits on both sides of the certified optimum (the active parameter is OBJLIMIT_UPPER when minimising,
            # OBJLIMIT_LOWER when maximising; the other one must have no effect)
            uv = (U.get(str(k), {}).get("c%d.v" % c) or [None])[0]
            if uv is None or uv["status"] not in VERDICTS:
                ck.count("unlimited-without-simplifier-not-solved:%s" % (uv["status"] if uv else "missing"))
            elif not J.verdict_ok(cl, uv["status"]):
                ck.count("reference-verdict-contradicts-class:%s-for-%s" % (uv["status"], cl[0]))
            elif cl is not None:
                vstar = cl[1] if cl[0] == "optimal" else Fraction(r.randint(-20, 20))
                d = max(Fraction(1), abs(vstar))
                act, oth = ("objlimit_lower", "objlimit_upper") if p.maxi else ("objlimit_upper", "objlimit_lower")
                lift = "set objlimit_lower=-1e100 objlimit_upper=1e100 ; opt"
                for oi, (par, off) in enumerate(((act, -d / 2), (act, d / 2), (act, -d / 128), (act, d / 128), (act, 0), (oth, -d / 2), (oth, d / 2))):
                    lim = Fraction(float(vstar + off))      # the limit exactly as the solver receives it
                    add("o%d" % oi, "obj", (par, lim), "new %s %s %s=%s ; opt ; %s" % (TRACE, ct, par, vlib_dy(lim), lift))
                # the same limits on a HOT start: the last column is removed, the rest is solved, the column is put back (it enters non-basic,
                # often at a non-zero bound) and the LP - the case's LP again - is solved under the limit from the stored basis
                if cl[0] == "optimal" and p.n >= 2:
                    for hi, off in enumerate((d / 2, -d / 2, d / 16, -d / 16)):
                        lim = Fraction(float(vstar + off))
                        add("h%d" % hi, "obj", (act, lim), "new %s %s ; dropcol ; optq ; readd ; set %s=%s ; opt ; %s" % (TRACE, ct, act, vlib_dy(lim), lift))
        # exact solves under refinement / stalling / iteration limits (default configuration)
        if k < nexact:
            ex = "syncmode=1 solvemode=2 checkmode=2 feastol=0 opttol=0"
            xs = [("reflimit", 0), ("reflimit", 1), ("reflimit", 2), ("stallreflimit", 0), ("stallreflimit", 1), ("iterlimit", 0), ("iterlimit", 1), ("iterlimit", 3)]
            if p.family == "refine-blocks":
                ex += " simplifier=0"
                xs += [("iterlimit", v) for v in (2, 4, 5, 6, 7, 8, 10, 12)]
            for xi, (par, val) in enumerate(xs):
                do = "DO x%d new %s %s=%d ; opt ; set %s=-1 ; opt" % (xi, ex, par, val, par)
                todo_exact.append((k, "x%d" % xi, do))
                plan[(k, -1, "x%d" % xi)] = ("exact", (par, val), do)
            # ... and the same stops continued in FLOATING-POINT mode after the limit is lifted
            fl = [v for (par, v) in xs if par == "iterlimit"]
            for v in fl:
                rid = "xf%d" % v
                do = "DO %s new %s iterlimit=%d ; opt ; set iterlimit=-1 solvemode=0 feastol=1e-6 opttol=1e-6 ; opt" % (rid, ex, v)
                todo_exact.append((k, rid, do))
                plan[(k, -1, rid)] = ("exact", ("iterlimit-then-float", v), do)
            do = "DO x%d new %s timelimit=0 ; opt ; set timelimit=1e100 ; opt" % (len(xs), ex)
            todo_exact.append((k, "x%d" % len(xs), do))
            plan[(k, -1, "x%d" % len(xs))] = ("exact", ("timelimit", 0), do)
    O, crashes, skipped = run_recover(exe, lps, todo, "C16-lim")
    OX, crashes_x, skipped_x = run_recover(exe, lps, todo_exact, "C16-exact", skip_lp_after_crash=True)
    ck.count("runs-skipped-after-crash", len(skipped) + len(skipped_x))
    for cid, runs in OX.items():
        O.setdefault(cid, {}).update(runs)
    rc = 0
    crashed_runs = set(skipped) | set(skipped_x)
    for (k, rid, do, crc, got) in crashes + crashes_x:
        if k is None:
            ck.violation("crash:harness", "the harness crashed (rc=%d) and the crashing run could not be identified" % crc, {"kind": "crash"}, no_input=True)
            rc = crc
            continue
        crashed_runs.add((k, rid))
        exact = rid.startswith("x")
        c = -1 if exact else int(rid.split(".")[0][1:])
        fam = plan[(k, c, rid if exact else rid.split(".", 1)[1])][0]
        cl = classes[k]
        J.viol("crash:%s:%s%s" % (fam, "first-solve" if not got else "re-solve", (":" + cl[0]) if (exact and cl) else ""),
               "the solver crashed (rc=%d) in the %s of: %s  (LP class: %s)" % (crc, "limited solve" if not got else "re-solve after lifting the limit", do, cl[0] if cl else None),
               lps[k], cfgs[k][c] if c >= 0 else {}, fam, do, got, {"kind": "crash", "rc": crc})
    # model predictions
    P = {}
    if mq:
        d = os.path.join(vlib.BUILD, "run")
        os.makedirs(d, exist_ok=True)
        f = os.path.join(d, "C16-model.%d.q" % os.getpid())
        open(f, "w").write("".join(mq))
        rcm, mout, merr = vlib.sh([model, f], timeout=3000)
        if not os.environ.get("VERIF_KEEP"):
            os.remove(f)
        if rcm != 0:
            ck.violation("model-crash", "extracted model failed: " + merr[-300:], {"kind": "model"}, no_input=True)
        for l in mout.splitlines():
            t = l.split()
            if t and t[0] == "P":
                P[t[1]] = {w.split("=")[0]: w.split("=")[1] for w in t[2:]}

    # ---- the solve driver: the control trace of every floating-point optimize() of this run (limited solves, re-solves after
    # lifting a limit, objective-limit paths) replayed through coq/DriverModel.v
    dq, dmeta = "", {}
    for kk, runs_k in O.items():
        dq += "LP d%s min 0\n" % kk
        for rid, obs in runs_k.items():
            for o in obs:
                if "drvp" in o and "drvf" in o:
                    tag = "t%s_%s" % (rid.replace(".", "_"), o.get("_step", 0))
                    dq += "Q %s driver %s %s %s\n" % (tag, o["drvp"], o["drvf"], o.get("drv", ""))
                    dmeta[("d%s" % kk, tag)] = (kk, rid, o)
    if dq:
        DA = S._ask(dq, "driver")
        for (blk, tag), (kk, rid, o) in dmeta.items():
            a = None
            for l in DA.get(blk, []):
                t = l.split()
                if len(t) >= 4 and t[0] == "A" and t[1] == tag:
                    a = t[3]
            ck.count("driver-trace:" + ("agree" if a == "true" else "disagree"))
            for code, nm in (("41", "verification-failed"), ("42", "objlimit-verified"), ("43", "objlimit-toggled"), ("25", "resolve-without-preprocessing")):
                if (";" + o.get("drv", "")).find(";%s," % code) >= 0:
                    ck.count("driver-path:" + nm)
            if a != "true":
                kind = (a or "missing").split(":")[0]
                ck.violation("driver-correspondence:%s" % kind, "the control trace of the solve driver differs from coq/DriverModel.v in run %s of LP %s: %s" % (rid, kk, a),
                             {"lp": lps[int(kk)].text("replay") if str(kk).isdigit() and int(kk) < len(lps) else None, "run": rid, "observed": {x: y for x, y in o.items() if not x.startswith("_")},
                              "model_answer": a, "correspondence": "DriverModel.replay"}, no_input=True)

    # ---- decide
    exact_q = ""
    exact_cases = []
    for (k, c, rid), (fam, par, do) in plan.items():
        p = lps[k]
        cl = classes[k]
        if fam == "exact":
            obs = O.get(str(k), {}).get(rid, [])
            exact_cases.append((k, rid, par, do, obs))
            continue
        cfg = cfgs[k][c]
        obs = O.get(str(k), {}).get("c%d.%s" % (c, rid), [])
        unl = U[str(k)]["c%d.%s" % (c, "v" if fam == "obj" else "u")][0]
        if len(obs) < 2:
            if rc == 0 and (k, "c%d.%s" % (c, rid)) not in crashed_runs:
                J.viol("missing-observation:%s" % fam, "no observation for %s" % do, p, cfg, fam, do, obs, no_input=True)
            continue
        o1, o2 = obs[0], obs[1]
        ck.evaluated((p.key(), lpgen.cfg_text(cfg), fam, str(par)), nontrivial=(int(unl["iters"]) >= 1))
        ck.count("family:%s" % fam)
        ck.count("lpfamily:%s" % p.family)
        ck.count("config:%s" % cfg_key(cfg))
        expect = {"iter": "ABORT_ITER", "intr": "ABORT_TIME", "time": "ABORT_TIME", "obj": "ABORT_VALUE"}[fam]
        ok = J.limited(p, cfg, cl, fam, par, do, o1, o2, unl, expect)
        if o1["status"] in ABORTS:
            ck.count("stopped-after:%s:%s" % (fam, "0-iterations" if int(o1.get("iters", 0)) == 0 else "1+-iterations"))
        # family specific
        if fam == "intr" and o1["status"] == "ABORT_TIME" and o1.get("raised") != "1":
            ok = False
            J.viol("abort-time-without-cause", "ABORT_TIME although the interrupt flag was never raised and no time limit is set under %s" % cfg, p, cfg, fam, do, obs)
        if fam == "obj":
            name, lim = par
            act = "objlimit_lower" if p.maxi else "objlimit_upper"
            if o1["status"] == "ABORT_VALUE":
                legit = False
                if name == act and cl is not None:
                    if cl[0] == "infeasible":
                        legit = True
                    elif cl[0] == "optimal":
                        tol = Fraction(1, 10**6) * (1 + abs(lim))
                        legit = (cl[1] <= lim + tol) if p.maxi else (cl[1] >= lim - tol)
                if not legit:
                    ok = False
                    J.viol("abort-value-not-beyond-limit:%s:%s" % ("max" if p.maxi else "min", "active" if name == act else "inactive-side"),
                           "ABORT_VALUE with %s = %s for a %s LP whose certified class is %s%s under %s" % (
                               name, float(lim), "max" if p.maxi else "min", cl[0] if cl else None,
                               " with optimum %s" % float(cl[1]) if cl and cl[0] == "optimal" else "", cfg), p, cfg, fam, do, obs)
                ck.count("abort-value:%s" % ("legit" if legit else "wrong"))
        # model correspondence
        pid = pred_ids.get((k, c, rid))
        if pid is not None and pid in P:
            pr = P[pid]
            got = (o1["status"], o1.get("iters"))
            ck.count("model-compared:%s" % fam)
            if pr["status"] in ("FAILED", "RUNNING") or o1["status"] not in VERDICTS + ABORTS:
                ck.count("model-not-comparable")
            elif got != (pr["status"], pr["iters"]):
                J.viol("model-mismatch:%s:%s-vs-%s" % (fam, o1["status"], pr["status"]),
                       "stop-logic model predicts %s after %s iterations, the code returned %s after %s (%s %s under %s; trace %s)" % (
                           pr["status"], pr["iters"], got[0], got[1], fam, par, cfg, "/".join(parse_log(unl["log"], int(unl.get("simp", "0")))[0])),
                       p, cfg, fam, do, obs, {"predicted": pr, "unlimited_log": unl.get("log"), "theorem": "correspondence of LimitsModel.outer"}, no_input=ok)
        if k < 2 and c == 0 and rid in ("k1", "j2"):
            ck.sample({"lp": p.text(str(k)), "class": (cl[0] if cl else None), "config": cfg, "do": do,
                       "observed": [(o["status"], o.get("iters")) for o in obs], "unlimited": (unl["status"], unl["iters"])})

    # ---- exact solves: a verdict must be the certified one, with an exactly optimal solution
    qx = ""
    for (k, rid, par, do, obs) in exact_cases:
        p = lps[k]
        qx += p.text("%d.%s" % (k, rid)) + "\n"
        for o in obs:
            if o.get("status") == "OPTIMAL" and "xq" in o and "yq" in o:
                qx += "Q s%d optexact %s %s\n" % (o["_step"], o["xq"], o["yq"])
    AX = S._ask(qx, "exact") if qx else {}
    for (k, rid, par, do, obs) in exact_cases:
        p = lps[k]
        cl = classes[k]
        if len(obs) < 2:
            if rc == 0 and (k, rid) not in crashed_runs:
                J.viol("missing-observation:exact", "no observation for %s" % do, p, {}, "exact", do, obs, no_input=True)
            continue
        ck.evaluated((p.key(), "exact", str(par)), nontrivial=(p.n + p.m >= 3))
        ck.count("family:exact")
        a = {l.split()[1]: l.split()[3] for l in AX.get("%d.%s" % (k, rid), []) if l.startswith("A ")}
        for o in obs:
            st = o["status"]
            which = "limited" if o["_step"] == 0 else "lifted"
            ck.count("exact:%s:%s:%s" % (par[0], which, st))
            if par[0] == "iterlimit-then-float" and which == "lifted":
                # the continuation is a floating-point solve: judged by status and objective value against the certified optimum
                if st == "OPTIMAL" and cl is not None and cl[0] == "optimal" and "obj" in o:
                    v = lpgen.dy2fr(o["obj"])
                    if v is None or abs(v - cl[1]) > Fraction(1, 10 ** 6) * (1 + abs(cl[1])):
                        J.viol("exact-abort-then-float:objective", "exact solve stopped by ITERLIMIT %d, limit lifted, continued in floating-point mode: OPTIMAL with "
                               "objective %s but the certified optimum is %s" % (par[1], float(v) if v is not None else None, float(cl[1])), p, {}, "exact", do, obs)
                elif st in ("OPTIMAL", "INFEASIBLE", "UNBOUNDED") and cl is not None and CLASS_STATUS[cl[0]] != st:
                    J.viol("exact-abort-then-float:verdict:%s" % st, "exact solve stopped by ITERLIMIT %d, continued in floating-point mode: %s for an LP certified %s" % (
                        par[1], st, cl[0]), p, {}, "exact", do, obs)
                continue
            if st in ("OPTIMAL", "INFEASIBLE", "UNBOUNDED"):
                bad = cl is not None and CLASS_STATUS[cl[0]] != st
                if st == "OPTIMAL" and not bad and a.get("s%d" % o["_step"]) != "true":
                    bad = True
                if bad:
                    J.viol("exact-wrong-verdict:%s:%s:%s" % (par[0], which, st),
                           "exact solve with %s=%s (%s) returned %s; certified class %s; exact certificate accepted: %s" % (
                               par[0], par[1], which, st, cl[0] if cl else None, a.get("s%d" % o["_step"])), p, {}, "exact", do, obs)
            elif which == "lifted" and cl is not None:
                ck.count("exact-lifted-not-solved:%s" % st)
        o1 = obs[0]
        if par[0] in ("iterlimit", "iterlimit-then-float") and int(o1.get("iters", 0)) > par[1]:
            J.viol("exact-iterations-exceed-limit", "exact solve with ITERLIMIT %d performed %s iterations" % (par[1], o1.get("iters")), p, {}, "exact", do, obs)
        if par[0] == "reflimit" and int(o1.get("refs", 0)) > par[1]:
            J.viol("exact-refinements-exceed-limit", "exact solve with REFLIMIT %d performed %s refinements" % (par[1], o1.get("refs")), p, {}, "exact", do, obs)

    ck.cov["worst_accepted_objective_deviation"] = J.worst_obj
    ck.cov["rule"] = ("LPs from the around-a-point / random / infeasible / unbounded families (small-integer data, sizes up to %d), class certified by the proved "
                      "checker; configurations: default + primal/dual x row/column x simplifier on/off + %d random (polishing off); per (LP, configuration): "
                      "ITERLIMIT k for k = 0..N+1, interrupt raised at display line j = 0..L, TIMELIMIT 0 / 1e-9 / 2e-5 / 1e-4, objective limits at "
                      "optimum +- d/2, +- d/128, 0 on the active and +- d/2 on the inactive parameter, each followed by lifting the limit and re-solving on "
                      "the same object; exact solves under REFLIMIT/STALLREFLIMIT/ITERLIMIT/TIMELIMIT; a case is (LP, configuration, family, parameter), "
                      "non-trivial when the unlimited solve needs >= 1 iteration" % (nmax, nrand))
    ck.cov["trusted_base"] = ["Coq 8.16.1 kernel; theorems of Properties_C16.v closed under the global context",
                              "extraction (ExtrOcamlBasic) + extract/C16/driver.ml; extract/C01 checker service for the certified classes",
                              "harness/C16.cpp (public API; the solver's log stream is read through a std::streambuf; private members only label observations)",
                              "checks/C16.py parse_log: reconstruction of the event trace from the log of the unlimited solve",
                              "SoPlex's exact mode is an UNTRUSTED producer of certificates for the classification (accepted only by the proved checker)"]
    ck.assumptions = ["the simplex engine is an oracle of events; ev_dual = Some v is assumed to mean 'dual objective value of some multipliers' (C16_objlimit_sound), "
                      "which is checked per run through the certified optimum",
                      "the time limit is exercised with TIMELIMIT 0 (deterministic, predicted by the model) and tiny wall-clock limits (stop point not controlled); "
                      "no injectable clock is used",
                      "the resumed solve is required to reach the certified status and value; that two sound verdicts agree is C16_optimal_value_unique / C16_verdicts_exclusive"]
    ck.finish()


def vlib_dy(x):
    """exact token for a dyadic rational limit (the harness reads m:e tokens exactly); other rationals are rounded by float()"""
    x = Fraction(x)
    m, e = vlib.dyadic(float(x))
    return "%d:%d" % (m, e)


if __name__ == "__main__":
    main()
